package main

// Boundary sizes of the id space (sequential monitor): N in {1, 2, 3, 32766, 32767 = math.MaxInt16, the largest
// limit a connection accepts}. For each: construct the handler (it must RETURN), borrow all N ids (distinct, in 1..N),
// the N+1st send is refused, answer everything in random order, borrow N again, one more is refused.

import (
	"context"
	"fmt"
	"sync/atomic"
	"time"

	"github.com/datastax/go-cassandra-native-protocol/client"

	"verif/internal/mon"
)

var boundarySizes = []int{1, 2, 3, 32766, 32767}

// The pristine construction takes milliseconds. A construction that has not returned after this long is a violation
// only if its goroutine is parked inside the library at two looks half the period apart AND the process itself kept
// running meanwhile (heartbeat); anything else is inconclusive.
const constructWatchdog = 60 * time.Second

type heartbeat struct {
	n    atomic.Int64
	stop chan struct{}
}

const heartbeatTick = 20 * time.Millisecond

func startHeartbeat() *heartbeat {
	h := &heartbeat{stop: make(chan struct{})}
	go func() {
		t := time.NewTicker(heartbeatTick)
		defer t.Stop()
		for {
			select {
			case <-h.stop:
				return
			case <-t.C:
				h.n.Add(1)
			}
		}
	}()
	return h
}

// healthy: did the process get at least half of the ticks it should have had over d since mark?
func (h *heartbeat) healthy(mark int64, d time.Duration) bool {
	return h.n.Load()-mark >= int64(d/heartbeatTick)/2
}

func (d *seqDriver) boundary() bool {
	hb := startHeartbeat()
	defer close(hb.stop)
	return d.parallel(int64(len(boundarySizes)), 1, func(w *seqWorker, i int64) {
		n := boundarySizes[i]
		d.guarded(w, "boundary", n, func() {
			ctx, cancel := context.WithCancel(context.Background())
			ch := make(chan *client.VerifInFlight, 1)
			var gid atomic.Int64
			go func() {
				gid.Store(goid())
				ch <- client.VerifNewInFlight(ctx, n, 4, longTimeout)
			}()
			mark := hb.n.Load()
			var h *client.VerifInFlight
			select {
			case h = <-ch:
			case <-time.After(constructWatchdog / 2):
				_, _, parked1 := inspectGoroutine(gid.Load())
				select {
				case h = <-ch:
				case <-time.After(constructWatchdog / 2):
					state, stack, parked2 := inspectGoroutine(gid.Load())
					d.mu.Lock()
					d.skipN[n] = true
					d.mu.Unlock()
					cancel()
					if parked1 && parked2 && hb.healthy(mark, constructWatchdog) {
						d.c.Violation(fmt.Sprintf("seq/construct/N=%d/never-returns", n), seqDetail{Part: "boundary", Source: "boundary", N: n, Seed: d.c.Seed,
							What: fmt.Sprintf("client.VerifNewInFlight(maxInFlight=%d) had not returned after %v; its goroutine is parked [%s] inside the library "+
								"(same at %v), while the process kept running (heartbeat)", n, constructWatchdog, state, constructWatchdog/2),
							Stack: stack})
					} else {
						d.c.Inconclusive(fmt.Sprintf("seq: construction for N=%d did not return, but the goroutine is not parked in the library or the box stalled", n))
					}
					return
				}
			}
			d.c.Count(fmt.Sprintf("seq_boundary_constructed/N=%d", n), 1)
			r := newSeqRunOn(seqCfg{N: n, MaxPending: 4}, w.st, w.slot, h, cancel)
			g := &prngGen{r: r, rng: mon.NewRand(d.c.Seed, uint64(n)+(1<<33)), p: prngPlan{N: n, MaxPending: 4, Mode: 0, L: 0, Cycle: true, FullEpi: true}}
			g.run()
			w.st.cycles[n]++
			d.conclude(w, r, histMeta{source: "boundary", index: i, fullEpi: true})
		})
	})
}
