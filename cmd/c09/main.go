// Check C09 — stream ids: unique while in flight, bounded, recycled, refused when exhausted.
//
// Three monitors drive the real code of client/inflight.go and client/client.go:
//  1. seq   deterministic sequential histories through the export shim (exhaustive for N<=3, PRNG up to N=32767);
//  2. conc  concurrent histories through the shim in `-race` child processes, judged by porcupine;
//  3. sock  a library client against a raw TCP peer that watches the stream ids on the wire.
package main

import (
	"encoding/binary"
	"fmt"
	"os"
	"os/exec"
	"path/filepath"
	"regexp"
	"runtime/pprof"
	"sort"
	"strconv"
	"strings"
	"time"

	"github.com/rs/zerolog"

	"verif/internal/mon"
)

func main() { mon.Main("C09", run) }

func run(c *mon.Ctx) {
	if len(c.Args) > 0 && c.Args[0] == "conc-worker" {
		concWorker(c)
		return
	}
	zerolog.SetGlobalLevel(zerolog.Disabled) // the deterministic and socket monitors run without the log hook
	if c.Replay != "" {
		replay(c)
		return
	}
	c.Rule = "seq: one case = one history over {sendManaged, sendExplicit(k in 1..N,N+1,100), deliverFinal(k), deliverPage(k), deliverUnknown, close} " +
		"run against the real in-flight handler, followed by the I5 epilogue (answer everything, N managed sends, one more); ALL histories up to the " +
		"depth given by the counters seq_enum_histories/* for N in {1,2,3} (|alphabet| = 3N+9), uniformly sampled above, plus PRNG histories of length " +
		"<= 10^4 for N in {1,2,7,128,1024,32767} with fill-to-N / random-order drain / refill cycles; a seq signature = (N, maxPending class, set of " +
		"(operation, outcome, fill level) transitions seen, closed?, mixed?), counted only if at least one operation took place. conc: one case = one " +
		"concurrent history (S senders + R responders, <= 30 operations, then a sequential epilogue) checked by porcupine; its signature = hash of the " +
		"time-ordered sequence of (role, log message class) hook events, i.e. the interleaving that was actually seen. sock: one case = one client " +
		"connection driven by concurrent senders against the raw peer."
	c.Assume("the export shim client/verif_hooks.go (build tag verif) forwards to onOutgoingFrameEnqueued / onIncomingFrameReceived / close unchanged; Snapshot reads the pool length and the table under the handler's lock")
	c.Assume("request timers (1 h in the shim monitors, 5 min on sockets) never fire inside a history")
	c.Assume("conc: call / return stamps come from one atomic counter, taken before the call and after the return")
	c.Assume("race-detector reports of the -race children are evidence only: C09 does not state race freedom (DESIGN §2)")
	if pf := os.Getenv("C09_PROF"); pf != "" {
		f, _ := os.Create(pf)
		pprof.StartCPUProfile(f)
		defer pprof.StopCPUProfile()
	}
	scratch, err := os.MkdirTemp("", "c09-")
	if err != nil {
		c.Fatal("scratch dir: %v", err)
	}
	defer os.RemoveAll(scratch)
	only := os.Getenv("C09_ONLY") // development aid: seq | conc | sock
	var kids *concKids
	if only == "" || only == "conc" {
		kids = startConcChildren(c, scratch)
	}
	if only == "" || only == "sock" {
		t := time.Now()
		runSock(c)
		c.Set("sock_wall_s", time.Since(t).Seconds())
	}
	if only == "" || only == "conc" {
		// the same invariant in the normal build, without hook: the tightest timing (10^5 / 10^6 rounds)
		t := time.Now()
		rounds := int(scaled(int64(c.Pick(100000, 1000000))))
		pingPong(c, 1, rounds, false)
		pingPong(c, 2, rounds/4, false)
		c.Set("pingpong_wall_s", time.Since(t).Seconds())
		// the race for the LAST free id in the normal build (tightest timing): every sender must return
		t = time.Now()
		lr := int(scaled(int64(c.Pick(20000, 200000))))
		lastIDRace(c, 1, 8, lr, false)
		lastIDRace(c, 2, 4, lr/4, false)
		lastIDRace(c, 4, 2, lr/4, false)
		lastIDRace(c, 3, 3, lr/4, false)
		c.Set("last_id_race_wall_s", time.Since(t).Seconds())
	}
	if only == "" || only == "seq" {
		t := time.Now()
		runSeq(c)
		c.Set("seq_wall_s", time.Since(t).Seconds())
	}
	if kids != nil {
		kids.wait(c)
	}
}

// scaled applies C09_SCALE (development aid: smoke-test a tier at a fraction of its counts).
func scaled(n int64) int64 {
	if s := os.Getenv("C09_SCALE"); s != "" {
		var f float64
		if _, err := fmt.Sscan(s, &f); err == nil && f > 0 {
			if n = int64(float64(n) * f); n < 1 {
				n = 1
			}
		}
	}
	return n
}

func runSeq(c *mon.Ctx) {
	d := newSeqDriver(c)
	defer d.wd.close()
	defer d.publish()
	// Exhaustive part. |alphabet| = 3N+9 (12, 15, 18): all histories of depth <= 6 are 4.8e7, of depth 8 1.4e10;
	// one history costs 30-70 us of CPU (every accepted send starts a goroutine, two contexts and a timer in the
	// library), so the depth to which ALL histories are run is bounded per tier and the levels above are sampled
	// uniformly. The counters seq_enum_histories/... say exactly what was run.
	fullDepth := map[int]int{1: c.Pick(5, 7), 2: c.Pick(5, 6), 3: c.Pick(4, 6)}
	maxDepth := c.Pick(6, 8)
	sample := int64(c.Pick(250000, 3000000))
	if s := os.Getenv("C09_DEPTH"); s != "" { // development aid
		var dd int
		fmt.Sscan(s, &dd)
		fullDepth = map[int]int{1: dd, 2: dd, 3: dd}
		maxDepth = dd
	}
	if s := os.Getenv("C09_MAXFULL"); s != "" { // development aid: smoke-test a tier at reduced cost
		var dd int
		fmt.Sscan(s, &dd)
		for n := range fullDepth {
			if fullDepth[n] > dd {
				fullDepth[n] = dd
			}
		}
	}
	sample = scaled(sample)
	// the boundary sizes run beside the enumeration (two of them are ~10^5 sends each on one goroutine)
	tB := time.Now()
	bdone := make(chan bool, 1)
	go func() {
		ok := d.boundary()
		c.Set("seq_boundary_wall_s", time.Since(tB).Seconds())
		bdone <- ok
	}()
	boundaryJoined := false
	joinBoundary := func() bool {
		if boundaryJoined {
			return true
		}
		boundaryJoined = true
		return <-bdone
	}
	defer joinBoundary()
	tEnum := time.Now()
	for dd := 0; dd <= maxDepth; dd++ {
		for n := 1; n <= 3; n++ {
			smp := int64(0)
			if dd > fullDepth[n] {
				smp = sample
			}
			if !d.enumerate(n, 16, dd, smp) {
				return
			}
		}
	}
	// the same with a pending queue of 1, where a second page overflows and closes the request
	for dd := 2; dd <= c.Pick(4, 5); dd++ {
		for n := 1; n <= 3; n++ {
			if !d.enumerate(n, 1, dd, 0) {
				return
			}
		}
	}
	c.Set("seq_enum_wall_s", time.Since(tEnum).Seconds())
	np := c.Pick(10000, 1000000)
	if s := os.Getenv("C09_PRNG"); s != "" {
		fmt.Sscan(s, &np)
	}
	if c.Thorough() {
		hugeCyclePerMille = 1
		prngWeights = []int{270, 270, 300, 140, 17, 3}
	}
	np = int(scaled(int64(np)))
	if s := os.Getenv("C09_WEIGHTS"); s != "" {
		fmt.Sscan(s, &prngWeights[0], &prngWeights[1], &prngWeights[2], &prngWeights[3], &prngWeights[4], &prngWeights[5])
	}
	if !joinBoundary() { // the PRNG part needs to know which sizes cannot be constructed
		return
	}
	c.Count("seq_prng_histories", int64(np))
	tPrng := time.Now()
	d.prng(int64(np))
	c.Set("seq_prng_wall_s", time.Since(tPrng).Seconds())
	d.samples()
}

// ---------------------------------------------------------------------------------------------
// the -race children of the concurrent monitor

type concKid struct {
	cmd     *exec.Cmd
	out     string
	sigs    string
	stderr  string
	errFile *os.File
}

type concKids struct {
	scratch string
	kids    []*concKid
	total   int
	t0      time.Time
}

func startConcChildren(c *mon.Ctx, scratch string) *concKids {
	bin := mon.RaceSelf()
	if _, err := os.Stat(bin); err != nil {
		c.Fatal("the -race flavour of the check binary is missing (%s): run through ./check", bin)
	}
	total := c.Pick(2000, 100000)
	if s := os.Getenv("C09_CONC"); s != "" {
		fmt.Sscan(s, &total)
	}
	total = int(scaled(int64(total)))
	n := c.Pick(6, 12)
	ks := &concKids{scratch: scratch, total: total, t0: time.Now()}
	for k := 0; k < n; k++ {
		kid := &concKid{
			out:    filepath.Join(scratch, fmt.Sprintf("conc.%d.json", k)),
			sigs:   filepath.Join(scratch, fmt.Sprintf("conc.%d.sigs", k)),
			stderr: filepath.Join(scratch, fmt.Sprintf("conc.%d.stderr", k)),
		}
		kid.cmd = mon.WorkerCmd(bin, kid.out, "--tier", c.Tier, "--seed", strconv.FormatInt(c.Seed, 10),
			"conc-worker", strconv.Itoa(k), strconv.Itoa(n), strconv.Itoa(total), kid.sigs)
		kid.cmd.Env = append(kid.cmd.Env, "GOMAXPROCS=4",
			"GORACE=halt_on_error=0 log_path="+filepath.Join(scratch, fmt.Sprintf("race.%d", k)))
		f, err := os.Create(kid.stderr) // a file, never a pipe
		if err != nil {
			c.Fatal("scratch: %v", err)
		}
		kid.errFile = f
		kid.cmd.Stderr, kid.cmd.Stdout = f, f
		if err := kid.cmd.Start(); err != nil {
			c.Fatal("cannot start the -race child: %v", err)
		}
		ks.kids = append(ks.kids, kid)
	}
	return ks
}

var raceFrame = regexp.MustCompile(`(?m)^  ([^\s(][^\n]*)\(\)$`)

func (ks *concKids) wait(c *mon.Ctx) {
	sigs := map[uint64]struct{}{}
	for k, kid := range ks.kids {
		err := kid.cmd.Wait()
		kid.errFile.Close()
		if !c.Merge(kid.out) {
			tail, _ := os.ReadFile(kid.stderr)
			if len(tail) > 3000 {
				tail = tail[len(tail)-3000:]
			}
			// the child died before writing its result: a panic / fatal error in the process running the library
			if strings.Contains(string(tail), "panic:") || strings.Contains(string(tail), "fatal error:") {
				c.Violation("conc/child-crashed", map[string]interface{}{"part": "conc", "seed": c.Seed, "shard": k, "shards": len(ks.kids),
					"total": ks.total, "exit": fmt.Sprint(err), "stderr_tail": string(tail)})
			} else {
				c.Inconclusive("conc: a -race child ended without a result")
				c.Note("conc child %d: %v: %s", k, err, string(tail))
			}
			continue
		}
		if b, err := os.ReadFile(kid.sigs); err == nil {
			for i := 0; i+8 <= len(b); i += 8 {
				sigs[binary.LittleEndian.Uint64(b[i:])] = struct{}{}
			}
		}
	}
	c.Set("conc_wall_s", time.Since(ks.t0).Seconds())
	c.Set("conc_distinct_event_order_signatures", len(sigs))
	// race-detector reports: evidence only
	files, _ := filepath.Glob(filepath.Join(ks.scratch, "race.*"))
	reports := 0
	sites := map[string]int{}
	for _, f := range files {
		b, err := os.ReadFile(f)
		if err != nil {
			continue
		}
		blocks := strings.Split(string(b), "WARNING: DATA RACE")
		for _, blk := range blocks[1:] {
			reports++
			// the first frame of each of the two conflicting accesses
			var tops []string
			for _, part := range strings.Split(blk, "\n\n") {
				p := strings.TrimSpace(part)
				if strings.HasPrefix(p, "Read at") || strings.HasPrefix(p, "Write at") || strings.HasPrefix(p, "Previous read at") || strings.HasPrefix(p, "Previous write at") {
					if m := raceFrame.FindStringSubmatch(part); m != nil {
						fn := m[1]
						if i := strings.LastIndex(fn, "/"); i >= 0 {
							fn = fn[i+1:]
						}
						tops = append(tops, strings.Fields(p)[0]+" "+strings.Fields(p)[1]+" "+fn)
					}
				}
			}
			sort.Strings(tops)
			sites[strings.Join(tops, " <-> ")]++
		}
	}
	c.Set("conc_race_detector_reports(information_only)", reports)
	if len(sites) > 0 {
		c.Set("conc_race_detector_sites(information_only)", sites)
	}
	if c.Counter("conc_histories_with_overlapping_operations") == 0 {
		c.Inconclusive("conc: no history with overlapping operations was observed")
	}
}

// ---------------------------------------------------------------------------------------------
// replay

func replay(c *mon.Ctx) {
	var head struct {
		Part string `json:"part"`
	}
	if err := c.ReplayDetail(&head); err != nil {
		c.Fatal("replay: %v", err)
	}
	switch head.Part {
	case "seq":
		var det seqDetail
		if err := c.ReplayDetail(&det); err != nil {
			c.Fatal("replay: %v", err)
		}
		d := newSeqDriver(c)
		defer d.wd.close()
		var ops []op
		for _, r := range det.Ops {
			if r.Ph == "epilogue" {
				break
			}
			if o, ok := r.toOp(); ok {
				ops = append(ops, o)
			}
		}
		cfg := seqCfg{N: det.N, MaxPending: det.MaxPending, Record: true}
		r := newSeqRun(cfg, newSeqStats(), nil)
		for _, o := range ops {
			r.apply(o)
		}
		histLen := len(r.ops)
		r.epilogue(det.FullEpi)
		r.finish()
		c.Eval(1)
		for _, rc := range r.recs {
			fmt.Printf("  %-8s %-16s k=%-5d ok=%-5v id=%-5d %s\n", rc.Ph, rc.Op, rc.K, rc.OK, rc.ID, rc.Err)
		}
		for _, f := range r.findings {
			fmt.Printf("  finding after op %d: %s: %s\n", f.At, f.Key, f.What)
		}
		d.reportFindings(nil, r, histLen, histMeta{source: "replay", index: det.Index, depth: det.Depth, fullEpi: det.FullEpi})
	case "conc":
		var det concDetail
		if err := c.ReplayDetail(&det); err != nil {
			c.Fatal("replay: %v", err)
		}
		// the interleaving cannot be forced: the same (seed, index) is run 200 times under the hook
		installTap()
		for k := 0; k < 200; k++ {
			p, res := runConcHistory(det.Seed, det.Index)
			concFold(c, det.Index, p, res)
		}
	case "boundary":
		d := newSeqDriver(c)
		defer d.wd.close()
		d.boundary()
		d.publish()
	case "lastid":
		var det lastIDDetail
		if err := c.ReplayDetail(&det); err != nil {
			c.Fatal("replay: %v", err)
		}
		lastIDRace(c, det.N, det.K, det.Rounds, false)
	case "pingpong":
		var det pingPongDetail
		if err := c.ReplayDetail(&det); err != nil {
			c.Fatal("replay: %v", err)
		}
		pingPong(c, det.N, det.Rounds, false)
	case "sock-timeout":
		var det sockDetail
		if err := c.ReplayDetail(&det); err != nil {
			c.Fatal("replay: %v", err)
		}
		runSockTimeout(c, det.Cfg.Version, det.Cfg.N, det.Cfg.PerSender)
	case "sock":
		var det sockDetail
		if err := c.ReplayDetail(&det); err != nil {
			c.Fatal("replay: %v", err)
		}
		runSockCfg(c, det.Cfg, 0)
	default:
		c.Fatal("replay: unknown part %q", head.Part)
	}
}
