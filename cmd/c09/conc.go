package main

// Monitor 2: concurrent histories against the real in-flight handler (export shim), run in a `-race` child
// process, judged by porcupine against the exact sequential specification of the two pure modes.

import (
	"context"
	"encoding/binary"
	"fmt"
	"hash/fnv"
	"io"
	"math/bits"
	"os"
	"runtime"
	"sort"
	"strconv"
	"strings"
	"sync"
	"sync/atomic"
	"time"

	"github.com/anishathalye/porcupine"
	"github.com/rs/zerolog"
	"github.com/rs/zerolog/log"

	"github.com/datastax/go-cassandra-native-protocol/client"

	"verif/internal/mon"
)

const (
	concMaxOps       = 30 // operations of the concurrent phase
	concWatchdog     = 20 * time.Second
	porcupineTimeout = 10 * time.Second
)

type concPlan struct {
	Mode       string `json:"mode"` // managed | explicit
	N          int    `json:"N"`
	S          int    `json:"senders"`
	R          int    `json:"responders"`
	Sends      []int  `json:"sends_per_sender"`
	PerturbPct int    `json:"perturb_percent"`
	AwaitPct   int    `json:"await_percent"` // how often a sender waits for the final response before its next send
}

func planConc(seed, i int64) (concPlan, *mon.Rand) {
	rng := mon.NewRand(seed, uint64(i)+(1<<40))
	p := concPlan{Mode: []string{"managed", "explicit", "managed", "explicit", "mixed"}[i%5]}
	p.N = []int{1, 2, 4}[rng.Intn(3)]
	if p.Mode == "mixed" {
		p.N = 1 + rng.Intn(2)
	}
	p.S = []int{2, 4, 8}[rng.Intn(3)]
	p.R = 1 + rng.Intn(2)
	total := p.S + rng.Intn(19-p.S) // S..18 sends, the rest of the 30 operations are deliveries
	p.Sends = make([]int, p.S)
	for k := 0; k < total; k++ {
		p.Sends[k%p.S]++
	}
	p.PerturbPct = []int{0, 15, 30, 60}[rng.Intn(4)]
	p.AwaitPct = []int{0, 50, 90}[rng.Intn(3)]
	return p, rng
}

// ---------------------------------------------------------------------------------------------
// history records

type cIn struct {
	Kind opKind
	K    int16
	Req  int // harness number (1..63) of the accepted request a deliverFinal / awaitFinal is about; 0: none
}

type cOut struct {
	OK   bool
	ID   int16
	Err  string
	Open bool // the call did not return (watchdog)
}

type concRec struct {
	Client int    `json:"client"`
	Op     string `json:"op"`
	K      int16  `json:"k,omitempty"`
	Req    int    `json:"req,omitempty"` // accepted sends are numbered; deliverFinal / awaitFinal name the request
	Call   int64  `json:"call"`
	Ret    int64  `json:"return"` // -1: still open
	OK     bool   `json:"ok"`
	ID     int16  `json:"id,omitempty"`
	Err    string `json:"err,omitempty"`
	Panic  string `json:"panic,omitempty"`
}

// safely runs a call into the library; a panic in it is recorded with the operation instead of killing the child.
func safely(f func()) (p interface{}) {
	defer func() { p = recover() }()
	f()
	return nil
}

type concLog struct {
	mu   sync.Mutex // only this goroutine and, after the join or the watchdog, the coordinator
	recs []concRec
}

func (l *concLog) begin(client int, in cIn, call int64) int {
	l.mu.Lock()
	l.recs = append(l.recs, concRec{Client: client, Op: in.Kind.String(), K: in.K, Req: in.Req, Call: call, Ret: -1})
	i := len(l.recs) - 1
	l.mu.Unlock()
	return i
}

func (l *concLog) end(i int, ret int64, ok bool, id int16, err error) {
	l.mu.Lock()
	r := &l.recs[i]
	r.Ret, r.OK, r.ID = ret, ok, id
	if err != nil {
		r.Err = errClass(err)
	}
	l.mu.Unlock()
}

func (l *concLog) setReq(i, req int) {
	l.mu.Lock()
	l.recs[i].Req = req
	l.mu.Unlock()
}

// panicked leaves the operation open (its effect is unknown) and records the panic value.
func (l *concLog) panicked(i int, p interface{}) {
	l.mu.Lock()
	l.recs[i].Panic = fmt.Sprint(p)
	l.mu.Unlock()
}

// ---------------------------------------------------------------------------------------------
// the log hook: event tap and delay injection (DESIGN M5)

type tapEvent struct {
	t     int64
	role  uint8 // 0 sender, 1 responder
	class uint8
}

type tapGor struct {
	role   uint8
	rng    uint64
	events []tapEvent
	delays int
}

type tapState struct {
	roles map[int64]*tapGor // read-only once published
	pct   int
	t0    time.Time
}

var (
	curTap      atomic.Pointer[tapState]
	tapLibCalls atomic.Int64 // hook invocations from goroutines the harness did not start (request timers)
)

func msgClass(m string) uint8 {
	switch {
	case strings.Contains(m, "borrowed stream id"):
		return 1
	case strings.Contains(m, "released stream id"):
		return 2
	case strings.Contains(m, "timeout started"):
		return 3
	case strings.Contains(m, "timeout canceled"):
		return 4
	case strings.Contains(m, "successfully closed"):
		return 6
	case strings.Contains(m, "closing"):
		return 5
	}
	return 7
}

func splitmix(s *uint64) uint64 {
	*s += 0x9E3779B97F4A7C15
	z := *s
	z = (z ^ (z >> 30)) * 0xBF58476D1CE4E5B9
	z = (z ^ (z >> 27)) * 0x94D049BB133111EB
	return z ^ (z >> 31)
}

type tapHook struct{}

// Run is called synchronously by the goroutine that logs, i.e. between two critical sections of the library.
func (tapHook) Run(e *zerolog.Event, level zerolog.Level, msg string) {
	st := curTap.Load()
	if st == nil {
		return
	}
	g := st.roles[goid()]
	if g == nil {
		tapLibCalls.Add(1)
		return
	}
	g.events = append(g.events, tapEvent{t: int64(time.Since(st.t0)), role: g.role, class: msgClass(msg)})
	if st.pct == 0 || int(splitmix(&g.rng)%100) >= st.pct {
		return
	}
	g.delays++
	x := splitmix(&g.rng)
	if x&1 == 0 {
		for k := 0; k <= int(x>>1)%4; k++ {
			runtime.Gosched()
		}
	} else {
		time.Sleep(time.Duration(50+(x>>1)%451) * time.Microsecond)
	}
}

func installTap() {
	log.Logger = zerolog.New(io.Discard).Hook(tapHook{})
	zerolog.SetGlobalLevel(zerolog.TraceLevel)
}

// ---------------------------------------------------------------------------------------------
// sequential specification (porcupine)

func idBit(id int16) (uint64, bool) {
	switch {
	case id >= 1 && id <= 62:
		return 1 << uint(id), true
	case id == 100:
		return 1 << 63, true
	}
	return 0, false
}

// cState: ids in use, which of them were chosen by the caller, and which (numbered) requests have been answered.
type cState struct {
	used, expl, answered uint64
}

// concModel is the sequential specification.
//
//	sendManaged -> id       legal iff 1 <= id <= N and id not in use (ANY free id: the pool order is unspecified)
//	sendManaged -> refused  legal iff N ids are in use. In MIXED mode (managed and caller-chosen ids on one handler) a
//	                        refusal is always legal: the converse of I3 is not demanded there (DESIGN C09) - a managed
//	                        send that is itself about to be refused (collision with / capacity taken by caller-chosen
//	                        ids) holds a pool id for a moment, so others may find the pool empty below N
//	sendExplicit(k) -> ok   legal iff k not in use and fewer than N in use; refused legal otherwise
//	deliverFinal(id, req)   frees id and marks request req answered
//	awaitFinal(req)         (the sender saw Incoming() closed) legal only once req is answered: the delivery of the
//	                        final response has taken effect, so the id is free when the sender sends again
//	deliverPage / deliverUnknown change nothing; the results of deliveries are not judged.
//
// An operation that never returned (Open) may or may not have taken effect.
func concModel(n int, mixed bool) porcupine.Model {
	one := func(s cState) []interface{} { return []interface{}{s} }
	nm := porcupine.NondeterministicModel{
		Init: func() []interface{} { return one(cState{}) },
		Step: func(state, input, output interface{}) []interface{} {
			s, in, out := state.(cState), input.(cIn), output.(cOut)
			used := bits.OnesCount64(s.used)
			switch in.Kind {
			case opSendManaged:
				if out.Open {
					res := one(s)
					for id := 1; id <= n; id++ {
						if b, _ := idBit(int16(id)); s.used&b == 0 {
							res = append(res, cState{s.used | b, s.expl, s.answered})
						}
					}
					return res
				}
				if !out.OK {
					if used == n || mixed {
						return one(s)
					}
					return nil
				}
				b, ok := idBit(out.ID)
				if !ok || int(out.ID) > n || s.used&b != 0 {
					return nil
				}
				return one(cState{s.used | b, s.expl, s.answered})
			case opSendExplicit:
				b, ok := idBit(in.K)
				if !ok {
					return nil // the harness only sends ids it can represent
				}
				can := s.used&b == 0 && used < n
				taken := cState{s.used | b, s.expl | b, s.answered}
				if out.Open {
					if can {
						return []interface{}{s, taken}
					}
					return one(s)
				}
				if out.OK {
					if can && out.ID == in.K {
						return one(taken)
					}
					return nil
				}
				if !can {
					return one(s)
				}
				return nil
			case opDeliverFinal:
				t := s
				if b, ok := idBit(in.K); ok {
					t.used, t.expl = s.used&^b, s.expl&^b
				}
				if in.Req > 0 && in.Req < 64 {
					t.answered |= 1 << uint(in.Req)
				}
				if out.Open {
					return []interface{}{s, t}
				}
				return one(t)
			case opAwaitFinal:
				if out.Open || (in.Req > 0 && in.Req < 64 && s.answered&(1<<uint(in.Req)) != 0) {
					return one(s)
				}
				return nil
			}
			return one(s)
		},
		Equal: func(a, b interface{}) bool { return a.(cState) == b.(cState) },
	}
	return nm.ToModel()
}

// ---------------------------------------------------------------------------------------------
// one concurrent history

type concDetail struct {
	Part      string    `json:"part"` // "conc"
	Seed      int64     `json:"seed"`
	Index     int64     `json:"index"`
	Plan      concPlan  `json:"plan"`
	What      string    `json:"what"`
	History   []concRec `json:"history"`
	Stacks    []string  `json:"stacks,omitempty"`
	Porcupine string    `json:"porcupine,omitempty"`
}

type concResult struct {
	recs      []concRec
	sig       uint64
	events    int
	delays    int
	overlap   int // maximal number of operations open at the same time
	refused   int
	accepted  int
	open      int
	stacks    []string
	blocked   bool
	watchdog  bool
	direct    []finding // I5 / I6 at the quiescent end, I1 per operation
	checkTime time.Duration
	verdict   porcupine.CheckResult
	witness   string // for an Illegal history: a direct, order-independent witness if there is one
}

// directWitness looks for an instant at which the history ALONE (no choice of linearization points) shows the
// violation: an accepted send counts from its return stamp, a final delivery frees its id from its call stamp
// (the earliest it can have taken effect). More than one such request with the same id, or more than N in total,
// is a definite breach of I2/I4 resp. I3.
func directWitness(recs []concRec, n int) string {
	type ev struct {
		t  int64
		id int16
		d  int
	}
	var evs []ev
	for _, r := range recs {
		switch {
		case (r.Op == "sendManaged" || r.Op == "sendExplicit") && r.OK && r.Ret >= 0:
			evs = append(evs, ev{r.Ret, r.ID, +1})
		case r.Op == "deliverFinal":
			evs = append(evs, ev{r.Call, r.K, -1})
		}
	}
	sort.Slice(evs, func(a, b int) bool { return evs[a].t < evs[b].t })
	per := map[int16]int{}
	total, dup, over := 0, false, false
	for _, e := range evs {
		if e.d < 0 {
			if per[e.id] > 0 {
				per[e.id]--
				total--
			}
			continue
		}
		per[e.id]++
		total++
		if per[e.id] > 1 {
			dup = true
		}
		if total > n {
			over = true
		}
	}
	switch {
	case dup:
		return "two-unanswered-requests-share-an-id"
	case over:
		return "more-than-N-requests-unanswered"
	}
	// A managed send refused although, whatever the order, fewer than N requests can have been unanswered during it:
	// count every accepted request whose send was called before the refused send returned, except those whose final
	// response had been delivered (Deliver returned) or received by their sender (awaitFinal returned) before the
	// refused send was called. Only meaningful without caller-chosen ids in range (a collision may refuse too).
	for _, r := range recs {
		if r.Op == "sendExplicit" && r.OK && int(r.ID) <= n {
			return "no-order-independent-witness"
		}
	}
	for _, x := range recs {
		if x.Op != "sendManaged" || x.OK || x.Ret < 0 {
			continue
		}
		possible := 0
		for _, a := range recs {
			if (a.Op != "sendManaged" && a.Op != "sendExplicit") || a.Call > x.Ret || (a.Ret >= 0 && !a.OK) {
				continue
			}
			done := false
			if a.OK && a.Req > 0 {
				for _, d := range recs {
					if (d.Op == "deliverFinal" || d.Op == "awaitFinal") && d.Req == a.Req && d.Ret >= 0 && d.Ret < x.Call {
						done = true
					}
				}
			}
			if !done {
				possible++
			}
		}
		if possible < n {
			return "managed-send-refused-with-fewer-than-N-unanswered"
		}
	}
	return "no-order-independent-witness"
}

func runConcHistory(seed, index int64) (concPlan, *concResult) {
	p, rng := planConc(seed, index)
	res := &concResult{}
	ctx, cancel := context.WithCancel(context.Background())
	defer cancel()
	h := client.VerifNewInFlight(ctx, p.N, 64, longTimeout)

	var clock atomic.Int64
	stamp := func() int64 { return clock.Add(1) }

	nG := p.S + p.R
	logs := make([]*concLog, nG+1)
	for i := range logs {
		logs[i] = &concLog{}
	}
	gors := make([]*tapGor, nG)
	goids := make([]int64, nG)
	ready := make(chan struct {
		idx int
		id  int64
	}, nG)
	start := make(chan struct{})
	type token struct {
		id   int16
		req  int
		must bool // the sender is waiting for the final response: it is delivered whatever the operation budget says
	}
	tokens := make(chan token, 64)
	var reqCounter atomic.Int32
	sendersDone := make(chan struct{})
	var sendersWG, allWG sync.WaitGroup
	var deliverMu sync.Mutex
	var budget atomic.Int32
	total := 0
	for _, n := range p.Sends {
		total += n
	}
	budget.Store(int32(concMaxOps - total))
	leftovers := make([][]token, p.R)
	finished := make([]atomic.Bool, nG)
	unknown := unknownIDFor(p.N)

	pause := func(r *uint64) {
		switch x := splitmix(r); x % 8 {
		case 0, 1:
			runtime.Gosched()
		case 2:
			time.Sleep(time.Duration(20+(x>>8)%180) * time.Microsecond)
		}
	}

	for sidx := 0; sidx < p.S; sidx++ {
		sendersWG.Add(1)
		allWG.Add(1)
		prs := rng.Uint64()
		go func(idx int, prs uint64) {
			defer allWG.Done()
			defer sendersWG.Done()
			defer finished[idx].Store(true)
			ready <- struct {
				idx int
				id  int64
			}{idx, goid()}
			<-start
			lg := logs[idx]
			noPause := false
			for k := 0; k < p.Sends[idx]; k++ {
				if !noPause {
					pause(&prs)
				}
				noPause = false
				in := cIn{Kind: opSendManaged}
				want := int16(client.ManagedStreamId)
				if p.Mode == "explicit" || (p.Mode == "mixed" && splitmix(&prs)%2 == 0) {
					// ids 1..N+1 and 100: collisions and a full table are both frequent
					want = int16(1 + splitmix(&prs)%uint64(p.N+2))
					if int(want) == p.N+2 {
						want = 100
					}
					in = cIn{Kind: opSendExplicit, K: want}
				}
				f := newSendFrame(want)
				i := lg.begin(idx, in, stamp())
				var req client.InFlightRequest
				var err error
				if pv := safely(func() { req, err = h.Enqueue(f) }); pv != nil {
					lg.panicked(i, pv)
					continue
				}
				ret := stamp()
				if err != nil {
					lg.end(i, ret, false, 0, err)
					continue
				}
				id := f.Header.StreamId
				if req != nil && req.StreamId() != id {
					id = -1 // reported as id-mismatch by the coordinator: never a legal id
				}
				lg.end(i, ret, true, id, nil)
				tk := token{id: id, req: int(reqCounter.Add(1))}
				lg.setReq(i, tk.req)
				// awaitFinal: wait on the caller side until the final response has arrived, then send again AT ONCE
				// (costs two operations of the budget: the final delivery and the wait)
				await := req != nil && int(splitmix(&prs)%100) < p.AwaitPct && tk.req < 64
				if await && budget.Add(-2) < 0 {
					budget.Add(2)
					await = false
				}
				tk.must = await
				tokens <- tk
				if await {
					j := lg.begin(idx, cIn{Kind: opAwaitFinal, K: id, Req: tk.req}, stamp())
					frames := 0
					for range req.Incoming() {
						frames++
					}
					lg.end(j, stamp(), true, int16(frames), nil)
					noPause = true
				}
			}
		}(sidx, prs)
	}
	for ridx := 0; ridx < p.R; ridx++ {
		allWG.Add(1)
		prs := rng.Uint64()
		go func(r int, prs uint64) {
			idx := p.S + r
			defer allWG.Done()
			defer finished[idx].Store(true)
			ready <- struct {
				idx int
				id  int64
			}{idx, goid()}
			<-start
			lg := logs[idx]
			deliver := func(kind opKind, id int16, req int, free bool) bool {
				if !free && budget.Add(-1) < 0 {
					return false
				}
				v := uint8(splitmix(&prs) % 64)
				f := finalFrame(id, v)
				if kind == opDeliverPage {
					f = pageFrame(id, v)
				}
				// The connection's incoming loop is ONE goroutine: deliveries never overlap each other in the
				// library's real use, so the responders take turns (they still overlap the senders freely).
				deliverMu.Lock()
				defer deliverMu.Unlock()
				i := lg.begin(idx, cIn{Kind: kind, K: id, Req: req}, stamp())
				var err error
				if pv := safely(func() { err = h.Deliver(f) }); pv != nil {
					lg.panicked(i, pv)
					return true
				}
				lg.end(i, stamp(), err == nil, 0, err)
				return true
			}
			handle := func(tk token) {
				if !tk.must || splitmix(&prs)%2 == 0 {
					pause(&prs)
				}
				x := splitmix(&prs)
				if x%100 < 30 {
					deliver(opDeliverPage, tk.id, 0, false)
				}
				if (x>>8)%100 < 15 {
					deliver(opDeliverUnknown, unknown, 0, false)
				}
				if tk.must {
					deliver(opDeliverFinal, tk.id, tk.req, true)
				} else if (x>>16)%100 >= 85 || !deliver(opDeliverFinal, tk.id, tk.req, false) {
					leftovers[r] = append(leftovers[r], tk) // answered by the coordinator at the end
				}
			}
			for {
				select {
				case tk := <-tokens:
					handle(tk)
				case <-sendersDone:
					for {
						select {
						case tk := <-tokens:
							handle(tk)
						default:
							return
						}
					}
				}
			}
		}(ridx, prs)
	}
	// publish the goroutine -> role table, then open the gate
	st := &tapState{roles: map[int64]*tapGor{}, pct: p.PerturbPct, t0: time.Now()}
	for k := 0; k < nG; k++ {
		r := <-ready
		g := &tapGor{rng: rng.Uint64()}
		if r.idx >= p.S {
			g.role = 1
		}
		gors[r.idx], goids[r.idx] = g, r.id
		st.roles[r.id] = g
	}
	curTap.Store(st)
	close(start)
	go func() { sendersWG.Wait(); close(sendersDone) }()
	done := make(chan struct{})
	go func() { allWG.Wait(); close(done) }()
	select {
	case <-done:
	case <-time.After(concWatchdog):
		res.watchdog = true
		buf := make([]byte, 16<<20)
		dump := string(buf[:runtime.Stack(buf, true)])
		for k := 0; k < nG; k++ {
			if finished[k].Load() {
				continue
			}
			state, stack, blocked := classifyDump(dump, goids[k])
			res.stacks = append(res.stacks, fmt.Sprintf("client %d [%s] blockedInLibrary=%v\n%s", k, state, blocked, stack))
			if blocked {
				res.blocked = true
			}
		}
	}
	curTap.Store(nil)

	// quiescent epilogue by the coordinator (skipped if something is stuck: the handler is not quiescent)
	co := nG
	lg := logs[co]
	if !res.watchdog {
		var rest []token
		for _, l := range leftovers {
			rest = append(rest, l...)
		}
	drain:
		for {
			select {
			case tk := <-tokens:
				rest = append(rest, tk)
			default:
				break drain
			}
		}
		for _, tk := range rest {
			i := lg.begin(co, cIn{Kind: opDeliverFinal, K: tk.id, Req: tk.req}, stamp())
			err := h.Deliver(finalFrame(tk.id, uint8(tk.req)))
			lg.end(i, stamp(), err == nil, 0, err)
		}
		free, managed, unmanaged := h.Snapshot()
		if free+managed != p.N {
			res.direct = append(res.direct, finding{Key: "conc/" + p.Mode + "/I6/conservation-at-quiescence",
				What: fmt.Sprintf("after every accepted request was answered: free=%d managedInFlight=%d unmanagedInFlight=%d, N=%d", free, managed, unmanaged, p.N)})
		}
		okCount := 0
		for k := 1; k <= p.N+1; k++ {
			in, want := cIn{Kind: opSendManaged}, int16(client.ManagedStreamId)
			if p.Mode == "explicit" {
				want = int16(k)
				in = cIn{Kind: opSendExplicit, K: want}
			}
			f := newSendFrame(want)
			i := lg.begin(co, in, stamp())
			_, err := h.Enqueue(f)
			lg.end(i, stamp(), err == nil, f.Header.StreamId, err)
			if err == nil {
				okCount++
			}
			if k <= p.N && err != nil {
				res.direct = append(res.direct, finding{Key: "conc/" + p.Mode + "/I5/refill-refused",
					What: fmt.Sprintf("after every accepted request was answered, send %d of N=%d was refused: %v", k, p.N, err)})
				break
			}
			if k == p.N+1 && err == nil {
				res.direct = append(res.direct, finding{Key: "conc/" + p.Mode + "/I3/accepted-beyond-N",
					What: fmt.Sprintf("send N+1 accepted with id %d while N=%d requests are unanswered", f.Header.StreamId, p.N)})
			}
		}
	}

	// collect the history
	for k, l := range logs {
		l.mu.Lock()
		for _, r := range l.recs {
			r.Client = k
			res.recs = append(res.recs, r)
		}
		l.mu.Unlock()
	}
	sort.SliceStable(res.recs, func(a, b int) bool { return res.recs[a].Call < res.recs[b].Call })
	maxStamp := clock.Load() + 1
	var ops []porcupine.Operation
	type edge struct {
		t    int64
		open int
	}
	var edges []edge
	for _, r := range res.recs {
		in := cIn{K: r.K, Req: r.Req}
		for i, n := range opNames {
			if n == r.Op {
				in.Kind = opKind(i)
			}
		}
		out := cOut{OK: r.OK, ID: r.ID, Err: r.Err}
		ret := r.Ret
		if ret < 0 {
			out.Open, ret = true, maxStamp
			res.open++
		}
		if r.Panic != "" {
			res.direct = append(res.direct, finding{Key: "conc/" + p.Mode + "/panic/" + r.Op, What: fmt.Sprintf("%s(%d) panicked: %s", r.Op, r.K, r.Panic)})
		}
		if in.Kind == opSendManaged || in.Kind == opSendExplicit {
			if out.OK {
				res.accepted++
				if in.Kind == opSendManaged && (out.ID < 1 || int(out.ID) > p.N) {
					res.direct = append(res.direct, finding{Key: "conc/managed/I1/id-out-of-range",
						What: fmt.Sprintf("managed send accepted with id %d, N=%d (-1: request id differs from frame id)", out.ID, p.N)})
				}
			} else if !out.Open {
				res.refused++
			}
		}
		ops = append(ops, porcupine.Operation{ClientId: r.Client, Input: in, Call: r.Call, Output: out, Return: ret})
		edges = append(edges, edge{r.Call, 1}, edge{ret, -1})
	}
	sort.Slice(edges, func(a, b int) bool { return edges[a].t < edges[b].t })
	cur := 0
	for _, e := range edges {
		cur += e.open
		if cur > res.overlap {
			res.overlap = cur
		}
	}
	t0 := time.Now()
	res.verdict = porcupine.CheckOperationsTimeout(concModel(p.N, p.Mode == "mixed"), ops, porcupineTimeout)
	res.checkTime = time.Since(t0)
	if res.verdict == porcupine.Illegal {
		res.witness = directWitness(res.recs, p.N)
	}

	// event-order signature: the sequence of (role, message class) over all harness goroutines
	var evs []tapEvent
	for _, g := range gors {
		if g != nil {
			evs = append(evs, g.events...)
			res.delays += g.delays
		}
	}
	sort.SliceStable(evs, func(a, b int) bool { return evs[a].t < evs[b].t })
	hs := fnv.New64a()
	fmt.Fprintf(hs, "%s|%d|%d|%d|", p.Mode, p.N, p.S, p.R)
	for _, e := range evs {
		hs.Write([]byte{e.role<<4 | e.class})
	}
	res.sig, res.events = hs.Sum64(), len(evs)
	return p, res
}

// ---------------------------------------------------------------------------------------------
// the worker (child process): histories index = shard, shard+nshards, ...

func concWorker(c *mon.Ctx) {
	if len(c.Args) < 4 {
		c.Fatal("conc-worker: usage: conc-worker <shard> <nshards> <total> [sigfile]")
	}
	shard, _ := strconv.ParseInt(c.Args[1], 10, 64)
	nshards, _ := strconv.ParseInt(c.Args[2], 10, 64)
	total, _ := strconv.ParseInt(c.Args[3], 10, 64)
	sigFile := ""
	if len(c.Args) > 4 {
		sigFile = c.Args[4]
	}
	installTap()
	sigs := map[uint64]struct{}{}
	shapes := map[string]struct{}{}
	watchdogs := 0
	for i := shard; i < total; i += nshards {
		p, res := runConcHistory(c.Seed, i)
		concFold(c, i, p, res)
		sigs[res.sig] = struct{}{}
		shapes[fmt.Sprintf("%s|%d|%d|%d", p.Mode, p.N, p.S, p.R)] = struct{}{}
		if res.watchdog {
			if watchdogs++; watchdogs >= 2 {
				c.Inconclusive("conc: worker abandoned after two watchdog firings")
				break
			}
		}
	}
	// the direct ping-pong invariant under the race detector and the delay-injecting hook: 10^4 rounds over all shards
	if per := int(scaled(10000)) / int(nshards); per > 0 && watchdogs < 2 {
		pingPong(c, 1, per, true)
		pingPong(c, 2, per/2+1, true)
		// and the race for the last free id, under the race detector and the hook
		lr := int(scaled(3000)) / int(nshards)
		lastIDRace(c, 1, 8, lr, true)
		lastIDRace(c, 2, 4, lr/2+1, true)
	}
	c.Count("conc_hook_calls_from_library_goroutines", tapLibCalls.Load())
	if sigFile != "" {
		b := make([]byte, 0, 8*len(sigs))
		for s := range sigs {
			b = binary.LittleEndian.AppendUint64(b, s)
		}
		os.WriteFile(sigFile, b, 0o644)
	}
}

func concFold(c *mon.Ctx, index int64, p concPlan, res *concResult) {
	c.Eval(1)
	c.DistinctHash(res.sig)
	mode := p.Mode
	c.Count("conc_histories/"+mode, 1)
	c.Count("conc_operations", int64(len(res.recs)))
	c.Count("conc_sends_accepted", int64(res.accepted))
	c.Count("conc_sends_refused", int64(res.refused))
	c.Count("conc_hook_events", int64(res.events))
	c.Count("conc_injected_delays", int64(res.delays))
	c.Max("max_conc_overlapping_operations", int64(res.overlap))
	if res.overlap >= 2 {
		c.Count("conc_histories_with_overlapping_operations", 1)
	}
	if res.refused > 0 && res.overlap >= 2 {
		c.Count("conc_histories_with_refusal_and_overlap", 1)
	}
	c.Count("conc_porcupine_total_us", res.checkTime.Microseconds())
	c.Max("max_conc_porcupine_us", res.checkTime.Microseconds())
	detail := func(what string) concDetail {
		return concDetail{Part: "conc", Seed: c.Seed, Index: index, Plan: p, What: what, History: res.recs, Stacks: res.stacks,
			Porcupine: string(res.verdict)}
	}
	if c.WantSample() && index < 4 {
		c.Sample(map[string]interface{}{"part": "conc", "index": index, "plan": p, "history": res.recs, "porcupine": string(res.verdict),
			"max_overlap": res.overlap, "hook_events": res.events, "injected_delays": res.delays})
	}
	if res.watchdog {
		if res.blocked {
			c.Violation("conc/"+mode+"/blocked", detail("a call did not return within the watchdog period and its goroutine is parked inside the library"))
		} else {
			c.Inconclusive("conc: watchdog fired, no goroutine parked in the library")
		}
	}
	for _, f := range res.direct {
		c.Violation(f.Key, detail(f.What))
	}
	switch res.verdict {
	case porcupine.Ok:
		c.Count("conc_linearizable/"+mode, 1)
	case porcupine.Illegal:
		c.Violation("conc/"+mode+"/not-linearizable/"+res.witness, detail("no linearization of the recorded history satisfies the sequential specification of the "+mode+"-only mode; direct witness: "+res.witness))
	default:
		c.Inconclusive("conc: porcupine timeout")
	}
}

// ---------------------------------------------------------------------------------------------
// direct invariant: "once a request's final response has arrived its id is assignable again"
//
// N sender goroutines, each strictly serial: send (managed id); hand the id to the responder; read Incoming() until
// it is closed (the final response HAS arrived, on the caller's side); send again at once. A sender has nothing
// outstanding when it sends and the other N-1 senders have at most one request each, so fewer than N requests are
// unanswered: every send must be accepted. The responder answers as fast as it can. No model, no ordering argument.

type pingPongDetail struct {
	Part      string `json:"part"` // "pingpong"
	Seed      int64  `json:"seed"`
	N         int    `json:"N"`
	Rounds    int    `json:"rounds_per_sender"`
	Hook      bool   `json:"log_hook_delays"`
	Refusals  int64  `json:"refused_sends"`
	FirstAt   int64  `json:"first_refusal_in_round"`
	FirstErr  string `json:"first_error"`
	RoundsRun int64  `json:"rounds_run"`
	What      string `json:"what"`
}

func pingPong(c *mon.Ctx, n, rounds int, hook bool) {
	ctx, cancel := context.WithCancel(context.Background())
	defer cancel()
	h := client.VerifNewInFlight(ctx, n, 4, longTimeout)
	ch := make(chan int16, n)
	var refusals, firstAt, ran atomic.Int64
	var firstErr atomic.Value
	var stop atomic.Bool
	firstAt.Store(-1)
	ready := make(chan int64, n+1)
	start := make(chan struct{})
	var wg sync.WaitGroup
	for s := 0; s < n; s++ {
		wg.Add(1)
		go func() {
			defer wg.Done()
			ready <- goid()
			<-start
			for r := 0; r < rounds && !stop.Load(); r++ {
				f := newSendFrame(client.ManagedStreamId)
				req, err := h.Enqueue(f)
				for tries := 0; err != nil; tries++ {
					if tries == 0 {
						refusals.Add(1)
						if firstAt.CompareAndSwap(-1, int64(r)) {
							firstErr.Store(err.Error())
						}
					}
					if tries > 1000000 || stop.Load() {
						stop.Store(true)
						return
					}
					runtime.Gosched()
					f.Header.StreamId = client.ManagedStreamId
					req, err = h.Enqueue(f)
				}
				ch <- f.Header.StreamId
				for range req.Incoming() {
				}
				ran.Add(1)
			}
		}()
	}
	respDone := make(chan struct{})
	go func() {
		defer close(respDone)
		ready <- goid()
		<-start
		for id := range ch {
			h.Deliver(finalFrame(id, 0))
		}
	}()
	if hook {
		st := &tapState{roles: map[int64]*tapGor{}, pct: 15, t0: time.Now()}
		for k := 0; k < n+1; k++ {
			st.roles[<-ready] = &tapGor{rng: uint64(c.Seed)*0x9E3779B97F4A7C15 + uint64(k)}
		}
		curTap.Store(st)
		defer curTap.Store(nil)
	}
	close(start)
	done := make(chan struct{})
	go func() { wg.Wait(); close(ch); <-respDone; close(done) }()
	select {
	case <-done:
	case <-time.After(60 * time.Second): // workload watchdog, never a verdict
		stop.Store(true)
		c.Inconclusive("conc: ping-pong watchdog")
	}
	c.Eval(1)
	c.Count(fmt.Sprintf("conc_pingpong_rounds/N=%d", n), ran.Load())
	c.Count("conc_pingpong_refusals", refusals.Load())
	c.Distinct(fmt.Sprintf("pingpong|%d|%v", n, hook))
	if k := refusals.Load(); k > 0 {
		fe, _ := firstErr.Load().(string)
		c.Violation("conc/managed/refused-after-final-response-received", pingPongDetail{Part: "pingpong", Seed: c.Seed, N: n, Rounds: rounds, Hook: hook,
			Refusals: k, FirstAt: firstAt.Load(), FirstErr: fe, RoundsRun: ran.Load(),
			What: fmt.Sprintf("%d of %d managed sends were refused although the sender had just read its final response from Incoming() "+
				"(channel closed) and the other %d sender(s) have at most one request each: fewer than N=%d requests were unanswered", k, ran.Load(), n-1, n)})
	}
}

// ---------------------------------------------------------------------------------------------
// direct invariant: "when N requests are unanswered a further send is refused with an error rather than blocked",
// aimed at the race for the LAST free id.
//
// N-1 managed requests are outstanding and stay unanswered, so exactly one id is free. k goroutines, released together
// by a barrier, each do ONE managed send. Exactly one must be accepted, the others refused, and ALL must return. The
// accepted request is then answered (one id free again) and the next round starts on the same handler.

type lastIDDetail struct {
	Part     string   `json:"part"` // "lastid"
	Seed     int64    `json:"seed"`
	N        int      `json:"N"`
	K        int      `json:"senders"`
	Rounds   int      `json:"rounds"`
	Hook     bool     `json:"log_hook_delays"`
	Round    int      `json:"failing_round"`
	Accepted []int16  `json:"accepted_ids"`
	Refused  int      `json:"refused"`
	Missing  int      `json:"senders_that_did_not_return"`
	What     string   `json:"what"`
	Stacks   []string `json:"stacks,omitempty"`
}

const lastIDWatchdog = 10 * time.Second // looked at twice: a sender must be parked in the library both times

func lastIDRace(c *mon.Ctx, n, k, rounds int, hook bool) {
	ctx, cancel := context.WithCancel(context.Background())
	defer cancel()
	h := client.VerifNewInFlight(ctx, n, 4, longTimeout)
	for i := 0; i < n-1; i++ {
		if _, err := h.Enqueue(newSendFrame(client.ManagedStreamId)); err != nil {
			c.Inconclusive("conc: last-id race: could not set up N-1 outstanding requests")
			return
		}
	}
	type result struct {
		ok bool
		id int16
	}
	work := make([]chan chan struct{}, k)
	goids := make([]int64, k)
	idle := make(chan int, k)
	results := make(chan result, k)
	quit := make(chan struct{})
	defer close(quit)
	for w := 0; w < k; w++ {
		work[w] = make(chan chan struct{}, 1)
		go func(w int) {
			goids[w] = goid()
			idle <- w
			for {
				var gate chan struct{}
				select {
				case gate = <-work[w]:
				case <-quit:
					return
				}
				idle <- w // armed
				<-gate
				f := newSendFrame(client.ManagedStreamId)
				_, err := h.Enqueue(f)
				results <- result{err == nil, f.Header.StreamId}
			}
		}(w)
	}
	for w := 0; w < k; w++ {
		<-idle
	}
	if hook {
		st := &tapState{roles: map[int64]*tapGor{}, pct: 30, t0: time.Now()}
		for w := 0; w < k; w++ {
			st.roles[goids[w]] = &tapGor{rng: uint64(c.Seed)*0x9E3779B97F4A7C15 + uint64(w)}
		}
		curTap.Store(st)
		defer curTap.Store(nil)
	}
	hb := startHeartbeat()
	defer close(hb.stop)
	det := lastIDDetail{Part: "lastid", Seed: c.Seed, N: n, K: k, Rounds: rounds, Hook: hook}
	done := 0
	defer func() {
		c.Eval(1)
		c.Count(fmt.Sprintf("conc_last_id_race_rounds/N=%d/senders=%d", n, k), int64(done))
		c.Distinct(fmt.Sprintf("lastid|%d|%d|%v", n, k, hook))
	}()
	for r := 0; r < rounds; r++ {
		gate := make(chan struct{})
		for w := 0; w < k; w++ {
			work[w] <- gate
		}
		for w := 0; w < k; w++ {
			<-idle
		}
		close(gate) // the barrier opens: k managed sends race for one id
		var acc []int16
		refused, got := 0, 0
		mark := hb.n.Load()
		collect := func(d time.Duration) {
			t := time.NewTimer(d)
			defer t.Stop()
			for got < k {
				select {
				case res := <-results:
					got++
					if res.ok {
						acc = append(acc, res.id)
					} else {
						refused++
					}
				case <-t.C:
					return
				}
			}
		}
		collect(lastIDWatchdog)
		if got < k {
			// somebody has not returned: look twice
			buf := make([]byte, 16<<20)
			dump1 := string(buf[:runtime.Stack(buf, true)])
			collect(lastIDWatchdog)
			if got < k {
				dump2 := string(buf[:runtime.Stack(buf, true)])
				parked := 0
				var stacks []string
				for w := 0; w < k; w++ {
					_, _, b1 := classifyDump(dump1, goids[w])
					state, stack, b2 := classifyDump(dump2, goids[w])
					if b1 && b2 {
						parked++
						if len(stacks) < 2 {
							stacks = append(stacks, fmt.Sprintf("[%s]\n%s", state, stack))
						}
					}
				}
				det.Round, det.Accepted, det.Refused, det.Missing, det.Stacks = r, acc, refused, k-got, stacks
				if parked > 0 && hb.healthy(mark, 2*lastIDWatchdog) {
					det.What = fmt.Sprintf("round %d: %d of %d managed sends racing for the last free id (N=%d, %d outstanding) did not return: "+
						"parked inside the library at two looks %v apart (accepted %d, refused %d); a send must be refused, not blocked",
						r, k-got, k, n, n-1, lastIDWatchdog, len(acc), refused)
					c.Violation("conc/managed/enqueue/blocked-on-empty-pool", det)
				} else {
					c.Inconclusive("conc: last-id race watchdog (no sender parked in the library, or the box stalled)")
				}
				return // the handler is abandoned: its blocked goroutines never come back
			}
		}
		done++
		switch {
		case len(acc) > 1:
			det.Round, det.Accepted, det.Refused = r, acc, refused
			det.What = fmt.Sprintf("round %d: %d managed sends were accepted (ids %v) with %d requests already unanswered and N=%d", r, len(acc), acc, n-1, n)
			c.Violation("conc/managed/last-id/accepted-beyond-N", det)
		case len(acc) == 0:
			det.Round, det.Accepted, det.Refused = r, acc, refused
			det.What = fmt.Sprintf("round %d: all %d managed sends were refused although only %d of N=%d requests are unanswered and one id is free", r, k, n-1, n)
			c.Violation("conc/managed/last-id/all-refused-with-a-free-id", det)
		}
		for _, id := range acc {
			h.Deliver(finalFrame(id, 0)) // one id is free again
		}
		if len(acc) != 1 {
			return
		}
	}
}
