package main

// Watchdog for calls into the library. A call that does not return is never judged by the clock alone: when the
// watchdog fires, all goroutine stacks are dumped and the verdict is
//   - violation "blocked"  iff the calling goroutine is parked (chan send/receive, select, semacquire, mutex) with a
//     frame of the library's client package on its stack;
//   - inconclusive otherwise (still running / runnable: a slow machine, not a blocked call).

import (
	"bytes"
	"regexp"
	"runtime"
	"strconv"
	"strings"
	"sync"
	"sync/atomic"
	"time"
)

const (
	wdTick      = 250 * time.Millisecond
	wdStuckTick = 80 // 20 s without progress inside one call
)

type wdSlot struct {
	seq  atomic.Uint64
	busy atomic.Int32
	goid int64
	run  atomic.Pointer[seqRun]
	// constructing != 0: the worker is inside client.VerifNewInFlight for that N (no history yet)
	constructing atomic.Int32
}

func (s *wdSlot) enter() { s.seq.Add(1); s.busy.Store(1) }
func (s *wdSlot) leave() { s.busy.Store(0) }

func goid() int64 {
	var buf [64]byte
	n := runtime.Stack(buf[:], false)
	// "goroutine 123 [running]:"
	f := bytes.Fields(buf[:n])
	if len(f) < 2 {
		return -1
	}
	id, err := strconv.ParseInt(string(f[1]), 10, 64)
	if err != nil {
		return -1
	}
	return id
}

type stuckReport struct {
	slot    *wdSlot
	blocked bool   // parked inside the library
	state   string // goroutine state from the dump
	stack   string // the goroutine's stack (trimmed)
}

type watchdog struct {
	mu    sync.Mutex
	slots []*wdSlot
	stop  chan struct{}
	fired chan stuckReport // at most one report; the run is abandoned afterwards
}

func newWatchdog() *watchdog {
	w := &watchdog{stop: make(chan struct{}), fired: make(chan stuckReport, 1)}
	go w.loop()
	return w
}

func (w *watchdog) newSlot() *wdSlot {
	s := &wdSlot{}
	w.mu.Lock()
	w.slots = append(w.slots, s)
	w.mu.Unlock()
	return s
}

func (w *watchdog) close() { close(w.stop) }

func (w *watchdog) loop() {
	last := map[*wdSlot]uint64{}
	stuck := map[*wdSlot]int{}
	t := time.NewTicker(wdTick)
	defer t.Stop()
	for {
		select {
		case <-w.stop:
			return
		case <-t.C:
		}
		w.mu.Lock()
		slots := append([]*wdSlot(nil), w.slots...)
		w.mu.Unlock()
		for _, s := range slots {
			seq := s.seq.Load()
			if s.busy.Load() == 1 && last[s] == seq {
				stuck[s]++
			} else {
				stuck[s] = 0
			}
			last[s] = seq
			if stuck[s] >= wdStuckTick {
				state, stack, blocked := inspectGoroutine(s.goid)
				select {
				case w.fired <- stuckReport{slot: s, blocked: blocked, state: state, stack: stack}:
				default:
				}
				return
			}
		}
	}
}

var goroutineHdr = regexp.MustCompile(`(?m)^goroutine (\d+) \[([^\]]*)\]:$`)

const clientPkg = "github.com/datastax/go-cassandra-native-protocol/client."

// inspectGoroutine dumps all stacks and classifies goroutine id.
func inspectGoroutine(id int64) (state, stack string, blockedInLibrary bool) {
	buf := make([]byte, 64<<20)
	n := runtime.Stack(buf, true)
	return classifyDump(string(buf[:n]), id)
}

func classifyDump(dump string, id int64) (state, stack string, blockedInLibrary bool) {
	locs := goroutineHdr.FindAllStringSubmatchIndex(dump, -1)
	for i, l := range locs {
		gid, _ := strconv.ParseInt(dump[l[2]:l[3]], 10, 64)
		if gid != id {
			continue
		}
		end := len(dump)
		if i+1 < len(locs) {
			end = locs[i+1][0]
		}
		state = dump[l[4]:l[5]]
		stack = strings.TrimSpace(dump[l[0]:end])
		if len(stack) > 4000 {
			stack = stack[:4000] + "…"
		}
		st := state
		if j := strings.IndexByte(st, ','); j >= 0 {
			st = st[:j] // "chan receive, 2 minutes"
		}
		parked := false
		switch st {
		case "chan send", "chan receive", "select", "select (no cases)", "semacquire", "sync.Mutex.Lock", "sync.RWMutex.Lock",
			"sync.RWMutex.RLock", "sync.WaitGroup.Wait", "sync.Cond.Wait", "chan send (nil chan)", "chan receive (nil chan)", "IO wait":
			parked = true
		}
		return state, stack, parked && strings.Contains(stack, clientPkg)
	}
	return "not found", "", false
}
