package main

// Drivers of monitor 1: exhaustive enumeration for N in {1,2,3}, PRNG histories for N up to 32767, shrinking and
// reporting of findings, replay.

import (
	"fmt"
	"hash/fnv"
	"math"
	"runtime"
	"sync"
	"sync/atomic"
	"time"

	"verif/internal/mon"
)

type seqDetail struct {
	Part       string   `json:"part"`   // "seq"
	Source     string   `json:"source"` // enum | prng | replay
	N          int      `json:"N"`
	MaxPending int      `json:"maxPending"`
	Seed       int64    `json:"seed"`
	Index      int64    `json:"index"`
	Depth      int      `json:"depth,omitempty"`
	OrigLen    int      `json:"original_length"`
	Shrunk     bool     `json:"shrunk"`
	FullEpi    bool     `json:"full_epilogue"`
	What       string   `json:"what"`
	At         int      `json:"observed_after_op"`
	Ops        []opRec  `json:"ops"` // the (shrunk) history and the epilogue, with the results observed on re-execution
	AllKeys    []string `json:"all_keys_in_this_history"`
	Stack      string   `json:"stack,omitempty"`
}

type seqDriver struct {
	c         *mon.Ctx
	wd        *watchdog
	seen      sync.Map // violation key -> struct{}: first occurrence carries the detail
	aborted   atomic.Bool
	heavy     chan struct{} // limits concurrent N=32767 bulk histories (memory)
	skipN     map[int]bool  // sizes whose construction never returned (boundary phase); read-only afterwards
	abortCh   chan struct{}
	abortOnce sync.Once
	mu        sync.Mutex
	total     *seqStats
}

func newSeqDriver(c *mon.Ctx) *seqDriver {
	return &seqDriver{c: c, wd: newWatchdog(), heavy: make(chan struct{}, 3), total: newSeqStats(), skipN: map[int]bool{}, abortCh: make(chan struct{})}
}

type seqWorker struct {
	st   *seqStats
	slot *wdSlot
}

// parallel runs f over [0,total) in chunks on GOMAXPROCS workers. It returns false if the watchdog fired (the run
// is abandoned: a goroutine is stuck inside the library).
func (d *seqDriver) parallel(total, chunk int64, f func(w *seqWorker, i int64)) bool {
	if d.aborted.Load() {
		return false
	}
	workers := runtime.GOMAXPROCS(0)
	var next int64
	var wg sync.WaitGroup
	ws := make([]*seqWorker, workers)
	for k := range ws {
		ws[k] = &seqWorker{st: newSeqStats(), slot: d.wd.newSlot()}
	}
	for k := 0; k < workers; k++ {
		wg.Add(1)
		go func(w *seqWorker) {
			defer wg.Done()
			w.slot.goid = goid()
			for !d.aborted.Load() {
				lo := atomic.AddInt64(&next, chunk) - chunk
				if lo >= total {
					return
				}
				hi := lo + chunk
				if hi > total {
					hi = total
				}
				for i := lo; i < hi; i++ {
					f(w, i)
				}
			}
		}(ws[k])
	}
	done := make(chan struct{})
	go func() { wg.Wait(); close(done) }()
	select {
	case <-done:
		for _, w := range ws {
			d.fold(w.st)
		}
		return true
	case rep := <-d.wd.fired:
		d.aborted.Store(true)
		d.reportStuck(rep)
		d.abortOnce.Do(func() { close(d.abortCh) })
		return false
	case <-d.abortCh: // a concurrent parallel() (boundary phase / enumeration) took the watchdog report
		return false
	}
}

func (d *seqDriver) reportStuck(rep stuckReport) {
	if n := rep.slot.constructing.Load(); n != 0 {
		if rep.blocked {
			d.c.Violation(fmt.Sprintf("seq/construct/N=%d/never-returns", n), seqDetail{Part: "boundary", Source: "watchdog", N: int(n), Seed: d.c.Seed,
				What:  fmt.Sprintf("client.VerifNewInFlight(maxInFlight=%d) did not return within the watchdog period; the goroutine is parked [%s] inside the library", n, rep.state),
				Stack: rep.stack})
		} else {
			d.c.Inconclusive("seq: watchdog fired during construction, goroutine state [" + rep.state + "] not parked in the library")
		}
		return
	}
	r := rep.slot.run.Load()
	if r == nil {
		d.c.Inconclusive("seq: watchdog fired outside a history")
		return
	}
	ops := append([]op(nil), r.ops...)
	last := op{}
	if len(ops) > 0 {
		last = ops[len(ops)-1]
	}
	if !rep.blocked {
		d.c.Inconclusive("seq: watchdog fired, goroutine state [" + rep.state + "] not parked in the library")
		return
	}
	recs := make([]opRec, 0, len(ops))
	for _, o := range tail(ops, 200) {
		recs = append(recs, opRec{Op: o.Kind.String(), K: o.K, V: o.V})
	}
	d.c.Violation("seq/blocked/"+last.Kind.String(), seqDetail{
		Part: "seq", Source: "watchdog", N: r.cfg.N, MaxPending: r.cfg.MaxPending, Seed: d.c.Seed, OrigLen: len(ops),
		What: fmt.Sprintf("%v did not return within the watchdog period; the calling goroutine is parked [%s] inside the library", last, rep.state),
		At:   len(ops), Ops: recs, Stack: rep.stack,
	})
}

func tail(ops []op, n int) []op {
	if len(ops) > n {
		return ops[len(ops)-n:]
	}
	return ops
}

func (d *seqDriver) fold(s *seqStats) {
	d.mu.Lock()
	defer d.mu.Unlock()
	t := d.total
	for k := range s.ops {
		for o := range s.ops[k] {
			t.ops[k][o] += s.ops[k][o]
		}
	}
	t.histories += s.histories
	if s.maxUnans > t.maxUnans {
		t.maxUnans = s.maxUnans
	}
	t.fullRefusals += s.fullRefusals
	t.reuse += s.reuse
	t.explicitDup += s.explicitDup
	t.mixedRefused += s.mixedRefused
	t.explRefused += s.explRefused
	t.overflow += s.overflow
	t.snapshots += s.snapshots
	t.epilogues += s.epilogues
	t.refillOK += s.refillOK
	t.postClose += s.postClose
	t.skipped += s.skipped
	t.prngOps += s.prngOps
	if s.prngMaxLen > t.prngMaxLen {
		t.prngMaxLen = s.prngMaxLen
	}
	for k, v := range s.cycles {
		t.cycles[k] += v
	}
	for k, v := range s.wallByN {
		t.wallByN[k] += v
	}
	for k, v := range s.deliverErr {
		t.deliverErr[k] += v
	}
	for k, v := range s.sendErr {
		t.sendErr[k] += v
	}
	for k := range s.distinct {
		t.distinct[k] = struct{}{}
	}
	for k, v := range s.viol {
		t.viol[k] += v
	}
}

// publish writes the statistics of the sequential monitor into the evidence.
func (d *seqDriver) publish() {
	c, t := d.c, d.total
	outcomes := [4]string{"accepted", "refused", "delivered", "delivery-error"}
	for k := range t.ops {
		for o, n := range t.ops[k] {
			if n > 0 {
				name := outcomes[o]
				if opKind(k) == opClose {
					name = "done"
				}
				c.Count("seq_ops/"+opKind(k).String()+"/"+name, n)
			}
		}
	}
	c.Count("seq_histories", t.histories)
	c.Max("max_seq_unanswered", t.maxUnans)
	c.Count("seq_I3_refused_at_N", t.fullRefusals)
	c.Count("seq_recycled_managed_ids", t.reuse)
	c.Count("seq_I4_duplicate_explicit_refused", t.explicitDup)
	c.Count("seq_mixed_managed_refused_below_N(not_judged)", t.mixedRefused)
	c.Count("seq_explicit_refused_below_N_without_duplicate(not_judged)", t.explRefused)
	c.Count("seq_pending_overflow", t.overflow)
	c.Count("seq_I6_snapshots", t.snapshots)
	c.Count("seq_I5_epilogues", t.epilogues)
	c.Count("seq_I5_refill_of_N_succeeded_and_N+1_refused", t.refillOK)
	c.Count("seq_sends_refused_after_close", t.postClose)
	if t.skipped > 0 {
		c.Count("seq_prng_histories_skipped(handler_cannot_be_constructed)", t.skipped)
	}
	c.Count("seq_prng_operations", t.prngOps)
	c.Max("max_seq_prng_history_length", t.prngMaxLen)
	for k, v := range t.cycles {
		c.Count(fmt.Sprintf("seq_prng_fill_drain_refill_cycles/N=%d", k), v)
	}
	for k, v := range t.wallByN {
		c.Count(fmt.Sprintf("seq_prng_worker_ms/N=%d(information)", k), v/1e6)
	}
	for k, v := range t.sendErr {
		c.Count("seq_send_refusal/"+k, v)
	}
	for k, v := range t.deliverErr {
		c.Count("seq_deliver_error/"+k, v)
	}
	for k := range t.distinct {
		c.DistinctHash(k)
	}
	for k, n := range t.viol {
		for i := int64(0); i < n; i++ {
			c.Violation(k, nil)
		}
	}
	if !d.aborted.Load() {
		if t.fullRefusals == 0 {
			c.Inconclusive("seq: no send was ever attempted with N requests unanswered")
		}
		if t.reuse == 0 {
			c.Inconclusive("seq: no managed id was ever recycled")
		}
		if t.refillOK == 0 {
			c.Inconclusive("seq: the refill of I5 never succeeded")
		}
	}
}

// ---------------------------------------------------------------------------------------------
// running one history and reporting what it showed

type histMeta struct {
	source  string
	index   int64
	depth   int
	fullEpi bool
}

// conclude runs the epilogue, records signature / findings and releases the history.
func (d *seqDriver) conclude(w *seqWorker, r *seqRun, m histMeta) {
	histLen := len(r.ops)
	r.epilogue(m.fullEpi)
	r.finish()
	// let the request-timer goroutines of this history see the cancellation and exit now: their stacks and
	// contexts are then reused by the next history instead of piling up until the next preemption
	runtime.Gosched()
	d.c.Eval(1)
	if r.trans != 0 {
		h := fnv.New64a()
		fmt.Fprintf(h, "seq|%d|%v|%x|%v|%v", r.cfg.N, r.cfg.MaxPending == 1, r.trans, r.closed, r.mixed)
		w.st.distinct[h.Sum64()] = struct{}{}
	}
	if len(r.findings) == 0 {
		return
	}
	d.reportFindings(w.st, r, histLen, m)
}

func (d *seqDriver) reportFindings(st *seqStats, r *seqRun, histLen int, m histMeta) {
	var keys []string
	seenHere := map[string]bool{}
	for _, f := range r.findings {
		if !seenHere[f.Key] {
			seenHere[f.Key] = true
			keys = append(keys, f.Key)
		}
	}
	for _, f := range r.findings {
		if !seenHere[f.Key] {
			continue
		}
		seenHere[f.Key] = false // once per history
		if _, dup := d.seen.LoadOrStore(f.Key, struct{}{}); dup {
			if st != nil {
				st.viol[f.Key]++
			} else {
				d.c.Violation(f.Key, nil)
			}
			continue
		}
		hist := append([]op(nil), r.ops[:histLen]...)
		if f.At < len(hist) {
			hist = hist[:f.At]
		}
		det := seqDetail{
			Part: "seq", Source: m.source, N: r.cfg.N, MaxPending: r.cfg.MaxPending, Seed: d.c.Seed, Index: m.index,
			Depth: m.depth, OrigLen: histLen, FullEpi: m.fullEpi, AllKeys: keys,
		}
		small := d.shrink(r.cfg, hist, f.Key, m.fullEpi)
		det.Shrunk = len(small) < histLen
		rr, ok := d.rerun(r.cfg, small, m.fullEpi, true)
		det.What, det.At = f.What, f.At
		if ok != nil {
			for _, g := range ok {
				if g.Key == f.Key {
					det.What, det.At = g.What, g.At
					break
				}
			}
		}
		det.Ops = rr
		if len(det.Ops) > 400 {
			det.Ops = det.Ops[len(det.Ops)-400:]
		}
		d.c.Violation(f.Key, det)
	}
}

// rerun executes a fixed operation list on a fresh handler (no watchdog slot: only used on histories that have
// already terminated once) and returns the recorded results and the findings.
func (d *seqDriver) rerun(cfg seqCfg, ops []op, fullEpi, record bool) ([]opRec, []finding) {
	cfg.Record = record
	st := newSeqStats()
	r := newSeqRun(cfg, st, nil)
	defer r.finish()
	for _, o := range ops {
		r.apply(o)
	}
	r.epilogue(fullEpi)
	return r.recs, r.findings
}

func (d *seqDriver) reproduces(cfg seqCfg, ops []op, key string, fullEpi bool) bool {
	_, fs := d.rerun(cfg, ops, fullEpi, false)
	for _, f := range fs {
		if f.Key == key {
			return true
		}
	}
	return false
}

// shrink: delta debugging on the operation list, keeping the same violation key.
func (d *seqDriver) shrink(cfg seqCfg, ops []op, key string, fullEpi bool) []op {
	if len(ops) > 20000 || (cfg.N > snapAllBelow && len(ops) > 2000) {
		return ops
	}
	budget := 500
	if cfg.N > snapAllBelow {
		budget = 40
	}
	if !d.reproduces(cfg, ops, key, fullEpi) {
		return ops // not a function of the operation list alone: keep everything
	}
	n := 2
	for len(ops) >= 1 && budget > 0 {
		chunk := (len(ops) + n - 1) / n
		reduced := false
		for start := 0; start < len(ops) && budget > 0; start += chunk {
			end := start + chunk
			if end > len(ops) {
				end = len(ops)
			}
			cand := append(append([]op(nil), ops[:start]...), ops[end:]...)
			budget--
			if d.reproduces(cfg, cand, key, fullEpi) {
				ops = cand
				if n > 2 {
					n--
				}
				reduced = true
				break
			}
		}
		if !reduced {
			if chunk <= 1 {
				break
			}
			n *= 2
			if n > len(ops) {
				n = len(ops)
			}
		}
	}
	return ops
}

// ---------------------------------------------------------------------------------------------
// exhaustive enumeration

func enumAlphabet(n int) []op {
	ids := []int16{}
	for k := 1; k <= n; k++ {
		ids = append(ids, int16(k))
	}
	ids = append(ids, int16(n+1), 100)
	a := []op{{Kind: opSendManaged}}
	for _, k := range ids {
		a = append(a, op{Kind: opSendExplicit, K: k})
	}
	for _, k := range ids {
		a = append(a, op{Kind: opDeliverFinal, K: k})
	}
	for _, k := range ids {
		a = append(a, op{Kind: opDeliverPage, K: k})
	}
	a = append(a, op{Kind: opDeliverUnknown, K: unknownIDFor(n)}, op{Kind: opClose, K: 0})
	return a
}

// enumerate runs ALL histories of exactly the given depth over the alphabet of N (sample == 0), or `sample`
// histories drawn uniformly from that set (index = PRNG(seed, N, depth, i) mod |alphabet|^depth).
func (d *seqDriver) enumerate(n, maxPending, depth int, sample int64) bool {
	alpha := enumAlphabet(n)
	a := int64(len(alpha))
	total := int64(1)
	for i := 0; i < depth; i++ {
		total *= a
	}
	cfg := seqCfg{N: n, MaxPending: maxPending}
	count, source := total, "enum"
	if sample > 0 && sample < total {
		count, source = sample, "enum-sampled"
	} else {
		sample = 0
	}
	ok := d.parallel(count, 512, func(w *seqWorker, i int64) {
		d.guarded(w, source, n, func() {
			idx := i
			if sample > 0 {
				idx = int64(mon.NewRand(d.c.Seed, uint64(i)+uint64(n)<<40+uint64(depth)<<48).Uint64() % uint64(total))
			}
			r := newSeqRun(cfg, w.st, w.slot)
			x := idx
			for k := 0; k < depth; k++ {
				o := alpha[x%a]
				o.V = uint8(int(idx%8) + k + int(o.K)) // the kind of response frame varies with history, position and id
				r.apply(o)
				x /= a
			}
			d.conclude(w, r, histMeta{source: source, index: idx, depth: depth, fullEpi: true})
		})
	})
	if ok {
		what := "all"
		if sample > 0 {
			what = fmt.Sprintf("sampled_of_%d", total)
		}
		d.c.Count(fmt.Sprintf("seq_enum_histories/N=%d/maxPending=%d/depth=%d/%s", n, maxPending, depth, what), count)
	}
	return ok
}

// ---------------------------------------------------------------------------------------------
// PRNG histories

var prngNs = []int{1, 2, 7, 128, 1024, 32767}

type prngPlan struct {
	N, MaxPending int
	Mode          int // 0 managed only, 1 mixed, 2 mostly explicit
	L             int // number of operations of the random phase
	Cycle         bool
	FullEpi       bool
}

const prngMaxLen = 10000

var hugeCyclePerMille = 5 // quick; 1 in the thorough tier (set by runSeq)

// How often each N of prngNs is drawn (per mille). A history at N=1024 / 32767 costs 10-100 times one at N<=128
// (handler construction, Snapshot and the I5 refill are all O(N)), so the large ones are rarer; thorough tier
// weights are set by runSeq.
var prngWeights = []int{210, 210, 260, 200, 100, 20}

func planPRNG(seed int64, i int64) (prngPlan, *mon.Rand) {
	rng := mon.NewRand(seed, uint64(i)+(1<<32))
	p := prngPlan{}
	if i < int64(len(prngNs))-1 {
		p.N = prngNs[i] // the first history of every N is a full fill / drain / refill cycle (N=32767: boundary phase)
	} else {
		x := rng.Intn(1000)
		for k, w := range prngWeights {
			if x < w || k == len(prngWeights)-1 {
				p.N = prngNs[k]
				break
			}
			x -= w
		}
	}
	if rng.Intn(100) < 12 {
		p.MaxPending = 1
	} else {
		p.MaxPending = 2 + rng.Intn(15)
	}
	switch x := rng.Intn(100); {
	case x < 40:
		p.Mode = 0
	case x < 82:
		p.Mode = 1
	default:
		p.Mode = 2
	}
	// log-uniform length in [1, 10^4]; every 97th history has the full length
	u := float64(rng.Intn(1<<20)) / float64(1<<20)
	p.L = int(math.Exp(u * u * math.Log(prngMaxLen))) // median 10, mean ~550, max 10^4
	if i%97 == 96 {
		p.L = prngMaxLen
	}
	if p.L > prngMaxLen {
		p.L = prngMaxLen
	}
	cyc := 300 // per mille
	switch {
	case p.N > snapAllBelow:
		cyc = hugeCyclePerMille // a cycle at N=32767 is ~10^5 accepted sends, each with its own goroutine and timer
	case p.N > 128:
		cyc = 100
	}
	p.Cycle = rng.Intn(1000) < cyc || i < int64(len(prngNs))-1 // the first history of every N is a full cycle
	switch {
	case p.N <= 128 || p.Cycle:
		p.FullEpi = true
	case p.N <= snapAllBelow:
		p.FullEpi = rng.Intn(4) == 0
	default:
		p.FullEpi = false // at N=32767 the refill of I5 is run in the cycle histories only (~10^5 sends each)
	}
	if p.N > snapAllBelow && p.L > 300 {
		// Snapshot walks the whole bucket array of a map sized for N (~0.15 ms at N=32767) and is taken after
		// every operation of the random phase: keep that phase short; the bulk phases carry the long part
		p.L = 300
	}
	return p, rng
}

type prngGen struct {
	r    *seqRun
	rng  *mon.Rand
	p    prngPlan
	left int
}

func (g *prngGen) randUnanswered() (int16, bool) {
	if len(g.r.order) == 0 {
		return 0, false
	}
	return g.r.order[g.rng.Intn(len(g.r.order))], true
}

func (g *prngGen) explicitID() int16 {
	if id := g.explicitID0(); id != 0 {
		return id
	}
	return 1 // 0 means "managed"; it can only come up here if the library handed out id 0 before
}

func (g *prngGen) explicitID0() int16 {
	n := g.p.N
	switch y := g.rng.Intn(100); {
	case y < 40:
		return int16(1 + g.rng.Intn(n))
	case y < 65:
		if id, ok := g.randUnanswered(); ok {
			return id
		}
		return int16(1 + g.rng.Intn(n))
	case y < 80 && n < math.MaxInt16:
		return int16(n + 1)
	}
	return 100
}

func (g *prngGen) randomOp(sendShare int, mode int) op {
	o := g.randomOp0(sendShare, mode)
	o.V = uint8(g.rng.Intn(nFinalVariants))
	return o
}

func (g *prngGen) randomOp0(sendShare int, mode int) op {
	rng, n := g.rng, g.p.N
	if rng.Intn(1000) < sendShare {
		explicit := false
		switch mode {
		case 1:
			explicit = rng.Bool()
		case 2:
			explicit = rng.Intn(10) != 0
		}
		if explicit {
			return op{Kind: opSendExplicit, K: g.explicitID()}
		}
		return op{Kind: opSendManaged, K: 0}
	}
	y := rng.Intn(100)
	if id, ok := g.randUnanswered(); ok {
		if y < 62 {
			return op{Kind: opDeliverFinal, K: id}
		}
		if y < 78 {
			return op{Kind: opDeliverPage, K: id}
		}
	}
	other := int16(100)
	if n < math.MaxInt16 && rng.Bool() {
		other = int16(n + 1)
	}
	switch {
	case y < 86:
		return op{Kind: opDeliverFinal, K: int16(1 + rng.Intn(n))}
	case y < 90:
		return op{Kind: opDeliverPage, K: int16(1 + rng.Intn(n))}
	case y < 92:
		return op{Kind: opDeliverFinal, K: other}
	case y < 94:
		return op{Kind: opDeliverPage, K: other}
	}
	return op{Kind: opDeliverUnknown, K: unknownIDFor(n)}
}

// fill: managed sends until N are unanswered (or three refusals in a row, or the budget ends)
func (g *prngGen) fill(limit int) {
	g.r.phase = "fill"
	refusals := 0
	for k := 0; k < limit && len(g.r.order) < g.p.N && refusals < 3; k++ {
		g.r.apply(op{Kind: opSendManaged, K: 0})
		if g.r.lastOK {
			refusals = 0
		} else {
			refusals++
		}
	}
}

// probe: operations at a full table that must all be refused / be no-ops
func (g *prngGen) probe(mode int) {
	g.r.phase = "probe"
	g.r.apply(op{Kind: opSendManaged, K: 0})
	if mode != 0 {
		g.r.apply(op{Kind: opSendExplicit, K: 100})
		if id, ok := g.randUnanswered(); ok {
			g.r.apply(op{Kind: opSendExplicit, K: id})
		}
	}
	if id, ok := g.randUnanswered(); ok {
		g.r.apply(op{Kind: opDeliverPage, K: id})
	}
	g.r.apply(op{Kind: opDeliverUnknown, K: unknownIDFor(g.p.N)})
	g.r.apply(op{Kind: opSendManaged, K: 0})
}

// drain: a final frame for every unanswered request, in random order
func (g *prngGen) drain(limit int) {
	g.r.phase = "drain"
	for k := 0; k < limit && len(g.r.order) > 0; k++ {
		id, _ := g.randUnanswered()
		g.r.apply(op{Kind: opDeliverFinal, K: id, V: uint8(g.rng.Intn(nFinalVariants))})
	}
}

func (g *prngGen) run() {
	p, r, rng := g.p, g.r, g.rng
	if p.Cycle {
		mode := p.Mode
		if p.N > snapAllBelow {
			mode = 0 // see snapAllBelow: keep the bulk phases attributable
		}
		if mode != 0 {
			// a few caller-chosen ids first, inside and outside 1..N
			r.phase = "explicit-prefix"
			for k, e := 0, rng.Intn(4); k < e; k++ {
				r.apply(op{Kind: opSendExplicit, K: g.explicitID()})
			}
		}
		g.fill(p.N + 8)
		g.probe(mode)
		g.drain(p.N + 8)
		g.fill(p.N + 8)
		g.probe(mode)
		if rng.Bool() {
			g.drain(p.N + 8)
		}
	}
	r.phase = "random"
	share := 300 + 200*rng.Intn(3)
	closeAt := -1
	if rng.Intn(4) == 0 {
		closeAt = rng.Intn(p.L + 1)
	}
	afterClose := 0
	for k := 0; k < p.L; k++ {
		if r.closed {
			if afterClose++; afterClose > 8 {
				break
			}
		}
		if k == closeAt {
			r.apply(op{Kind: opClose, K: 0})
			continue
		}
		if k%64 == 63 && rng.Intn(4) == 0 {
			share = 300 + 200*rng.Intn(3)
		}
		s := share
		if p.N > snapAllBelow && len(r.order) > 900 {
			s = 120 // keep the table small enough for a Snapshot after every operation
		}
		if !r.closed && p.N <= snapAllBelow {
			switch rng.Intn(2000) {
			case 0:
				g.fill(min(p.N+8, 2000))
				r.phase = "random"
				continue
			case 1:
				g.drain(2000)
				r.phase = "random"
				continue
			}
		}
		r.apply(g.randomOp(s, p.Mode))
	}
}

func (d *seqDriver) prng(count int64) bool {
	return d.parallel(count, 1, func(w *seqWorker, i int64) {
		p, rng := planPRNG(d.c.Seed, i)
		if d.skipN[p.N] {
			w.st.skipped++ // the boundary phase found that a handler of this size cannot be constructed
			return
		}
		if p.N > snapAllBelow && p.Cycle {
			d.heavy <- struct{}{}
			defer func() { <-d.heavy }()
		}
		t0 := time.Now()
		defer func() { w.st.wallByN[p.N] += int64(time.Since(t0)) }()
		d.guarded(w, "prng", p.N, func() {
			r := newSeqRun(seqCfg{N: p.N, MaxPending: p.MaxPending}, w.st, w.slot)
			g := &prngGen{r: r, rng: rng, p: p}
			g.run()
			w.st.prngOps += int64(len(r.ops))
			if n := int64(len(r.ops)); n > w.st.prngMaxLen {
				w.st.prngMaxLen = n
			}
			if p.Cycle {
				w.st.cycles[p.N]++
			}
			d.conclude(w, r, histMeta{source: "prng", index: i, fullEpi: p.FullEpi})
		})
	})
}

// guarded wraps a history so that a panic inside the library becomes a violation, not a crash of the harness.
func (d *seqDriver) guarded(w *seqWorker, what string, n int, f func()) {
	defer func() {
		if rec := recover(); rec != nil {
			r := w.slot.run.Load()
			var ops []op
			cfg := seqCfg{N: n}
			if r != nil {
				ops, cfg = r.ops, r.cfg
				r.finish()
			}
			last := op{}
			if len(ops) > 0 {
				last = ops[len(ops)-1]
			}
			buf := make([]byte, 8192)
			buf = buf[:runtime.Stack(buf, false)]
			recs := []opRec{}
			for _, o := range tail(ops, 200) {
				recs = append(recs, opRec{Op: o.Kind.String(), K: o.K, V: o.V})
			}
			d.c.Violation("seq/panic/"+last.Kind.String(), seqDetail{
				Part: "seq", Source: what, N: cfg.N, MaxPending: cfg.MaxPending, Seed: d.c.Seed, OrigLen: len(ops),
				What: fmt.Sprintf("panic in %v: %v", last, rec), At: len(ops), Ops: recs, Stack: string(buf),
			})
		}
	}()
	f()
}

// samples writes a few actual histories, with the results observed, into the evidence.
func (d *seqDriver) samples() {
	if d.aborted.Load() {
		return
	}
	for _, i := range []int64{7, 8, 9, 10} {
		if !d.c.WantSample() {
			return
		}
		p, rng := planPRNG(d.c.Seed, i)
		if p.N > 128 {
			continue
		}
		r := newSeqRun(seqCfg{N: p.N, MaxPending: p.MaxPending, Record: true}, newSeqStats(), nil)
		(&prngGen{r: r, rng: rng, p: p}).run()
		n := len(r.ops)
		r.epilogue(p.FullEpi)
		r.finish()
		recs := r.recs
		if len(recs) > 24 {
			recs = recs[:24]
		}
		var keys []string
		for _, f := range r.findings {
			keys = append(keys, f.Key)
		}
		d.c.Sample(map[string]interface{}{"part": "seq", "source": "prng", "index": i, "N": p.N, "maxPending": p.MaxPending, "mode": p.Mode,
			"cycle": p.Cycle, "operations": n, "first_operations": recs, "findings": keys})
	}
}
