package main

// Monitor 1: sequential histories against the real in-flight handler (through the export shim).
//
// The monitor's state is built from OBSERVED RESULTS ONLY: the set of accepted requests that have not yet been
// delivered a final frame. It is not a model of the library: it never predicts which id a managed send gets, nor
// whether a send below capacity succeeds in mixed mode.

import (
	"context"
	"fmt"
	"time"

	"github.com/datastax/go-cassandra-native-protocol/client"
	"github.com/datastax/go-cassandra-native-protocol/frame"
)

const longTimeout = time.Hour // request timers never fire inside a history

// Snapshot (I6) is taken after every operation while at most snapAllBelow requests are unanswered. Above that
// (only reachable for N=32767) Snapshot costs O(unanswered), so it is skipped after "usual" operations (a managed
// send accepted below N, a final frame handed to an unanswered request) and taken after everything else and every
// snapEveryBulk-th usual operation; attribution of a conservation break says so.
const (
	snapAllBelow  = 1100
	snapEveryBulk = 4096
)

type seqCfg struct {
	N          int
	MaxPending int
	Record     bool // keep per-operation results (for details); off in bulk runs
}

type finding struct {
	Key  string
	At   int    // number of operations executed when it was observed
	What string // human-readable description
}

type seqStats struct {
	ops          [nOpKinds][4]int64 // per kind: accepted / refused / ok-delivery / failed-delivery
	histories    int64
	maxUnans     int64
	fullRefusals int64 // sends refused with N unanswered (I3 exercised)
	reuse        int64 // accepted managed id that had been in use earlier in the same history (recycling exercised)
	explicitDup  int64 // explicit id equal to an unanswered id refused (I4 exercised)
	mixedRefused int64 // managed send refused below N in mixed mode (counted, not judged)
	explRefused  int64 // explicit send refused below N without a duplicate (counted, not judged)
	overflow     int64 // deliveries answered "too many pending"
	snapshots    int64
	epilogues    int64
	refillOK     int64 // epilogues in which N managed sends succeeded and one more was refused
	postClose    int64 // sends refused after close
	skipped      int64
	prngOps      int64
	prngMaxLen   int64
	cycles       map[int]int64 // fill / drain / refill cycles per N
	wallByN      map[int]int64 // ns spent by workers on PRNG histories of each N (information only)
	deliverErr   map[string]int64
	sendErr      map[string]int64
	distinct     map[uint64]struct{}
	viol         map[string]int64 // occurrences per key beyond the first reported one
}

func newSeqStats() *seqStats {
	return &seqStats{deliverErr: map[string]int64{}, sendErr: map[string]int64{}, distinct: map[uint64]struct{}{}, viol: map[string]int64{}, cycles: map[int]int64{}, wallByN: map[int]int64{}}
}

type seqRun struct {
	cfg    seqCfg
	h      *client.VerifInFlight
	cancel context.CancelFunc
	sf     *frame.Frame // reused outgoing frame (the shim does not retain it)

	// monitor state, from observed results only
	unans    map[int16]bool // unanswered accepted requests: id -> managed?
	order    []int16        // the same ids, for O(1) random choice
	pos      map[int16]int
	everUsed []bool // managed ids seen so far (index id), for the "recycling exercised" counter
	mixed    bool   // an explicit send has been attempted
	closed   bool
	inEpi    bool

	// conservation tracking
	leaked    int // N - free - managedInFlight at the last snapshot (0 when conservation holds)
	leakAttr  string
	stale     bool // operations ran since the last snapshot
	sinceSnap int

	lastOK      bool
	lastSendErr string

	ops      []op // every operation applied, in order (replay / shrinking)
	recs     []opRec
	findings []finding
	phase    string
	slot     *wdSlot
	stats    *seqStats
	trans    uint64 // bitset of (kind, outcome, fill class) transitions seen in this history
}

func newSeqRun(cfg seqCfg, st *seqStats, slot *wdSlot) *seqRun {
	ctx, cancel := context.WithCancel(context.Background())
	// the construction runs under the same watchdog as every other call into the library
	if slot != nil {
		slot.constructing.Store(int32(cfg.N))
		slot.enter()
	}
	h := client.VerifNewInFlight(ctx, cfg.N, cfg.MaxPending, longTimeout)
	if slot != nil {
		slot.leave()
		slot.constructing.Store(0)
	}
	return newSeqRunOn(cfg, st, slot, h, cancel)
}

// newSeqRunOn starts a history on a handler that has already been constructed.
func newSeqRunOn(cfg seqCfg, st *seqStats, slot *wdSlot, h *client.VerifInFlight, cancel context.CancelFunc) *seqRun {
	r := &seqRun{
		cfg: cfg, cancel: cancel, stats: st, slot: slot,
		h:        h,
		sf:       newSendFrame(0),
		everUsed: make([]bool, cfg.N+1),
	}
	st.histories++
	if slot != nil {
		slot.run.Store(r)
	}
	// I6 holds before anything happens: the pool holds N ids
	r.snapshot("construction", "the construction of the handler")
	return r
}

// finish releases the goroutines of the history (request timers wait on the context).
func (r *seqRun) finish() { r.cancel() }

func (r *seqRun) add(id int16, managed bool) {
	if r.unans == nil {
		r.unans = make(map[int16]bool, 4)
		r.pos = make(map[int16]int, 4)
	}
	r.unans[id] = managed
	r.pos[id] = len(r.order)
	r.order = append(r.order, id)
	if n := int64(len(r.order)); n > r.stats.maxUnans {
		r.stats.maxUnans = n
	}
}

func (r *seqRun) remove(id int16) {
	i := r.pos[id]
	last := r.order[len(r.order)-1]
	r.order[i] = last
	r.pos[last] = i
	r.order = r.order[:len(r.order)-1]
	delete(r.pos, id)
	delete(r.unans, id)
}

func (r *seqRun) isUnanswered(id int16) bool {
	_, ok := r.unans[id]
	return ok
}

func (r *seqRun) fail(key, what string) {
	r.findings = append(r.findings, finding{Key: key, At: len(r.ops), What: what})
}

func (r *seqRun) rec(o op, ok bool, id int16, err error) {
	if !r.cfg.Record {
		return
	}
	rc := opRec{Op: o.Kind.String(), OK: ok, ID: id, Ph: r.phase}
	if o.Kind != opSendManaged && o.Kind != opClose {
		rc.K = o.K
	}
	switch o.Kind {
	case opDeliverFinal, opDeliverUnknown:
		rc.V, rc.Fr = o.V, finalVariants[int(o.V)%len(finalVariants)]
	case opDeliverPage:
		rc.V, rc.Fr = o.V, pageVariants[int(o.V)%len(pageVariants)]
	}
	if err != nil {
		rc.Err = err.Error()
	}
	r.recs = append(r.recs, rc)
}

func (r *seqRun) mark(kind opKind, outcome int) {
	fill := 1
	switch n := len(r.order); {
	case n == 0:
		fill = 0
	case n >= r.cfg.N:
		fill = 2
	}
	bit := (uint(kind)*4+uint(outcome))*3 + uint(fill)
	r.trans |= 1 << (bit % 64)
	r.stats.ops[kind][outcome]++
}

// apply runs one operation against the real handler and evaluates the invariants that can be decided from its
// result, then I6 (see snapAllBelow for when).
func (r *seqRun) apply(o op) {
	big := len(r.order) > snapAllBelow
	usualCandidate := (o.Kind == opSendManaged && len(r.order) < r.cfg.N) || (o.Kind == opDeliverFinal && r.isUnanswered(o.K))
	if big && r.stale && !usualCandidate && !r.closed {
		r.snapshot("bulk-accepted-managed-or-deliverFinal", fmt.Sprintf("the %d accepted managed sends / final deliveries before %v", r.sinceSnap, o))
	}
	r.ops = append(r.ops, o)
	if r.slot != nil {
		r.slot.enter()
	}
	switch o.Kind {
	case opSendManaged, opSendExplicit:
		r.send(o)
	case opDeliverFinal, opDeliverPage, opDeliverUnknown:
		r.deliver(o)
	case opClose:
		r.h.Close()
		r.closed = true
		r.lastOK = true
		// the library fails every request still unanswered; nothing is in flight any more
		r.unans, r.pos, r.order = nil, nil, r.order[:0]
		r.rec(o, true, 0, nil)
		r.mark(opClose, 0)
	}
	if r.slot != nil {
		r.slot.leave()
	}
	if r.closed {
		return
	}
	usual := usualCandidate && r.lastOK
	if !big || !usual || r.sinceSnap >= snapEveryBulk {
		if r.stale {
			r.snapshot("unattributed", fmt.Sprintf("%v or the %d operations before it (Snapshot is sampled above %d unanswered requests)", o, r.sinceSnap, snapAllBelow))
		} else {
			r.snapshot(r.opClass(o), o.String())
		}
	} else {
		r.stale = true
		r.sinceSnap++
	}
}

func (r *seqRun) send(o op) {
	managed := o.Kind == opSendManaged
	want := int16(client.ManagedStreamId)
	if !managed {
		want = o.K
		r.mixed = true
	}
	before := len(r.order)
	r.sf.Header.StreamId = want
	req, err := r.h.Enqueue(r.sf)
	r.lastOK = err == nil
	if err != nil {
		r.rec(o, false, 0, err)
		r.mark(o.Kind, 1)
		r.lastSendErr = errClass(err)
		r.stats.sendErr[r.lastSendErr]++
		if req != nil {
			r.fail("seq/api/request-and-error", fmt.Sprintf("%v returned both a request and an error", o))
		}
		if r.closed {
			r.stats.postClose++
			return // refused after close: demanded
		}
		switch {
		case before >= r.cfg.N:
			r.stats.fullRefusals++ // I3 held
		case r.inEpi:
			// judged by the epilogue (I5)
		case managed && !r.mixed:
			// pure managed mode: fewer than N requests unanswered, every other id has had its final response
			r.fail("seq/recycle/managed-only-refused-below-N/"+r.lastSendErr,
				fmt.Sprintf("managed send refused (%v) with only %d of %d requests unanswered and no caller-chosen id ever used", err, before, r.cfg.N))
		case managed:
			r.stats.mixedRefused++
		default:
			if r.isUnanswered(o.K) {
				r.stats.explicitDup++ // I4 held
			} else {
				r.stats.explRefused++
			}
		}
		return
	}
	// accepted
	if req == nil {
		r.rec(o, true, 0, nil)
		r.fail("seq/api/nil-request", fmt.Sprintf("%v returned neither a request nor an error", o))
		return
	}
	id := r.sf.Header.StreamId
	r.rec(o, true, id, nil)
	r.mark(o.Kind, 0)
	if req.StreamId() != id {
		r.fail("seq/I1/request-id-differs-from-frame-id",
			fmt.Sprintf("%v: InFlightRequest.StreamId()=%d but the frame carries %d", o, req.StreamId(), id))
	}
	if r.closed {
		r.fail("seq/close/send-accepted-after-close", fmt.Sprintf("%v accepted (id %d) after close", o, id))
		return
	}
	if managed {
		if id < 1 || int(id) > r.cfg.N {
			r.fail("seq/I1/managed-id-out-of-range", fmt.Sprintf("managed send accepted with id %d, N=%d", id, r.cfg.N))
		}
	} else if id != o.K {
		r.fail("seq/I1/explicit-id-changed", fmt.Sprintf("%v accepted but the frame now carries id %d", o, id))
	}
	if before >= r.cfg.N {
		r.fail("seq/I3/accepted-beyond-N", fmt.Sprintf("%v accepted (id %d) with %d of %d requests unanswered", o, id, before, r.cfg.N))
	}
	if r.isUnanswered(id) {
		if managed {
			r.fail("seq/I2/duplicate-id", fmt.Sprintf("managed send was given id %d, which an unanswered request carries", id))
		} else {
			r.fail("seq/I4/explicit-duplicate-accepted", fmt.Sprintf("%v accepted although id %d is carried by an unanswered request", o, id))
		}
		return // one entry is kept: the monitor cannot tell the two requests apart any further
	}
	if managed && id >= 1 && int(id) <= r.cfg.N {
		if r.everUsed[id] {
			r.stats.reuse++
		}
		r.everUsed[id] = true
	}
	r.add(id, managed)
}

func (r *seqRun) deliver(o op) {
	var f *frame.Frame
	if o.Kind == opDeliverPage {
		f = pageFrame(o.K, o.V)
	} else {
		f = finalFrame(o.K, o.V)
	}
	err := r.h.Deliver(f)
	r.lastOK = err == nil
	r.rec(o, err == nil, 0, err)
	if err != nil {
		r.mark(o.Kind, 3)
		ec := errClass(err)
		r.stats.deliverErr[ec]++
		if ec == "too-many-pending" {
			r.stats.overflow++
		}
	} else {
		r.mark(o.Kind, 2)
	}
	// A final frame for an unanswered request answers it, whatever Deliver says about handing it over
	// (a request closed by a pending-queue overflow still occupies its id until its final frame arrives).
	if o.Kind != opDeliverPage && r.isUnanswered(o.K) {
		r.remove(o.K)
	}
}

// snapshot checks I6: free + managedInFlight == N. cls attributes a change to the operation(s) since the previous
// snapshot.
func (r *seqRun) snapshot(cls, after string) {
	free, managed, _ := r.h.Snapshot()
	r.stats.snapshots++
	r.stale = false
	r.sinceSnap = 0
	leaked := r.cfg.N - free - managed
	if leaked == r.leaked {
		return
	}
	if leaked > r.leaked {
		if r.leakAttr == "" {
			r.leakAttr = cls
		}
		r.fail("seq/I6/leak-after-"+cls,
			fmt.Sprintf("after %s: free=%d + managedInFlight=%d = %d, N=%d (short by %d before)", after, free, managed, free+managed, r.cfg.N, r.leaked))
	} else if leaked < 0 {
		r.fail("seq/I6/excess-after-"+cls,
			fmt.Sprintf("after %s: free=%d + managedInFlight=%d = %d > N=%d", after, free, managed, free+managed, r.cfg.N))
	}
	r.leaked = leaked
}

// opClass names the operation just applied and its outcome, for attributing a conservation break.
func (r *seqRun) opClass(o op) string {
	switch o.Kind {
	case opSendManaged:
		if r.lastOK {
			return "accepted-managed"
		}
		return "refused-managed/" + r.lastSendErr
	case opSendExplicit:
		if r.lastOK {
			return "accepted-explicit"
		}
		return "refused-explicit/" + r.lastSendErr
	}
	return o.Kind.String()
}

// epilogue is I5 (and the after-close demands). full=false skips the N refill sends (large N, most histories).
func (r *seqRun) epilogue(full bool) {
	r.phase = "epilogue"
	r.inEpi = true
	if r.closed {
		// every later send is refused, nothing panics
		for _, o := range []op{{Kind: opSendManaged}, {Kind: opSendExplicit, K: 1}, {Kind: opSendExplicit, K: 100}, {Kind: opDeliverFinal, K: 1},
			{Kind: opDeliverPage, K: 1}, {Kind: opClose}, {Kind: opSendManaged}} {
			r.apply(o)
		}
		return
	}
	r.stats.epilogues++
	// every unanswered request receives its final frame
	for len(r.order) > 0 {
		r.apply(op{Kind: opDeliverFinal, K: r.order[len(r.order)-1], V: uint8(len(r.ops) % len(finalVariants))})
	}
	if r.stale {
		r.snapshot("bulk-accepted-managed-or-deliverFinal", "the final deliveries of the epilogue")
	}
	if !full {
		return
	}
	// for the attribution of an I5 failure only: is a request that has had its final frame still in the table?
	staleEntries := 0
	if _, m, u := r.h.Snapshot(); r.leakAttr == "" && m+u > 0 {
		staleEntries = m + u
	}
	// then N managed sends succeed with N distinct ids in 1..N (I1, I2 are judged by send)
	for i := 0; i < r.cfg.N; i++ {
		r.apply(op{Kind: opSendManaged})
		if !r.lastOK {
			key := "seq/I5/leak-after-" + r.leakAttr
			extra := ""
			switch {
			case r.leakAttr != "":
			case staleEntries > 0:
				key = "seq/I5/answered-request-still-in-flight"
				extra = fmt.Sprintf("; %d request(s) that received a final frame are still in the in-flight table", staleEntries)
			default:
				key = "seq/I5/leak-after-unattributed"
			}
			r.fail(key, fmt.Sprintf("after every request was answered only %d of N=%d managed sends succeeded; the next was refused: %s%s", i, r.cfg.N, r.lastSendErr, extra))
			return
		}
	}
	// and one more is refused (I3, judged by send)
	r.apply(op{Kind: opSendManaged})
	if !r.lastOK {
		r.stats.refillOK++
	}
}

// ---------------------------------------------------------------------------------------------
// frames for deliveries: immutable, shared (the handler only queues the pointer)

var (
	finalCache [nFinalVariants][128]*frame.Frame
	pageCache  [nPageVariants][128]*frame.Frame
)

func init() {
	for v := range finalCache {
		for i := range finalCache[v] {
			finalCache[v][i] = newFinalFrame(int16(i), uint8(v))
		}
	}
	for v := range pageCache {
		for i := range pageCache[v] {
			pageCache[v][i] = newPageFrame(int16(i), uint8(v))
		}
	}
}

func finalFrame(id int16, v uint8) *frame.Frame {
	v %= uint8(len(finalCache))
	if id >= 0 && int(id) < len(finalCache[v]) {
		return finalCache[v][id]
	}
	return newFinalFrame(id, v)
}

func pageFrame(id int16, v uint8) *frame.Frame {
	v %= uint8(len(pageCache))
	if id >= 0 && int(id) < len(pageCache[v]) {
		return pageCache[v][id]
	}
	return newPageFrame(id, v)
}
