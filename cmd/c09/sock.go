package main

// Monitor 3: a library client (CqlClient.ConnectAndInit / Send / Receive) against a minimal raw TCP peer. The PEER
// is the observer: it records the stream id of every request it reads from the socket and asserts that no two
// requests it has not yet answered carry the same id, and that ids stay in 1..MaxInFlight (<= 127 for v2).

import (
	"context"
	"fmt"
	"net"
	"runtime"
	"sync"
	"sync/atomic"
	"time"

	"github.com/datastax/go-cassandra-native-protocol/client"
	"github.com/datastax/go-cassandra-native-protocol/frame"
	"github.com/datastax/go-cassandra-native-protocol/message"
	"github.com/datastax/go-cassandra-native-protocol/primitive"

	"verif/internal/mon"
)

type sockCfg struct {
	Version   primitive.ProtocolVersion `json:"version"`
	N         int                       `json:"max_in_flight"`
	Senders   int                       `json:"senders"`
	PerSender int                       `json:"requests_per_sender"`
}

type sockDetail struct {
	Part string   `json:"part"` // "sock"
	Seed int64    `json:"seed"`
	Cfg  sockCfg  `json:"config"`
	What string   `json:"what"`
	Tail []string `json:"last_wire_events,omitempty"`
}

type peerReq struct {
	id int16
	op primitive.OpCode
}

type rawPeer struct {
	cfg  sockCfg
	ln   net.Listener
	conn net.Conn
	rng  *mon.Rand

	mu       sync.Mutex
	unans    []peerReq
	inUse    map[int16]bool
	holdAll  bool
	arrivals int64
	findings []finding
	tail     []string // last wire events, for details
	seen     int64
	maxUnans int
	distinct map[int16]bool
	answered int64
	wake     chan struct{}
	stop     chan struct{}
	wg       sync.WaitGroup
	readErr  error
}

func (p *rawPeer) note(s string) {
	p.tail = append(p.tail, s)
	if len(p.tail) > 40 {
		p.tail = p.tail[len(p.tail)-40:]
	}
}

func vname(v primitive.ProtocolVersion) string { return fmt.Sprintf("v%d", int(v)) }

func (p *rawPeer) fail(key, what string) {
	p.findings = append(p.findings, finding{Key: "sock/" + vname(p.cfg.Version) + "/" + key, What: what})
}

func newRawPeer(cfg sockCfg, rng *mon.Rand) (*rawPeer, error) {
	ln, err := net.Listen("tcp", "127.0.0.1:0") // never a fixed port: checks may run side by side
	if err != nil {
		return nil, err
	}
	return &rawPeer{cfg: cfg, ln: ln, rng: rng, inUse: map[int16]bool{}, distinct: map[int16]bool{},
		wake: make(chan struct{}, 1), stop: make(chan struct{})}, nil
}

func (p *rawPeer) serve() {
	p.wg.Add(1)
	go func() {
		defer p.wg.Done()
		conn, err := p.ln.Accept()
		if err != nil {
			p.readErr = err
			return
		}
		p.mu.Lock()
		p.conn = conn
		p.mu.Unlock()
		p.wg.Add(1)
		go p.respond(conn)
		codec := frame.NewCodec()
		for {
			f, err := codec.DecodeFrame(conn)
			if err != nil {
				p.mu.Lock()
				p.readErr = err
				p.mu.Unlock()
				return
			}
			id := f.Header.StreamId
			p.mu.Lock()
			p.seen++
			p.arrivals++
			p.note(fmt.Sprintf("request id=%d op=%v (unanswered before: %d)", id, f.Header.OpCode, len(p.unans)))
			if p.inUse[id] {
				p.fail("duplicate-id-on-wire", fmt.Sprintf("request with stream id %d read from the socket while the peer has not yet answered an earlier request with id %d", id, id))
			}
			limit := p.cfg.N
			if id < 1 || int(id) > limit {
				p.fail("id-out-of-range", fmt.Sprintf("stream id %d on the wire, MaxInFlight=%d", id, p.cfg.N))
			}
			if len(p.unans) >= p.cfg.N {
				p.fail("more-than-N-unanswered-on-wire", fmt.Sprintf("request id %d arrived while %d = MaxInFlight requests are unanswered", id, len(p.unans)))
			}
			p.inUse[id] = true
			p.distinct[id] = true
			p.unans = append(p.unans, peerReq{id, f.Header.OpCode})
			if len(p.unans) > p.maxUnans {
				p.maxUnans = len(p.unans)
			}
			p.mu.Unlock()
			select {
			case p.wake <- struct{}{}:
			default:
			}
		}
	}()
}

// respond answers out of order: it waits until `hold` requests are unanswered (hold is redrawn in 1..N, N half of
// the time, so that the client's id space is exhausted again and again) or until nothing new arrived for a tick,
// then answers a random unanswered request.
func (p *rawPeer) respond(conn net.Conn) {
	defer p.wg.Done()
	codec := frame.NewCodec()
	tick := time.NewTicker(time.Millisecond)
	defer tick.Stop()
	hold := p.cfg.N
	var lastArrivals int64 = -1
	for {
		idle := false
		select {
		case <-p.stop:
			return
		case <-p.wake:
		case <-tick.C:
			p.mu.Lock()
			idle = p.arrivals == lastArrivals
			lastArrivals = p.arrivals
			p.mu.Unlock()
		}
		for {
			p.mu.Lock()
			if p.holdAll || len(p.unans) == 0 || (len(p.unans) < hold && !idle) {
				p.mu.Unlock()
				break
			}
			i := p.rng.Intn(len(p.unans))
			rq := p.unans[i]
			p.unans[i] = p.unans[len(p.unans)-1]
			p.unans = p.unans[:len(p.unans)-1]
			// answered from the peer's point of view BEFORE the bytes leave: the client may reuse the id as soon
			// as it has read them
			delete(p.inUse, rq.id)
			p.answered++
			p.note(fmt.Sprintf("answer  id=%d", rq.id))
			if p.rng.Bool() {
				hold = p.cfg.N
			} else {
				hold = 1 + p.rng.Intn(p.cfg.N)
			}
			p.mu.Unlock()
			idle = false
			var msg message.Message
			switch rq.op {
			case primitive.OpCodeStartup:
				msg = &message.Ready{}
			case primitive.OpCodeOptions:
				msg = &message.Supported{Options: map[string][]string{"CQL_VERSION": {"3.0.0"}}}
			default:
				msg = &message.VoidResult{}
			}
			if rq.op != primitive.OpCodeStartup {
				// any kind of final response must free the id: vary it (never a fatal error code: the client
				// closes the connection on those). A quarter of the requests get a non-final continuous page first.
				if p.rng.Intn(4) == 0 {
					md := &message.RowsMetadata{ContinuousPageNumber: 1}
					if p.rng.Bool() {
						md.PagingState = []byte{0xbe, 0xef}
					}
					page := frame.NewFrame(p.cfg.Version, rq.id, &message.RowsResult{Metadata: md, Data: message.RowSet{}})
					if err := codec.EncodeFrame(page, conn); err != nil {
						return
					}
				}
				switch p.rng.Intn(7) {
				case 0:
					msg = &message.Invalid{ErrorMessage: "c09"}
				case 1:
					msg = &message.VoidResult{}
				case 2:
					msg = &message.Unavailable{ErrorMessage: "c09", Consistency: primitive.ConsistencyLevelOne, Required: 1, Alive: 0}
				case 3:
					msg = &message.RowsResult{Metadata: &message.RowsMetadata{ContinuousPageNumber: 2, LastContinuousPage: true}, Data: message.RowSet{}}
				case 4:
					// the last page of a continuous-paging session that was ended by its page limit: it still has a paging state
					msg = &message.RowsResult{Metadata: &message.RowsMetadata{ContinuousPageNumber: 2, LastContinuousPage: true,
						PagingState: []byte{0xca, 0xfe}}, Data: message.RowSet{}}
				case 5:
					msg = &message.RowsResult{Metadata: &message.RowsMetadata{PagingState: []byte{0xca, 0xfe}}, Data: message.RowSet{}}
				}
			}
			if err := codec.EncodeFrame(frame.NewFrame(p.cfg.Version, rq.id, msg), conn); err != nil {
				return
			}
		}
	}
}

func (p *rawPeer) close() {
	close(p.stop)
	p.ln.Close()
	p.mu.Lock()
	if p.conn != nil {
		p.conn.Close()
	}
	p.mu.Unlock()
	p.wg.Wait()
}

func (p *rawPeer) unansweredCount() int {
	p.mu.Lock()
	defer p.mu.Unlock()
	return len(p.unans)
}

// finalBySpec: every response ends its request except a continuous-paging page (RESULT/Rows with the continuous
// paging flag, i.e. a page number) that is not flagged as the last one. Whether a paging state is present is irrelevant.
func finalBySpec(f *frame.Frame) bool {
	if rows, ok := f.Body.Message.(*message.RowsResult); ok && rows.Metadata != nil && rows.Metadata.ContinuousPageNumber > 0 {
		return rows.Metadata.LastContinuousPage
	}
	return true
}

func runSockCfg(c *mon.Ctx, cfg sockCfg, stream uint64) {
	v := vname(cfg.Version)
	rng := mon.NewRand(c.Seed, stream+(1<<50))
	peer, err := newRawPeer(cfg, rng)
	if err != nil {
		c.Inconclusive("sock: cannot listen on 127.0.0.1:0")
		return
	}
	peer.serve()
	defer peer.close()
	cl := client.NewCqlClient(peer.ln.Addr().String(), nil)
	cl.MaxInFlight = cfg.N
	cl.MaxPending = 4
	cl.ReadTimeout = 5 * time.Minute // request timers never fire
	ctx, cancel := context.WithCancel(context.Background())
	defer cancel()
	conn, err := cl.ConnectAndInit(ctx, cfg.Version, client.ManagedStreamId)
	if err != nil {
		if conn != nil {
			conn.Close()
		}
		c.Inconclusive("sock/" + v + ": handshake with the raw peer failed")
		c.Note("sock %s N=%d: handshake failed: %v", v, cfg.N, err)
		return
	}
	defer conn.Close()

	var accepted, refused, mismatched, recvErr, clientRange, outstanding, starved, pages atomic.Int64
	var stuck, abort atomic.Bool
	var wg sync.WaitGroup
	deadline := time.Now().Add(90 * time.Second) // workload watchdog, never a verdict
	for s := 0; s < cfg.Senders; s++ {
		wg.Add(1)
		go func() {
			defer wg.Done()
			streak, acc0 := 0, int64(0)
			for done := 0; done < cfg.PerSender && !abort.Load(); {
				if time.Now().After(deadline) {
					stuck.Store(true)
					return
				}
				out0 := outstanding.Load()
				req, err := conn.Send(frame.NewFrame(cfg.Version, client.ManagedStreamId, &message.Options{}))
				if err != nil {
					refused.Add(1) // id space exhausted: the refusal the property demands
					// ... unless nothing at all is unanswered: every accepted request has had its response received
					// by its sender, and nobody got a request accepted meanwhile. One such refusal can be a transient
					// (another sender between borrowing an id and being refused); 2000 in a row are not.
					if out0 == 0 && outstanding.Load() == 0 && (streak == 0 || accepted.Load() == acc0) {
						if streak == 0 {
							acc0 = accepted.Load()
						}
						if streak++; streak >= 2000 {
							starved.Add(1)
							abort.Store(true)
							return
						}
					} else {
						streak = 0
					}
					if streak%8 == 1 {
						runtime.Gosched()
					} else {
						time.Sleep(200 * time.Microsecond) // do not spin on an exhausted id space
					}
					continue
				}
				streak = 0
				outstanding.Add(1)
				accepted.Add(1)
				if id := req.StreamId(); id < 1 || int(id) > cfg.N {
					clientRange.Add(1)
				}
				// read until the response that is final BY THE PROTOCOL (not by the library's own classification)
				for {
					resp, err := conn.Receive(req)
					if err != nil || resp == nil {
						recvErr.Add(1)
						break
					}
					if resp.Header.StreamId != req.StreamId() {
						mismatched.Add(1)
					}
					if finalBySpec(resp) {
						break
					}
					pages.Add(1)
				}
				outstanding.Add(-1)
				done++
			}
		}()
	}
	wg.Wait()
	c.Eval(1)
	c.Count("sock_requests_accepted/"+v, accepted.Load())
	c.Count("sock_sends_refused/"+v, refused.Load())
	c.Count("sock_non_final_pages_received/"+v, pages.Load())
	c.Count("sock_response_id_mismatch(C10,not_judged)/"+v, mismatched.Load())
	c.Count("sock_receive_errors(not_judged)/"+v, recvErr.Load())
	if starved.Load() > 0 {
		c.Violation("sock/"+v+"/I5/refused-with-nothing-unanswered", sockDetail{Part: "sock", Seed: c.Seed, Cfg: cfg,
			What: fmt.Sprintf("after %d accepted requests had all been answered and received, 2000 consecutive managed sends of one sender were refused while no request was outstanding and none was accepted", accepted.Load())})
		return
	}
	if stuck.Load() {
		c.Inconclusive("sock/" + v + ": workload watchdog")
		return
	}
	if n := clientRange.Load(); n > 0 {
		c.Violation("sock/"+v+"/client-id-out-of-range", sockDetail{Part: "sock", Seed: c.Seed, Cfg: cfg,
			What: fmt.Sprintf("%d accepted managed requests report a StreamId() outside 1..%d", n, cfg.N)})
	}

	// I5 / I3 on the wire: the peer holds everything, N sends must reach it with N distinct ids, one more is refused
	waitUnanswered := func(n int) bool {
		for t := time.Now(); time.Since(t) < 20*time.Second; time.Sleep(200 * time.Microsecond) {
			if peer.unansweredCount() == n {
				return true
			}
		}
		return false
	}
	if !waitUnanswered(0) {
		c.Inconclusive("sock/" + v + ": peer did not drain")
		return
	}
	peer.mu.Lock()
	peer.holdAll = true
	peer.mu.Unlock()
	var reqs []client.InFlightRequest
	refillOK := true
	for k := 0; k < cfg.N; k++ {
		req, err := conn.Send(frame.NewFrame(cfg.Version, client.ManagedStreamId, &message.Options{}))
		if err != nil {
			refillOK = false
			c.Violation("sock/"+v+"/I5/refill-refused", sockDetail{Part: "sock", Seed: c.Seed, Cfg: cfg,
				What: fmt.Sprintf("after %d requests were all answered, send %d of N=%d was refused: %v", accepted.Load(), k+1, cfg.N, err)})
			break
		}
		reqs = append(reqs, req)
	}
	if refillOK {
		if !waitUnanswered(cfg.N) {
			c.Inconclusive("sock/" + v + ": refill did not reach the peer")
		} else {
			c.Count("sock_refill_of_N_reached_peer/"+v, 1)
		}
		if req, err := conn.Send(frame.NewFrame(cfg.Version, client.ManagedStreamId, &message.Options{})); err == nil {
			reqs = append(reqs, req)
			c.Violation("sock/"+v+"/I3/accepted-beyond-N", sockDetail{Part: "sock", Seed: c.Seed, Cfg: cfg,
				What: fmt.Sprintf("with N=%d requests unanswered by the peer a further Send was accepted with id %d", cfg.N, req.StreamId())})
		} else {
			c.Count("sock_refused_at_N/"+v, 1)
		}
	}
	peer.mu.Lock()
	peer.holdAll = false
	peer.mu.Unlock()
	select {
	case peer.wake <- struct{}{}:
	default:
	}
	for _, r := range reqs {
		for {
			if resp, err := conn.Receive(r); err != nil || resp == nil || finalBySpec(resp) {
				break
			}
		}
	}

	peer.mu.Lock()
	defer peer.mu.Unlock()
	c.Count("sock_requests_seen_by_peer/"+v, peer.seen)
	c.Max("max_sock_unanswered_at_peer", int64(peer.maxUnans))
	c.Max("max_sock_distinct_ids_"+v, int64(len(peer.distinct)))
	c.Distinct(fmt.Sprintf("sock|%s|%d|%d|%d|%d", v, cfg.N, cfg.Senders, peer.maxUnans, len(peer.distinct)))
	if peer.maxUnans < cfg.N || (refused.Load() == 0 && !refillOK) {
		c.Inconclusive("sock/" + v + ": the id space was never exhausted")
	}
	seenKey := map[string]bool{}
	for _, f := range peer.findings {
		det := sockDetail{Part: "sock", Seed: c.Seed, Cfg: cfg, What: f.What}
		if !seenKey[f.Key] {
			seenKey[f.Key] = true
			det.Tail = append([]string(nil), peer.tail...)
		}
		c.Violation(f.Key, det)
	}
}

func runSock(c *mon.Ctx) {
	type cs struct {
		v primitive.ProtocolVersion
		n int
	}
	senders, per := c.Pick(12, 16), c.Pick(70, 1000) // more senders than ids: the id space is exhausted again and again
	cfgs := []cs{{primitive.ProtocolVersion2, 8}, {primitive.ProtocolVersion4, 8}, {primitive.ProtocolVersion2, 127}}
	if c.Thorough() {
		cfgs = append(cfgs, cs{primitive.ProtocolVersion4, 1}, cs{primitive.ProtocolVersion2, 3}, cs{primitive.ProtocolVersion4, 128},
			cs{primitive.ProtocolVersion3, 8})
	}
	for i, k := range cfgs {
		s, n := senders, per
		if k.n >= 127 {
			s, n = 160, c.Pick(5, 100) // more senders than ids are needed to exhaust a large id space
		}
		runSockCfg(c, sockCfg{Version: k.v, N: k.n, Senders: s, PerSender: n}, uint64(i))
	}
	// requests that outlive the read timeout: table full (N of N timed out) and partly full (1 of 2, 2 of 4)
	for _, t := range [][2]int{{1, 1}, {2, 2}, {2, 1}, {4, 2}} {
		runSockTimeout(c, primitive.ProtocolVersion4, t[0], t[1])
	}
	if c.Thorough() {
		runSockTimeout(c, primitive.ProtocolVersion2, 3, 2)
		runSockTimeout(c, primitive.ProtocolVersion4, 8, 8)
	}
}

// ---------------------------------------------------------------------------------------------
// Requests that outlive the read timeout (sockets, real time).
//
// A request whose caller gave up waiting (read timeout) is still UNANSWERED: the peer can reply at any moment, so its
// id is assignable again only "once its final response has arrived". The peer holds its answers; the client's
// requests run into a short ReadTimeout; then, judged by logical events only (results of Send, ids the raw peer sees):
//   - with N requests unanswered a further managed send is still refused and a caller-chosen reuse of a timed-out id
//     is refused;
//   - with fewer than N unanswered a managed send may be accepted, but never with the id of a timed-out request;
//   - after the peer finally answers everything, N new sends succeed.
// Waiting for the timeout is bounded by a generous deadline; if the library has not reported the timeout by then
// the box is stalled and the outcome is inconclusive.

const (
	sockReadTimeout = 250 * time.Millisecond
	sockTimeoutWait = 20 * time.Second
)

func runSockTimeout(c *mon.Ctx, version primitive.ProtocolVersion, n int, outstanding int) {
	v := vname(version)
	cfg := sockCfg{Version: version, N: n, Senders: 1, PerSender: outstanding}
	peer, err := newRawPeer(cfg, mon.NewRand(c.Seed, uint64(n)+(1<<51)))
	if err != nil {
		c.Inconclusive("sock: cannot listen on 127.0.0.1:0")
		return
	}
	peer.serve()
	defer peer.close()
	cl := client.NewCqlClient(peer.ln.Addr().String(), nil)
	cl.MaxInFlight = n
	cl.MaxPending = 4
	cl.ReadTimeout = sockReadTimeout
	ctx, cancel := context.WithCancel(context.Background())
	defer cancel()
	conn, err := cl.ConnectAndInit(ctx, version, client.ManagedStreamId)
	if err != nil {
		if conn != nil {
			conn.Close()
		}
		c.Inconclusive("sock/timeout: handshake with the raw peer failed (short read timeout on a slow box?)")
		return
	}
	defer conn.Close()
	detail := func(what string) sockDetail {
		peer.mu.Lock()
		defer peer.mu.Unlock()
		return sockDetail{Part: "sock-timeout", Seed: c.Seed, Cfg: cfg, What: what, Tail: append([]string(nil), peer.tail...)}
	}
	key := func(k string) string { return fmt.Sprintf("sock/timeout/%s", k) }
	waitPeer := func(want int) bool {
		for t := time.Now(); time.Since(t) < sockTimeoutWait; time.Sleep(time.Millisecond) {
			if peer.unansweredCount() == want {
				return true
			}
		}
		return false
	}
	if !waitPeer(0) {
		c.Inconclusive("sock/timeout: peer did not drain the handshake")
		return
	}
	peer.mu.Lock()
	peer.holdAll = true
	peer.mu.Unlock()

	// `outstanding` managed requests that the peer will not answer for now
	var reqs []client.InFlightRequest
	timedOut := map[int16]bool{}
	for k := 0; k < outstanding; k++ {
		req, err := conn.Send(frame.NewFrame(version, client.ManagedStreamId, &message.Options{}))
		if err != nil {
			c.Inconclusive("sock/timeout: could not send the initial requests")
			return
		}
		reqs = append(reqs, req)
		timedOut[req.StreamId()] = true
	}
	if !waitPeer(outstanding) {
		c.Inconclusive("sock/timeout: the initial requests did not reach the peer")
		return
	}
	// the library reports the read timeout on each of them (logical event, not a sleep)
	for _, r := range reqs {
		deadline := time.Now().Add(sockTimeoutWait)
		for r.Err() == nil {
			if time.Now().After(deadline) {
				c.Inconclusive("sock/timeout: the read timeout was not reported within the deadline (stalled box)")
				return
			}
			time.Sleep(5 * time.Millisecond)
		}
	}
	c.Eval(1)
	c.Count("sock_timeout_requests_timed_out/"+v, int64(len(reqs)))
	c.Distinct(fmt.Sprintf("sock-timeout|%s|%d|%d", v, n, outstanding))

	// caller-chosen reuse of the id of a timed-out, still unanswered request: refused
	a := reqs[0].StreamId()
	if req, err := conn.Send(frame.NewFrame(version, a, &message.Options{})); err == nil {
		reqs = append(reqs, req)
		c.Violation(key("I4/timed-out-id-reused-by-caller"), detail(fmt.Sprintf(
			"request with managed id %d ran into the read timeout and the peer has NOT answered it; a send with caller-chosen id %d was accepted", a, a)))
	} else {
		c.Count("sock_timeout_explicit_reuse_refused/"+v, 1)
	}
	// managed sends: at most N - outstanding more may be accepted, none with the id of a timed-out request
	extra := 0
	for k := 0; k < n-outstanding+2; k++ {
		req, err := conn.Send(frame.NewFrame(version, client.ManagedStreamId, &message.Options{}))
		if err != nil {
			continue
		}
		reqs = append(reqs, req)
		extra++
		if timedOut[req.StreamId()] {
			c.Violation(key("I2/id-of-timed-out-unanswered-request-reassigned"), detail(fmt.Sprintf(
				"a managed send was given id %d, the id of a request that ran into the read timeout and that the peer has not answered", req.StreamId())))
		}
		if extra > n-outstanding {
			c.Violation(key("I3/accepted-with-N-unanswered"), detail(fmt.Sprintf(
				"a managed send was accepted (id %d) although %d requests are unanswered by the peer (N=%d; %d of them timed out on the client side)",
				req.StreamId(), outstanding+extra-1, n, outstanding)))
		}
	}
	if extra == n-outstanding {
		c.Count("sock_timeout_refused_at_N/"+v, 1)
	}
	// everything that was accepted has to be on the peer's side of the wire before it starts answering
	if !waitPeer(len(reqs)) {
		c.Inconclusive("sock/timeout: accepted requests did not reach the peer")
		return
	}
	// the peer finally answers everything; then N new requests can be sent
	peer.mu.Lock()
	peer.holdAll = false
	peer.mu.Unlock()
	select {
	case peer.wake <- struct{}{}:
	default:
	}
	if !waitPeer(0) {
		c.Inconclusive("sock/timeout: peer did not answer the held requests")
		return
	}
	// the late answers have to be processed by the client before the ids are free: poll the refill, bounded
	peer.mu.Lock()
	peer.holdAll = true
	peer.mu.Unlock()
	var fresh []client.InFlightRequest
	hb := startHeartbeat()
	defer close(hb.stop)
	mark := hb.n.Load()
	deadline := time.Now().Add(sockTimeoutWait)
	for len(fresh) < n && time.Now().Before(deadline) {
		req, err := conn.Send(frame.NewFrame(version, client.ManagedStreamId, &message.Options{}))
		if err != nil {
			time.Sleep(2 * time.Millisecond)
			continue
		}
		fresh = append(fresh, req)
	}
	if len(fresh) < n && !hb.healthy(mark, sockTimeoutWait) {
		c.Inconclusive("sock/timeout: refill incomplete on a stalled box")
	} else if len(fresh) < n {
		c.Violation(key("I5/refill-refused-after-late-answers"), detail(fmt.Sprintf(
			"after the peer answered every request only %d of N=%d new managed sends were accepted within %v", len(fresh), n, sockTimeoutWait)))
	} else {
		c.Count("sock_timeout_refill_ok/"+v, 1)
	}
	peer.mu.Lock()
	peer.holdAll = false
	findings := append([]finding(nil), peer.findings...)
	peer.mu.Unlock()
	select {
	case peer.wake <- struct{}{}:
	default:
	}
	for _, f := range findings {
		c.Violation(f.Key, detail(f.What))
	}
}
