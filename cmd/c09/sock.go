package main

// Monitor 3: a library client (CqlClient.ConnectAndInit / Send / Receive) against a minimal raw TCP peer. The PEER
// is the observer: it records the stream id of every request it reads from the socket and asserts that no two
// requests it has not yet answered carry the same id, and that ids stay in 1..MaxInFlight (<= 127 for v2).

import (
	"context"
	"fmt"
	"net"
	"runtime"
	"sync"
	"sync/atomic"
	"time"

	"github.com/datastax/go-cassandra-native-protocol/client"
	"github.com/datastax/go-cassandra-native-protocol/frame"
	"github.com/datastax/go-cassandra-native-protocol/message"
	"github.com/datastax/go-cassandra-native-protocol/primitive"

	"verif/internal/mon"
)

type sockCfg struct {
	Version   primitive.ProtocolVersion `json:"version"`
	N         int                       `json:"max_in_flight"`
	Senders   int                       `json:"senders"`
	PerSender int                       `json:"requests_per_sender"`
}

type sockDetail struct {
	Part string   `json:"part"` // "sock"
	Seed int64    `json:"seed"`
	Cfg  sockCfg  `json:"config"`
	What string   `json:"what"`
	Tail []string `json:"last_wire_events,omitempty"`
}

type peerReq struct {
	id int16
	op primitive.OpCode
}

type rawPeer struct {
	cfg  sockCfg
	ln   net.Listener
	conn net.Conn
	rng  *mon.Rand

	mu       sync.Mutex
	unans    []peerReq
	inUse    map[int16]bool
	holdAll  bool
	arrivals int64
	findings []finding
	tail     []string // last wire events, for details
	seen     int64
	maxUnans int
	distinct map[int16]bool
	answered int64
	wake     chan struct{}
	stop     chan struct{}
	wg       sync.WaitGroup
	readErr  error
}

func (p *rawPeer) note(s string) {
	p.tail = append(p.tail, s)
	if len(p.tail) > 40 {
		p.tail = p.tail[len(p.tail)-40:]
	}
}

func vname(v primitive.ProtocolVersion) string { return fmt.Sprintf("v%d", int(v)) }

func (p *rawPeer) fail(key, what string) {
	p.findings = append(p.findings, finding{Key: "sock/" + vname(p.cfg.Version) + "/" + key, What: what})
}

func newRawPeer(cfg sockCfg, rng *mon.Rand) (*rawPeer, error) {
	ln, err := net.Listen("tcp", "127.0.0.1:0") // never a fixed port: checks may run side by side
	if err != nil {
		return nil, err
	}
	return &rawPeer{cfg: cfg, ln: ln, rng: rng, inUse: map[int16]bool{}, distinct: map[int16]bool{},
		wake: make(chan struct{}, 1), stop: make(chan struct{})}, nil
}

func (p *rawPeer) serve() {
	p.wg.Add(1)
	go func() {
		defer p.wg.Done()
		conn, err := p.ln.Accept()
		if err != nil {
			p.readErr = err
			return
		}
		p.mu.Lock()
		p.conn = conn
		p.mu.Unlock()
		p.wg.Add(1)
		go p.respond(conn)
		codec := frame.NewCodec()
		for {
			f, err := codec.DecodeFrame(conn)
			if err != nil {
				p.mu.Lock()
				p.readErr = err
				p.mu.Unlock()
				return
			}
			id := f.Header.StreamId
			p.mu.Lock()
			p.seen++
			p.arrivals++
			p.note(fmt.Sprintf("request id=%d op=%v (unanswered before: %d)", id, f.Header.OpCode, len(p.unans)))
			if p.inUse[id] {
				p.fail("duplicate-id-on-wire", fmt.Sprintf("request with stream id %d read from the socket while the peer has not yet answered an earlier request with id %d", id, id))
			}
			limit := p.cfg.N
			if id < 1 || int(id) > limit {
				p.fail("id-out-of-range", fmt.Sprintf("stream id %d on the wire, MaxInFlight=%d", id, p.cfg.N))
			}
			if len(p.unans) >= p.cfg.N {
				p.fail("more-than-N-unanswered-on-wire", fmt.Sprintf("request id %d arrived while %d = MaxInFlight requests are unanswered", id, len(p.unans)))
			}
			p.inUse[id] = true
			p.distinct[id] = true
			p.unans = append(p.unans, peerReq{id, f.Header.OpCode})
			if len(p.unans) > p.maxUnans {
				p.maxUnans = len(p.unans)
			}
			p.mu.Unlock()
			select {
			case p.wake <- struct{}{}:
			default:
			}
		}
	}()
}

// respond answers out of order: it waits until `hold` requests are unanswered (hold is redrawn in 1..N, N half of
// the time, so that the client's id space is exhausted again and again) or until nothing new arrived for a tick,
// then answers a random unanswered request.
func (p *rawPeer) respond(conn net.Conn) {
	defer p.wg.Done()
	codec := frame.NewCodec()
	tick := time.NewTicker(time.Millisecond)
	defer tick.Stop()
	hold := p.cfg.N
	var lastArrivals int64 = -1
	for {
		idle := false
		select {
		case <-p.stop:
			return
		case <-p.wake:
		case <-tick.C:
			p.mu.Lock()
			idle = p.arrivals == lastArrivals
			lastArrivals = p.arrivals
			p.mu.Unlock()
		}
		for {
			p.mu.Lock()
			if p.holdAll || len(p.unans) == 0 || (len(p.unans) < hold && !idle) {
				p.mu.Unlock()
				break
			}
			i := p.rng.Intn(len(p.unans))
			rq := p.unans[i]
			p.unans[i] = p.unans[len(p.unans)-1]
			p.unans = p.unans[:len(p.unans)-1]
			// answered from the peer's point of view BEFORE the bytes leave: the client may reuse the id as soon
			// as it has read them
			delete(p.inUse, rq.id)
			p.answered++
			p.note(fmt.Sprintf("answer  id=%d", rq.id))
			if p.rng.Bool() {
				hold = p.cfg.N
			} else {
				hold = 1 + p.rng.Intn(p.cfg.N)
			}
			p.mu.Unlock()
			idle = false
			var msg message.Message
			switch rq.op {
			case primitive.OpCodeStartup:
				msg = &message.Ready{}
			case primitive.OpCodeOptions:
				msg = &message.Supported{Options: map[string][]string{"CQL_VERSION": {"3.0.0"}}}
			default:
				msg = &message.VoidResult{}
			}
			if rq.op != primitive.OpCodeStartup {
				// any kind of final response must free the id: vary it (never a fatal error code: the client
				// closes the connection on those). A quarter of the requests get a non-final continuous page first.
				if p.rng.Intn(4) == 0 {
					md := &message.RowsMetadata{ContinuousPageNumber: 1}
					if p.rng.Bool() {
						md.PagingState = []byte{0xbe, 0xef}
					}
					page := frame.NewFrame(p.cfg.Version, rq.id, &message.RowsResult{Metadata: md, Data: message.RowSet{}})
					if err := codec.EncodeFrame(page, conn); err != nil {
						return
					}
				}
				switch p.rng.Intn(7) {
				case 0:
					msg = &message.Invalid{ErrorMessage: "c09"}
				case 1:
					msg = &message.VoidResult{}
				case 2:
					msg = &message.Unavailable{ErrorMessage: "c09", Consistency: primitive.ConsistencyLevelOne, Required: 1, Alive: 0}
				case 3:
					msg = &message.RowsResult{Metadata: &message.RowsMetadata{ContinuousPageNumber: 2, LastContinuousPage: true}, Data: message.RowSet{}}
				case 4:
					// the last page of a continuous-paging session that was ended by its page limit: it still has a paging state
					msg = &message.RowsResult{Metadata: &message.RowsMetadata{ContinuousPageNumber: 2, LastContinuousPage: true,
						PagingState: []byte{0xca, 0xfe}}, Data: message.RowSet{}}
				case 5:
					msg = &message.RowsResult{Metadata: &message.RowsMetadata{PagingState: []byte{0xca, 0xfe}}, Data: message.RowSet{}}
				}
			}
			if err := codec.EncodeFrame(frame.NewFrame(p.cfg.Version, rq.id, msg), conn); err != nil {
				return
			}
		}
	}
}

func (p *rawPeer) close() {
	close(p.stop)
	p.ln.Close()
	p.mu.Lock()
	if p.conn != nil {
		p.conn.Close()
	}
	p.mu.Unlock()
	p.wg.Wait()
}

func (p *rawPeer) unansweredCount() int {
	p.mu.Lock()
	defer p.mu.Unlock()
	return len(p.unans)
}

// finalBySpec: every response ends its request except a continuous-paging page (RESULT/Rows with the continuous
// paging flag, i.e. a page number) that is not flagged as the last one. Whether a paging state is present is irrelevant.
func finalBySpec(f *frame.Frame) bool {
	if rows, ok := f.Body.Message.(*message.RowsResult); ok && rows.Metadata != nil && rows.Metadata.ContinuousPageNumber > 0 {
		return rows.Metadata.LastContinuousPage
	}
	return true
}

func runSockCfg(c *mon.Ctx, cfg sockCfg, stream uint64) {
	v := vname(cfg.Version)
	rng := mon.NewRand(c.Seed, stream+(1<<50))
	peer, err := newRawPeer(cfg, rng)
	if err != nil {
		c.Inconclusive("sock: cannot listen on 127.0.0.1:0")
		return
	}
	peer.serve()
	defer peer.close()
	cl := client.NewCqlClient(peer.ln.Addr().String(), nil)
	cl.MaxInFlight = cfg.N
	cl.MaxPending = 4
	cl.ReadTimeout = 5 * time.Minute // request timers never fire
	ctx, cancel := context.WithCancel(context.Background())
	defer cancel()
	conn, err := cl.ConnectAndInit(ctx, cfg.Version, client.ManagedStreamId)
	if err != nil {
		if conn != nil {
			conn.Close()
		}
		c.Inconclusive("sock/" + v + ": handshake with the raw peer failed")
		c.Note("sock %s N=%d: handshake failed: %v", v, cfg.N, err)
		return
	}
	defer conn.Close()

	var accepted, refused, mismatched, recvErr, clientRange, outstanding, starved, pages atomic.Int64
	var stuck, abort atomic.Bool
	var wg sync.WaitGroup
	deadline := time.Now().Add(90 * time.Second) // workload watchdog, never a verdict
	for s := 0; s < cfg.Senders; s++ {
		wg.Add(1)
		go func() {
			defer wg.Done()
			streak, acc0 := 0, int64(0)
			for done := 0; done < cfg.PerSender && !abort.Load(); {
				if time.Now().After(deadline) {
					stuck.Store(true)
					return
				}
				out0 := outstanding.Load()
				req, err := conn.Send(frame.NewFrame(cfg.Version, client.ManagedStreamId, &message.Options{}))
				if err != nil {
					refused.Add(1) // id space exhausted: the refusal the property demands
					// ... unless nothing at all is unanswered: every accepted request has had its response received
					// by its sender, and nobody got a request accepted meanwhile. One such refusal can be a transient
					// (another sender between borrowing an id and being refused); 2000 in a row are not.
					if out0 == 0 && outstanding.Load() == 0 && (streak == 0 || accepted.Load() == acc0) {
						if streak == 0 {
							acc0 = accepted.Load()
						}
						if streak++; streak >= 2000 {
							starved.Add(1)
							abort.Store(true)
							return
						}
					} else {
						streak = 0
					}
					if streak%8 == 1 {
						runtime.Gosched()
					} else {
						time.Sleep(200 * time.Microsecond) // do not spin on an exhausted id space
					}
					continue
				}
				streak = 0
				outstanding.Add(1)
				accepted.Add(1)
				if id := req.StreamId(); id < 1 || int(id) > cfg.N {
					clientRange.Add(1)
				}
				// read until the response that is final BY THE PROTOCOL (not by the library's own classification)
				for {
					resp, err := conn.Receive(req)
					if err != nil || resp == nil {
						recvErr.Add(1)
						break
					}
					if resp.Header.StreamId != req.StreamId() {
						mismatched.Add(1)
					}
					if finalBySpec(resp) {
						break
					}
					pages.Add(1)
				}
				outstanding.Add(-1)
				done++
			}
		}()
	}
	wg.Wait()
	c.Eval(1)
	c.Count("sock_requests_accepted/"+v, accepted.Load())
	c.Count("sock_sends_refused/"+v, refused.Load())
	c.Count("sock_non_final_pages_received/"+v, pages.Load())
	c.Count("sock_response_id_mismatch(C10,not_judged)/"+v, mismatched.Load())
	c.Count("sock_receive_errors(not_judged)/"+v, recvErr.Load())
	if starved.Load() > 0 {
		c.Violation("sock/"+v+"/I5/refused-with-nothing-unanswered", sockDetail{Part: "sock", Seed: c.Seed, Cfg: cfg,
			What: fmt.Sprintf("after %d accepted requests had all been answered and received, 2000 consecutive managed sends of one sender were refused while no request was outstanding and none was accepted", accepted.Load())})
		return
	}
	if stuck.Load() {
		c.Inconclusive("sock/" + v + ": workload watchdog")
		return
	}
	if n := clientRange.Load(); n > 0 {
		c.Violation("sock/"+v+"/client-id-out-of-range", sockDetail{Part: "sock", Seed: c.Seed, Cfg: cfg,
			What: fmt.Sprintf("%d accepted managed requests report a StreamId() outside 1..%d", n, cfg.N)})
	}

	// I5 / I3 on the wire: the peer holds everything, N sends must reach it with N distinct ids, one more is refused
	waitUnanswered := func(n int) bool {
		for t := time.Now(); time.Since(t) < 20*time.Second; time.Sleep(200 * time.Microsecond) {
			if peer.unansweredCount() == n {
				return true
			}
		}
		return false
	}
	if !waitUnanswered(0) {
		c.Inconclusive("sock/" + v + ": peer did not drain")
		return
	}
	peer.mu.Lock()
	peer.holdAll = true
	peer.mu.Unlock()
	var reqs []client.InFlightRequest
	refillOK := true
	for k := 0; k < cfg.N; k++ {
		req, err := conn.Send(frame.NewFrame(cfg.Version, client.ManagedStreamId, &message.Options{}))
		if err != nil {
			refillOK = false
			c.Violation("sock/"+v+"/I5/refill-refused", sockDetail{Part: "sock", Seed: c.Seed, Cfg: cfg,
				What: fmt.Sprintf("after %d requests were all answered, send %d of N=%d was refused: %v", accepted.Load(), k+1, cfg.N, err)})
			break
		}
		reqs = append(reqs, req)
	}
	if refillOK {
		if !waitUnanswered(cfg.N) {
			c.Inconclusive("sock/" + v + ": refill did not reach the peer")
		} else {
			c.Count("sock_refill_of_N_reached_peer/"+v, 1)
		}
		if req, err := conn.Send(frame.NewFrame(cfg.Version, client.ManagedStreamId, &message.Options{})); err == nil {
			reqs = append(reqs, req)
			c.Violation("sock/"+v+"/I3/accepted-beyond-N", sockDetail{Part: "sock", Seed: c.Seed, Cfg: cfg,
				What: fmt.Sprintf("with N=%d requests unanswered by the peer a further Send was accepted with id %d", cfg.N, req.StreamId())})
		} else {
			c.Count("sock_refused_at_N/"+v, 1)
		}
	}
	peer.mu.Lock()
	peer.holdAll = false
	peer.mu.Unlock()
	select {
	case peer.wake <- struct{}{}:
	default:
	}
	for _, r := range reqs {
		for {
			if resp, err := conn.Receive(r); err != nil || resp == nil || finalBySpec(resp) {
				break
			}
		}
	}

	peer.mu.Lock()
	defer peer.mu.Unlock()
	c.Count("sock_requests_seen_by_peer/"+v, peer.seen)
	c.Max("max_sock_unanswered_at_peer", int64(peer.maxUnans))
	c.Max("max_sock_distinct_ids_"+v, int64(len(peer.distinct)))
	c.Distinct(fmt.Sprintf("sock|%s|%d|%d|%d|%d", v, cfg.N, cfg.Senders, peer.maxUnans, len(peer.distinct)))
	if peer.maxUnans < cfg.N || (refused.Load() == 0 && !refillOK) {
		c.Inconclusive("sock/" + v + ": the id space was never exhausted")
	}
	seenKey := map[string]bool{}
	for _, f := range peer.findings {
		det := sockDetail{Part: "sock", Seed: c.Seed, Cfg: cfg, What: f.What}
		if !seenKey[f.Key] {
			seenKey[f.Key] = true
			det.Tail = append([]string(nil), peer.tail...)
		}
		c.Violation(f.Key, det)
	}
}

func runSock(c *mon.Ctx) {
	type cs struct {
		v primitive.ProtocolVersion
		n int
	}
	senders, per := c.Pick(12, 16), c.Pick(70, 1000) // more senders than ids: the id space is exhausted again and again
	cfgs := []cs{{primitive.ProtocolVersion2, 8}, {primitive.ProtocolVersion4, 8}, {primitive.ProtocolVersion2, 127}}
	if c.Thorough() {
		cfgs = append(cfgs, cs{primitive.ProtocolVersion4, 1}, cs{primitive.ProtocolVersion2, 3}, cs{primitive.ProtocolVersion4, 128},
			cs{primitive.ProtocolVersion3, 8})
	}
	for i, k := range cfgs {
		s, n := senders, per
		if k.n >= 127 {
			s, n = 160, c.Pick(5, 100) // more senders than ids are needed to exhaust a large id space
		}
		runSockCfg(c, sockCfg{Version: k.v, N: k.n, Senders: s, PerSender: n}, uint64(i))
	}
}
