// C01 — frame round-trip fidelity: Decode(Encode(F)) ≡ F for every version-valid frame, version and
// compression setting (DESIGN.md §4 C01).
package main

import (
	"bytes"
	"encoding/hex"
	"encoding/json"
	"fmt"
	"io"
	"regexp"

	"github.com/datastax/go-cassandra-native-protocol/compression/lz4"
	"github.com/datastax/go-cassandra-native-protocol/compression/snappy"
	"github.com/datastax/go-cassandra-native-protocol/frame"
	"github.com/datastax/go-cassandra-native-protocol/message"
	"github.com/datastax/go-cassandra-native-protocol/primitive"

	"verif/internal/bridge"
	"verif/internal/cases"
	"verif/internal/gen"
	"verif/internal/mon"
	"verif/internal/ref"
	"verif/internal/scribble"
)

func main() { mon.Main("C01", run) }

var comps = []string{"none", "lz4", "snappy"}

func codecFor(comp string) frame.RawCodec {
	switch comp {
	case "lz4":
		return frame.NewRawCodecWithCompression(lz4.Compressor{})
	case "snappy":
		return frame.NewRawCodecWithCompression(snappy.Compressor{})
	}
	return frame.NewRawCodec()
}

var digits = regexp.MustCompile(`[0-9]+|0x[0-9a-fA-F]+|\[[^\]]*\]`)

// errClass strips the variable parts of an error message so that one defect gives one key.
func errClass(err error) string {
	s := digits.ReplaceAllString(err.Error(), "#")
	if len(s) > 90 {
		s = s[:90]
	}
	out := make([]byte, 0, len(s))
	for i := 0; i < len(s); i++ {
		if s[i] == ' ' {
			out = append(out, '_')
		} else if s[i] >= 0x21 && s[i] < 0x7f {
			out = append(out, s[i])
		}
	}
	return string(out)
}

// compressible: any frame but STARTUP may carry the COMPRESSED flag once compression is agreed (v4 §5: "a
// STARTUP message must never be compressed"); OPTIONS and READY have empty bodies, and the library's own server
// does compress READY.
// poison runs an encode that is expected to FAIL after part of the body was produced (a QUERY whose serial
// consistency is not a serial level: the length computation accepts it, the encoder refuses it after writing the
// query string, consistency, flags and values). A codec must not carry anything over from a failed call into the
// next one: the valid frame encoded right afterwards on the same goroutine must still round-trip.
func poison(codec frame.RawCodec, v ref.Version, compressed bool, c *mon.Ctx) {
	one := primitive.ConsistencyLevelOne
	q := &message.Query{Query: "INSERT INTO poison.t (a, b) VALUES (?, ?) /* left over from a failed encode */",
		Options: &message.QueryOptions{PositionalValues: []*primitive.Value{primitive.NewValue([]byte("stale")), primitive.NewNullValue()}, SerialConsistency: &one}}
	f := frame.NewFrame(primitive.ProtocolVersion(v), 1, q)
	if compressed {
		f.Header.Flags = f.Header.Flags.Add(primitive.HeaderFlagCompressed)
	}
	if err := codec.EncodeFrame(f, io.Discard); err == nil {
		c.Count("poison_encode_unexpectedly_succeeded", 1)
	} else {
		c.Count("poison_encodes_refused", 1)
	}
}

// chunkReader returns at most n bytes per Read.
type chunkReader struct {
	r io.Reader
	n int
}

func (c *chunkReader) Read(p []byte) (int, error) {
	if len(p) > c.n {
		p = p[:c.n]
	}
	return c.r.Read(p)
}

func compressible(op byte) bool {
	return op != ref.OpStartup
}

func run(c *mon.Ctx) {
	c.Rule = "cases = exhaustive enumeration of optional-field shapes per (message kind, version) x value draws + all 8 frame-flag combinations per (kind, version) + PRNG frames, each under codecs {none, LZ4, Snappy}; distinct = distinct (kind, version, shape, flags, value-class vector, compression); non-trivial = the frame encoded and was decoded and compared"
	c.Assume("the comparator's reading of library objects (internal/bridge FromLib, normal form N1-N9 in DESIGN.md M3)")
	c.Assume("the generator's version gates (internal/ref feature functions, transcribed from the spec files)")
	for _, g := range bridge.FieldGuard() {
		c.Note("field guard: %s", g)
		c.Inconclusive("comparator-blind-field")
	}
	codecs := map[string]frame.RawCodec{}
	for _, k := range comps {
		codecs[k] = codecFor(k)
	}
	if c.Replay != "" {
		replay(c, codecs)
		return
	}
	plan := cases.Plan{Seed: c.Seed, Draws: c.Pick(2, 6), Random: c.Pick(60000, 3000000), Big: c.Thorough()}
	st := cases.ForEach(plan, func(cs gen.Case, id string) {
		for ci, comp := range comps {
			one(c, codecs[comp], comp, cs, id, uint64(ci))
		}
	})
	c.Set("shapes_enumerated", st.Shapes)
	c.Set("kind_version_pairs", st.Pairs)
	c.Set("flag_combination_cases", st.Flagged)
	c.Set("random_cases", st.Random)
	c.Set("exhaustive_shapes", true)
}

// lazyFrame renders the abstract frame only if the detail is actually written out.
type lazyFrame struct{ f *ref.Frame }

func (l lazyFrame) MarshalJSON() ([]byte, error) { return ref.JSON(l.f), nil }

type detail struct {
	ID     string      `json:"id"`
	Comp   string      `json:"compression"`
	Flag   bool        `json:"compressed_flag"`
	Frame  interface{} `json:"frame"`
	Bytes  interface{} `json:"bytes_hex,omitempty"`
	Got    interface{} `json:"got,omitempty"`
	Err    string      `json:"error,omitempty"`
	Diff   string      `json:"diff,omitempty"`
	Seed   int64       `json:"seed"`
	Varied uint64      `json:"variant_stream"`
}

type lazyHex []byte

func (l lazyHex) MarshalJSON() ([]byte, error) { return json.Marshal(hexCap(l)) }

func hexCap(b []byte) string {
	if len(b) > 2048 {
		return hex.EncodeToString(b[:2048]) + fmt.Sprintf("...(%d bytes)", len(b))
	}
	return hex.EncodeToString(b)
}

func one(c *mon.Ctx, codec frame.RawCodec, comp string, cs gen.Case, id string, stream uint64) {
	if c.Saturated() {
		return // the verdict is decided; see mon.Saturated
	}
	a := cs.Frame
	// the COMPRESSED flag: legacy-framed versions only (v5 §2.4.1.2: deprecated, ignored), compressible opcodes
	flag := comp != "none" && a.Version != ref.V5 && compressible(a.Msg.Opcode())
	vr := bridge.NewVariant(mon.NewRand(c.Seed, hash(id)^stream))
	f := bridge.ToLib(a, flag, vr)
	d := detail{ID: id, Comp: comp, Flag: flag, Frame: lazyFrame{a}, Seed: c.Seed, Varied: hash(id) ^ stream}
	c.Eval(1)
	if hash(id)%3 == 0 {
		poison(codec, a.Version, flag, c)
	}
	var buf bytes.Buffer
	if err := codec.EncodeFrame(f, &buf); err != nil {
		d.Err = err.Error()
		c.Violation("encode-error/"+comp+"/"+errClass(err), d)
		return
	}
	b := buf.Bytes()
	d.Bytes = lazyHex(b)
	rd := bytes.NewReader(b)
	var src io.Reader = rd
	var reused *bytes.Buffer
	switch hash(id) % 3 {
	case 1:
		src = &chunkReader{r: rd, n: 1 + int(hash(id)>>4)%11} // short reads, as a socket or bufio.Reader delivers them
	case 2:
		// a *bytes.Buffer that the caller overwrites after decoding: the decoded frame must own its memory
		reused = bytes.NewBuffer(append(make([]byte, 0, len(b)+16), b...))
		src = reused
	}
	f2, err := codec.DecodeFrame(src)
	if reused != nil {
		rd = bytes.NewReader(nil) // everything was consumed iff the buffer is empty
		if reused.Len() != 0 {
			rd = bytes.NewReader(reused.Bytes())
		}
		reused.Reset()
		reused.Write(bytes.Repeat([]byte{0xEE}, len(b)))
	}
	if err != nil {
		d.Err = err.Error()
		c.Violation("decode-error/"+comp+"/"+errClass(err), d)
		return
	}
	if rd.Len() != 0 {
		d.Err = fmt.Sprintf("%d bytes left unread", rd.Len())
		c.Violation("unread-bytes/"+cs.Kind+"/"+a.Version.String()+"/"+comp, d)
		return
	}
	a2, flags2, err := bridge.FromLib(f2)
	if err != nil {
		d.Err = err.Error()
		c.Violation("decoded-frame-malformed/"+cs.Kind+"/"+errClass(err), d)
		return
	}
	want := a.Flags()
	if flag {
		want |= ref.FlagCompressed
	}
	if flags2 != want {
		d.Err = fmt.Sprintf("header flags %#x, want %#x", flags2, want)
		c.Violation("flags-mismatch/"+cs.Kind+"/"+a.Version.String(), d)
		return
	}
	if !ref.Equal(a, a2) {
		d.Got = ref.JSON(a2)
		d.Diff = ref.Diff(a, a2)
		c.Violation("mismatch/"+cs.Kind+"/"+a.Version.String(), d)
		return
	}
	hl := a.Version.HeaderLen()
	if int(f2.Header.BodyLength) != len(b)-hl {
		d.Err = fmt.Sprintf("decoded Header.BodyLength %d, body bytes %d", f2.Header.BodyLength, len(b)-hl)
		c.Violation("bodylength-after-decode/"+cs.Kind, d)
		return
	}
	if flag && len(b) > hl {
		c.Max("max_ratio_x10_"+comp, int64(10*plainLen(codec, f)/(len(b)-hl)))
	}
	// this case is done with its decoded frame: overwrite everything in it. A decoder that hands out objects it
	// keeps using (shared NULL/UNSET values, interned type definitions, pooled buffers) returns the damage in a
	// later case of this worker, where it is an ordinary mismatch.
	c.Count("locations_scribbled_in_decoded_frames", int64(scribble.Over(f2)))
	c.Count("ok/"+comp, 1)
	c.Count("kind/"+cs.Kind+"/"+a.Version.String(), 1)
	c.Distinct(cs.Sig + "|" + comp)
	if c.WantSample() && len(b) < 300 {
		c.Sample(map[string]interface{}{"id": id, "compression": comp, "frame": ref.JSON(a), "bytes": hex.EncodeToString(b)})
	}
}

var plain = frame.NewRawCodec()

func plainLen(_ frame.RawCodec, f *frame.Frame) int {
	g := *f.Header
	g.Flags = g.Flags.Remove(1)
	var buf bytes.Buffer
	if err := plain.EncodeBody(&g, f.Body, &buf); err != nil {
		return 0
	}
	return buf.Len()
}

func hash(s string) uint64 {
	var h uint64 = 14695981039346656037
	for i := 0; i < len(s); i++ {
		h ^= uint64(s[i])
		h *= 1099511628211
	}
	return h
}

func replay(c *mon.Ctx, codecs map[string]frame.RawCodec) {
	var d struct {
		ID   string `json:"id"`
		Comp string `json:"compression"`
	}
	if err := c.ReplayDetail(&d); err != nil {
		c.Fatal("replay: %v", err)
	}
	cs, ok := cases.ByID(c.Seed, d.ID, c.Thorough())
	if !ok {
		c.Fatal("replay: cannot regenerate case %q", d.ID)
	}
	one(c, codecs[d.Comp], d.Comp, cs, d.ID, uint64(indexOf(d.Comp)))
	c.Distinct("replay-a")
	c.Distinct("replay-b")
}

func indexOf(comp string) int {
	for i, k := range comps {
		if k == comp {
			return i
		}
	}
	return 0
}
