// C11 — CQL value codecs round-trip every value of every type.
//
// For every case (CQL type tree t, abstract value v, Go representation R that holds v exactly,
// protocol version) the real datacodec codec is driven:
//
//	b, err := codec.Encode(R(v), version)            must succeed
//	wasNull, err := codec.Decode(b, fresh *R, ...)   must succeed, wasNull == (v is NULL), decoded value == v
//	codec.Decode(b, same *R already holding another value)   the same again (re-used destination)
//	codec.Decode(b, *interface{}, ...)               dynamic type == PreferredGoType(t) == the type documented
//	                                                 in doc.go / codec.go, value == v (nil for NULL)
//
// The oracle knows nothing about the wire format (that is C12): it only compares Go values with
// the abstract value they were built from (cqlgen.Match).
package main

import (
	"fmt"
	"hash/fnv"
	"os"
	"reflect"
	"runtime/debug"
	"runtime/pprof"
	"sync"
	"sync/atomic"

	"github.com/datastax/go-cassandra-native-protocol/datacodec"

	"verif/internal/cqlgen"
	"verif/internal/cqlref"
	"verif/internal/mon"
	"verif/internal/scribble"
)

func main() { mon.Main("C11", run) }

var (
	untypedSkipped   int64 // types whose documented preferred representation has no Go type (unhashable map key)
	preferredChecked int64
)

// probe runs the C11 oracle on one case and returns nil when it holds.
func probe(cs cqlgen.Case) *cqlgen.Failure {
	t, v, ver := cs.Type, cs.Value, cs.Version
	codec, dt, err := cqlgen.Codec(t)
	if err != nil {
		return &cqlgen.Failure{Stage: "new-codec", Msg: err.Error()}
	}
	src, err := cqlgen.Build(cs.Repr, t, v)
	if err != nil {
		return &cqlgen.Failure{Stage: "harness", Key: "harness/build", Msg: err.Error()}
	}
	b, err, pan := cqlgen.SafeEncode(codec, src.Interface(), ver)
	if pan != "" {
		return &cqlgen.Failure{Stage: "encode-panic", Msg: pan}
	}
	if err != nil {
		return &cqlgen.Failure{Stage: "encode", Msg: "Encode refused a value the representation holds exactly: " + err.Error()}
	}
	lib := cqlgen.Hex(b)

	// same representation
	dest, eff, val := cqlgen.TopDest(cs.Repr)
	// when this case is over, edit in place what it decoded (arithmetic on a decoded *big.Int, bytes of a decoded
	// blob, elements of a decoded list): a codec that hands out objects it keeps using returns the damage later
	var any interface{} = "sentinel"
	defer func() {
		n := scribble.Over(dest)
		if any != nil && any != interface{}("sentinel") {
			n += scribble.Over(&any)
		}
		atomic.AddInt64(&scribbled, int64(n))
	}()
	wasNull, err, pan := cqlgen.SafeDecode(codec, b, dest, ver)
	if pan != "" {
		return &cqlgen.Failure{Stage: "decode-panic", Msg: pan, LibHex: lib}
	}
	if err != nil {
		return &cqlgen.Failure{Stage: "decode", Msg: "Decode of the codec's own bytes failed: " + err.Error(), LibHex: lib}
	}
	if wasNull != v.Null {
		return &cqlgen.Failure{Stage: "roundtrip", Msg: fmt.Sprintf("wasNull=%v for value %s", wasNull, cqlref.Format(t, v)), LibHex: lib}
	}
	if err := cqlgen.MatchTop(eff, t, v, val); err != nil {
		return &cqlgen.Failure{Stage: "roundtrip", Msg: err.Error(), LibHex: lib}
	}

	// same representation, destination already holding a different value
	if f := reuseProbe(cs, codec, b); f != nil {
		return f
	}

	// untyped destination
	if cqlgen.PreferredKeyUnhashable(t) {
		// Go has no type for the documented preferred representation (map with slice/map keys:
		// blob, custom, inet, list, set, map, tuple, udt). The library must at least not panic
		// (it did until /repo commit 2daf369); what it returns instead is not judged.
		const key = "map/untyped/unhashable-preferred-key/interface{}"
		if _, _, pan := cqlgen.SafePreferredGoType(dt); pan != "" {
			return &cqlgen.Failure{Stage: "untyped", Key: key, Msg: "PreferredGoType panics: " + pan, LibHex: lib}
		}
		var any2 interface{}
		if _, _, pan := cqlgen.SafeDecode(codec, b, &any2, ver); pan != "" {
			return &cqlgen.Failure{Stage: "untyped", Key: key, Msg: "Decode into *interface{} panics: " + pan, LibHex: lib}
		}
		atomic.AddInt64(&untypedSkipped, 1)
		return nil
	}
	wasNull, err, pan = cqlgen.SafeDecode(codec, b, &any, ver)
	if pan != "" {
		return &cqlgen.Failure{Stage: "untyped-panic", Msg: pan, LibHex: lib}
	}
	if err != nil {
		return &cqlgen.Failure{Stage: "untyped", Msg: "Decode into *interface{} failed: " + err.Error(), LibHex: lib}
	}
	if v.Null {
		if !wasNull || any != nil {
			return &cqlgen.Failure{Stage: "untyped", Msg: fmt.Sprintf("NULL decoded into *interface{} as wasNull=%v value=%T(%v)", wasNull, any, any), LibHex: lib}
		}
		return nil
	}
	if wasNull || any == nil {
		return &cqlgen.Failure{Stage: "untyped", Msg: fmt.Sprintf("wasNull=%v, value=%v for %s", wasNull, any, cqlref.Format(t, v)), LibHex: lib}
	}
	pref := cqlgen.Preferred(t)
	libPref, err, pan := cqlgen.SafePreferredGoType(dt)
	if pan != "" || err != nil {
		return &cqlgen.Failure{Stage: "untyped", Msg: fmt.Sprintf("PreferredGoType: err=%v panic=%s", err, pan), LibHex: lib}
	}
	atomic.AddInt64(&preferredChecked, 1)
	if libPref != pref.GoType() {
		// the preferred type depends on the type tree only: blame the smallest sub-type that disagrees
		bt, bl, bp := blamePreferred(t)
		return &cqlgen.Failure{Stage: "preferred-type", Key: bt.Shallow() + "/preferred-type",
			Msg: fmt.Sprintf("PreferredGoType(%s) = %v, documented preferred type = %s", bt, bl, bp), LibHex: lib}
	}
	if got := reflect.TypeOf(any); got != libPref {
		return &cqlgen.Failure{Stage: "untyped", Msg: fmt.Sprintf("decoded dynamic type %s, PreferredGoType %s", got, libPref), LibHex: lib}
	}
	if err := cqlgen.Match(pref, t, v, reflect.ValueOf(any)); err != nil {
		return &cqlgen.Failure{Stage: "untyped", Msg: err.Error(), LibHex: lib}
	}
	return nil
}

const reusedStage = "roundtrip-reused-destination"

var (
	runSeed       int64
	reuseJudged   int64
	reuseSkipped  int64 // no different value could be derived / pre-fill failed: not judged
	reuseSameFill int64
	scribbled     int64 // locations of decoded values edited in place after their case
)

// reuseProbe decodes b (the encoding of the case's value) into a destination of the case's
// representation that was first filled by decoding a DIFFERENT value of the same type and
// representation (cqlgen.Refill: NULLs replaced by values, scalars redrawn, sometimes one more
// element), and requires what is required of a fresh destination: doc.go says NULL sets the
// destination to its zero value, and a decoded value replaces what was there. A Go map that
// keeps old entries is counted, not judged (cqlgen.MatchReused).
func reuseProbe(cs cqlgen.Case, codec datacodec.Codec, b []byte) *cqlgen.Failure {
	t, v, ver := cs.Type, cs.Value, cs.Version
	stream := uint64(cs.Index)
	if cs.Index < 0 {
		h := fnv.New64a()
		h.Write([]byte(cs.Sig()))
		stream = h.Sum64()
	}
	filler := cqlgen.Refill(mon.NewRand(runSeed, stream^0x5eed), cs.Repr, t, v, ver)
	if _, err := cqlref.Serialize(t, filler, ver); err != nil {
		atomic.AddInt64(&reuseSkipped, 1)
		return nil
	}
	src, err := cqlgen.Build(cs.Repr, t, filler)
	if err != nil {
		atomic.AddInt64(&reuseSkipped, 1)
		return nil
	}
	fb, err, pan := cqlgen.SafeEncode(codec, src.Interface(), ver)
	if err != nil || pan != "" {
		atomic.AddInt64(&reuseSkipped, 1)
		return nil
	}
	dest, eff, val := cqlgen.TopDest(cs.Repr)
	if _, err, pan := cqlgen.SafeDecode(codec, fb, dest, ver); err != nil || pan != "" {
		atomic.AddInt64(&reuseSkipped, 1)
		return nil
	}
	if cqlref.Equal(t, filler, v) {
		atomic.AddInt64(&reuseSameFill, 1)
	}
	atomic.AddInt64(&reuseJudged, 1)
	lib := cqlgen.Hex(b)
	pre := "destination pre-filled with " + cqlref.Format(t, filler)
	if len(pre) > 300 {
		pre = pre[:300] + "..."
	}
	wasNull, err, pan := cqlgen.SafeDecode(codec, b, dest, ver)
	switch {
	case pan != "":
		return &cqlgen.Failure{Stage: reusedStage, Msg: "panic: " + pan + "; " + pre, LibHex: lib}
	case err != nil:
		return &cqlgen.Failure{Stage: reusedStage, Msg: "Decode failed: " + err.Error() + "; " + pre, LibHex: lib}
	case wasNull != v.Null:
		return &cqlgen.Failure{Stage: reusedStage, Msg: fmt.Sprintf("wasNull=%v for %s; %s", wasNull, cqlref.Format(t, v), pre), LibHex: lib}
	}
	if err := cqlgen.MatchReused(eff, t, v, val); err != nil {
		return &cqlgen.Failure{Stage: reusedStage, Msg: err.Error() + "; " + pre, LibHex: lib}
	}
	return nil
}

// blamePreferred returns the deepest sub-type of t whose PreferredGoType differs from the
// documented one (t itself if no proper sub-type does), with both types.
func blamePreferred(t *cqlref.Type) (*cqlref.Type, reflect.Type, reflect.Type) {
	for _, e := range t.Elems {
		if cqlgen.PreferredKeyUnhashable(e) {
			continue
		}
		if dt, err := cqlgen.LibType(e); err == nil {
			if lp, _, pan := cqlgen.SafePreferredGoType(dt); pan == "" && lp != cqlgen.Preferred(e).GoType() {
				return blamePreferred(e)
			}
		}
	}
	var lp reflect.Type
	if dt, err := cqlgen.LibType(t); err == nil {
		lp, _, _ = cqlgen.SafePreferredGoType(dt)
	}
	return t, lp, cqlgen.Preferred(t).GoType()
}

func run(c *mon.Ctx) {
	debug.SetMemoryLimit(3 << 30) // soft limit: run-time created Go types are never freed (10^7 cases)
	c.Rule = "case = (CQL type tree, abstract value, Go representation holding it exactly, protocol version). " +
		"Fixed part (seed-independent): every scalar kind (20 + custom) x every Go type of the doc.go table, plain and through a pointer, " +
		"x every pool value that the Go type holds exactly (0, +-1, 2^k and 2^k+-1 up to 2^200 for varint/decimal, min/max of every width, " +
		"NaN/Inf/+-0/subnormals, empty and 65535/65536/70000-byte strings and blobs, NULL for nillable types). " +
		"Random part (function of seed and index): list/set/map/tuple/udt trees nested to depth 3 (quick) / 4 (thorough), width <= 4, " +
		"0..4 elements, a few NULL elements, representations drawn from slices, arrays, maps, map[string]T, structs (reflect.StructOf, by name or cassandra tag), " +
		"pointers and interface{} slots over every scalar Go type. distinct = distinct (type, representation, version, value) signatures."
	c.Assume("package reflect and the Go standard library (time, math/big, net) behave as documented")
	c.Assume("cqlgen.Build/Match (this harness) convert exactly between abstract values and Go representations; only pairs the representation holds exactly are generated (date<->midnight UTC, timestamp<->millisecond instants, integers within the Go type's range, NaN only in same-width floats)")
	c.Assume("nil and empty Go slices/maps are not distinguished inside plain slice/map slots; NULL vs empty is judged through wasNull, pointers and interface{} slots")

	runSeed = c.Seed
	depth := c.Pick(3, 4)
	plan := cqlgen.NewPlan(c.Seed, depth, c.Thorough())
	n := c.Pick(300000, 10000000)
	if min := plan.NumFixed() * 2; n < min {
		n = min
	}
	if s := os.Getenv("VERIF_CASES"); s != "" { // debugging aid only: overrides the tier's case count
		fmt.Sscan(s, &n)
	}
	c.Set("fixed_scalar_table_cases", plan.NumFixed())
	c.Set("max_type_depth", depth)

	var keys sync.Map
	report := func(cs cqlgen.Case, f *cqlgen.Failure) {
		bc, bf := cqlgen.Blame(cs, f, probe)
		key := cqlgen.Key(bc, bf)
		if bf.Stage == reusedStage && bf.Key == "" {
			// what matters is the container kind, whether a NULL is involved, and the Go shape
			class := "no-null"
			if bc.Value.Null {
				class = "null"
			} else {
				for _, e := range bc.Value.Elems {
					if e.Null {
						class = "null-element"
					}
				}
			}
			key = fmt.Sprintf("%s/%s/%s/%s", bc.Type.Kind, reusedStage, class, bc.Repr.Class())
		}
		if _, dup := keys.LoadOrStore(key, true); dup {
			c.Violation(key, nil) // already recorded: count only
			return
		}
		d := cqlgen.Detail(c.Seed, cs, bc, bf)
		d["thorough_plan"] = c.Thorough()
		c.Violation(key, d)
		if os.Getenv("VERIF_DEBUG_KEYS") != "" {
			fmt.Fprintf(os.Stderr, "debug-key %s :: %s :: %s\n", key, bf.Msg, bc.Sig())
		}
	}
	if p := os.Getenv("VERIF_CPUPROFILE"); p != "" {
		fh, _ := os.Create(p)
		pprof.StartCPUProfile(fh)
		defer pprof.StopCPUProfile()
	}

	if c.Replay != "" {
		var d struct {
			Index    int   `json:"index"`
			Seed     int64 `json:"seed"`
			Thorough bool  `json:"thorough_plan"`
		}
		if err := c.ReplayDetail(&d); err != nil {
			c.Fatal("replay: %v", err)
		}
		cs := cqlgen.NewPlan(d.Seed, map[bool]int{false: 3, true: 4}[d.Thorough], d.Thorough).Case(d.Index)
		c.Eval(1)
		fmt.Printf("replaying case %d: %v\n", d.Index, cs.Describe())
		if f := probe(cs); f != nil {
			report(cs, f)
		}
		return
	}

	var cov cqlgen.Coverage
	var distinct cqlgen.DistinctSet
	mon.Parallel(n, func(i int) {
		cs := plan.Case(i)
		f := probe(cs)
		c.Eval(1)
		cov.Observe(cs)
		distinct.Add(cs.Sig())
		if i%(n/8) == n/16 && c.WantSample() {
			c.Sample(cs.Describe())
		}
		if f != nil {
			report(cs, f)
		}
	})
	cov.Flush(c)
	distinct.Flush(c)
	c.Count("reused_destination_decodes_judged", atomic.LoadInt64(&reuseJudged))
	c.Count("reused_destination_skipped_no_prefill", atomic.LoadInt64(&reuseSkipped))
	c.Count("reused_destination_prefill_equal_to_value", atomic.LoadInt64(&reuseSameFill))
	c.Count("locations_of_decoded_values_edited_in_place", atomic.LoadInt64(&scribbled))
	c.Count("reused_go_map_kept_old_entries_not_judged", atomic.LoadInt64(&cqlgen.ReusedMapKeptOldEntries))
	c.Count("untyped_check_skipped_no_go_type_for_preferred", atomic.LoadInt64(&untypedSkipped))
	c.Count("preferred_type_compared_with_doc", atomic.LoadInt64(&preferredChecked))
	c.Count("empty_value_decoded_as_nil_slice_or_map_tolerated", atomic.LoadInt64(&cqlgen.NilForEmpty))
}
