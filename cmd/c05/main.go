// C05 — header-only and raw-body operations agree with the full codec (DESIGN.md §4 C05).
// For each version-valid frame and compressor, the same bytes followed by sentinel bytes are pushed
// through seven paths; all decoded frames must agree, every path must consume exactly header +
// declared body length, and bytes that decode successfully and are re-encoded must decode again to an
// equal frame (also for mutated wire inputs that still decode).
package main

import (
	"bytes"
	"encoding/hex"
	"fmt"
	"io"
	"os"
	"path/filepath"
	"strconv"
	"strings"

	"github.com/datastax/go-cassandra-native-protocol/compression/lz4"
	"github.com/datastax/go-cassandra-native-protocol/compression/snappy"
	"github.com/datastax/go-cassandra-native-protocol/frame"
	"github.com/datastax/go-cassandra-native-protocol/message"
	"github.com/datastax/go-cassandra-native-protocol/primitive"

	"verif/internal/bridge"
	"verif/internal/cases"
	"verif/internal/gen"
	"verif/internal/mon"
	"verif/internal/ref"
)

func main() { mon.Main("C05", run) }

var comps = []string{"none", "lz4", "snappy"}
var codecs = map[string]frame.RawCodec{
	"none":   frame.NewRawCodec(),
	"lz4":    frame.NewRawCodecWithCompression(lz4.Compressor{}),
	"snappy": frame.NewRawCodecWithCompression(snappy.Compressor{}),
}

var sentinel = bytes.Repeat([]byte{0xA5, 0x5A, 0xC3, 0x3C}, 8)

type lazyFrame struct{ f *ref.Frame }

func (l lazyFrame) MarshalJSON() ([]byte, error) { return ref.JSON(l.f), nil }

func hexCap(b []byte) string {
	if len(b) > 1024 {
		return hex.EncodeToString(b[:1024]) + fmt.Sprintf("...(%d bytes)", len(b))
	}
	return hex.EncodeToString(b)
}

func hash(s string) uint64 {
	var h uint64 = 14695981039346656037
	for i := 0; i < len(s); i++ {
		h ^= uint64(s[i])
		h *= 1099511628211
	}
	return h
}

// compressible: any frame but STARTUP may carry the COMPRESSED flag once compression is agreed (v4 §5: "a
// STARTUP message must never be compressed"); OPTIONS and READY have empty bodies, and the library's own server
// does compress READY.
func compressible(op byte) bool {
	return op != ref.OpStartup
}

// chunkReader returns at most n bytes per Read.
type chunkReader struct {
	r io.Reader
	n int
}

func (c *chunkReader) Read(p []byte) (int, error) {
	if len(p) > c.n {
		p = p[:c.n]
	}
	return c.r.Read(p)
}

type countingReader struct {
	r io.Reader
	n int
}

func (c *countingReader) Read(p []byte) (int, error) {
	n, err := c.r.Read(p)
	c.n += n
	return n, err
}

func run(c *mon.Ctx) {
	c.Rule = "cases = the C01 case list x {none, LZ4, Snappy} x 7 paths (DecodeFrame; DecodeRawFrame+ConvertFromRawFrame; DecodeHeader+DecodeBody; DecodeHeader+DecodeRawBody; DecodeHeader+DiscardBody seekable and not; ConvertToRawFrame+EncodeRawFrame; EncodeHeader+EncodeBody), each from the same bytes followed by 32 sentinel bytes through a counting reader; plus single-byte / field mutations of valid encodings that still decode, for the re-encode clause; distinct = distinct (kind, version, shape, flags, value classes, compression) and distinct (kind, version, mutated offset class)"
	c.Assume("internal/bridge FromLib normal form (N1-N9), extended for the re-encode clause of mutated inputs by N8 (non-positive page sizes = absent), as documented in DESIGN.md M3")
	if len(c.Args) > 0 && c.Args[0] == "mutants-worker" {
		mutants(c, c.Pick(150000, 4000000))
		return
	}
	if c.Replay != "" {
		var d struct {
			ID   string `json:"id"`
			Comp string `json:"compression"`
		}
		if err := c.ReplayDetail(&d); err != nil {
			c.Fatal("replay: %v", err)
		}
		if cs, ok := cases.ByID(c.Seed, d.ID, c.Thorough()); ok {
			paths(c, cs, d.ID)
		}
		mutants(c, c.Pick(150000, 4000000))
		c.Distinct("replay-a")
		c.Distinct("replay-b")
		return
	}
	plan := cases.Plan{Seed: c.Seed, Draws: c.Pick(1, 4), Random: c.Pick(12000, 1000000), Big: c.Thorough()}
	st := cases.ForEach(plan, func(cs gen.Case, id string) { paths(c, cs, id) })
	c.Set("shapes_enumerated", st.Shapes)
	c.Set("random_cases", st.Random)
	c.Note("paths phase done: %d evaluations", c.Evals())
	mutantsInChild(c)
}

// mutantsInChild runs the mutants phase in a child process: the structural pre-parse keeps damaged lengths away
// from the library, but where it reads a corner differently from the library (one such corner was a defect of
// the library, D30) a mutant can make the library allocate gigabytes. That must end the phase (inconclusive,
// with the log), not the check.
func mutantsInChild(c *mon.Ctx) {
	dir, err := os.MkdirTemp("", "c05-mutants-")
	if err != nil {
		c.Fatal("tmp: %v", err)
	}
	defer os.RemoveAll(dir)
	out := filepath.Join(dir, "mutants.json")
	cmd := mon.WorkerCmd(mon.Self(), out, "--tier", c.Tier, "--seed", strconv.FormatInt(c.Seed, 10), "mutants-worker")
	logp := filepath.Join(dir, "mutants.log")
	logf, err := os.Create(logp)
	if err != nil {
		c.Fatal("log: %v", err)
	}
	cmd.Stdout, cmd.Stderr = logf, logf
	runErr := cmd.Run()
	logf.Close()
	if runErr != nil || !c.Merge(out) {
		head, _ := os.ReadFile(logp)
		if len(head) > 600 {
			head = head[:600]
		}
		c.Note("mutants phase: child did not finish (%v): %s", runErr, strings.ReplaceAll(string(head), "\n", " | "))
		c.Inconclusive("mutants-phase/child-process-died")
	}
}

func paths(c *mon.Ctx, cs gen.Case, id string) {
	if c.Saturated() {
		return // the verdict is decided; see mon.Saturated
	}
	a := cs.Frame
	hl := a.Version.HeaderLen()
	for ci, comp := range comps {
		codec := codecs[comp]
		flag := comp != "none" && a.Version != ref.V5 && compressible(a.Msg.Opcode())
		if comp != "none" && !flag && hash(id)%4 != 0 {
			continue // a codec with a compressor on a frame without the COMPRESSED flag: sampled 1 in 4
		}
		f := bridge.ToLib(a, flag, bridge.NewVariant(mon.NewRand(c.Seed, hash(id)^uint64(ci))))
		var buf bytes.Buffer
		if err := codec.EncodeFrame(f, &buf); err != nil {
			continue // C01's business
		}
		b := append([]byte{}, buf.Bytes()...)
		in := append(append([]byte{}, b...), sentinel...)
		c.Eval(1)
		viol := func(path, what string) {
			c.Violation(fmt.Sprintf("path/%s/%s", path, what), map[string]interface{}{"id": id, "compression": comp, "compressed_flag": flag,
				"frame": lazyFrame{a}, "bytes_hex": hexCap(b), "seed": c.Seed, "kind": cs.Kind, "version": a.Version.String()})
		}
		want := len(b)
		check := func(path string, got *frame.Frame, consumed int, err error) bool {
			if err != nil {
				viol(path, "error:"+short(err))
				return false
			}
			if consumed != want {
				viol(path, fmt.Sprintf("consumed-%s", cmpWord(consumed, want)))
				return false
			}
			if got != nil {
				a2, _, err := bridge.FromLib(got)
				if err != nil || !ref.Equal(a, a2) {
					viol(path, "frame-differs")
					return false
				}
				if int(got.Header.BodyLength) != want-hl {
					viol(path, "BodyLength")
					return false
				}
			}
			return true
		}
		ok := true
		for _, kind := range []string{"seekable", "nonseekable", "chunked"} {
			seekable := kind == "seekable"
			src := func() (*countingReader, io.Reader) {
				br := bytes.NewReader(in)
				switch kind {
				case "seekable":
					return &countingReader{r: br}, br
				case "chunked":
					// a source that returns short reads, as a socket or a bufio.Reader does
					return &countingReader{r: &chunkReader{r: br, n: 1 + int(hash(id)%7)}}, nil
				}
				return &countingReader{r: struct{ io.Reader }{br}}, nil
			}
			sfx := "/" + kind
			// P1
			cr, _ := src()
			f1, err := codec.DecodeFrame(cr)
			ok = check("P1-DecodeFrame"+sfx, f1, cr.n, err) && ok
			// P2
			cr, _ = src()
			raw, err := codec.DecodeRawFrame(cr)
			if err == nil {
				if !bytes.Equal(raw.Body, b[hl:]) || int(raw.Header.BodyLength) != len(raw.Body) {
					viol("P2-DecodeRawFrame"+sfx, "raw-body")
					ok = false
				}
				var f2 *frame.Frame
				f2, err = codec.ConvertFromRawFrame(raw)
				ok = check("P2-DecodeRawFrame+Convert"+sfx, f2, cr.n, err) && ok
			} else {
				ok = check("P2-DecodeRawFrame"+sfx, nil, cr.n, err) && ok
			}
			// P3
			cr, _ = src()
			h, err := codec.DecodeHeader(cr)
			if err == nil {
				var body *frame.Body
				body, err = codec.DecodeBody(h, cr)
				var f3 *frame.Frame
				if err == nil {
					f3 = &frame.Frame{Header: h, Body: body}
				}
				ok = check("P3-DecodeHeader+DecodeBody"+sfx, f3, cr.n, err) && ok
			} else {
				ok = check("P3-DecodeHeader"+sfx, nil, cr.n, err) && ok
			}
			// P4
			cr, _ = src()
			if h, err = codec.DecodeHeader(cr); err == nil {
				var rb []byte
				rb, err = codec.DecodeRawBody(h, cr)
				if err == nil && !bytes.Equal(rb, b[hl:]) {
					viol("P4-DecodeRawBody"+sfx, "raw-body")
					ok = false
				}
				ok = check("P4-DecodeHeader+DecodeRawBody"+sfx, nil, cr.n, err) && ok
			}
			// P5: a seekable source is handed over as such (io.Seeker), position read back afterwards
			if seekable {
				br := bytes.NewReader(in)
				if h, err = codec.DecodeHeader(br); err == nil {
					err = codec.DiscardBody(h, br)
					ok = check("P5-DecodeHeader+DiscardBody"+sfx, nil, len(in)-br.Len(), err) && ok
				}
			} else {
				cr, _ = src()
				if h, err = codec.DecodeHeader(cr); err == nil {
					err = codec.DiscardBody(h, cr)
					ok = check("P5-DecodeHeader+DiscardBody"+sfx, nil, cr.n, err) && ok
				}
			}
		}
		// P1b / P3b: the source has dynamic type *bytes.Buffer (compressors special-case it): the decoder must still
		// stop at the end of the frame
		{
			// ... and the decoded frame must not alias the caller's buffer: the buffer is overwritten (as a proxy
			// re-using it for the next read would) before the frame is compared
			scribble := func(src *bytes.Buffer) {
				src.Reset()
				src.Write(bytes.Repeat([]byte{0xEE}, len(in)))
			}
			src := bytes.NewBuffer(append(make([]byte, 0, len(in)+64), in...))
			f1, err := codec.DecodeFrame(src)
			consumed := len(in) - src.Len()
			scribble(src)
			ok = check("P1b-DecodeFrame/bytes.Buffer-reused", f1, consumed, err) && ok
			src = bytes.NewBuffer(append(make([]byte, 0, len(in)+64), in...))
			if h, err := codec.DecodeHeader(src); err == nil {
				body, err := codec.DecodeBody(h, src)
				var f3 *frame.Frame
				if err == nil {
					f3 = &frame.Frame{Header: h, Body: body}
				}
				consumed := len(in) - src.Len()
				scribble(src)
				ok = check("P3b-DecodeHeader+DecodeBody/bytes.Buffer-reused", f3, consumed, err) && ok
			}
		}
		// P1c / P3c: the *bytes.Buffer holds exactly this frame (a write-one/read-one pipe, or the last frame of
		// a batch): everything must have been consumed, nothing may stay behind for the next read
		{
			src := bytes.NewBuffer(append(make([]byte, 0, len(b)+8), b...))
			f1, err := codec.DecodeFrame(src)
			ok = check("P1c-DecodeFrame/bytes.Buffer-holding-exactly-the-frame", f1, len(b)-src.Len(), err) && ok
			src = bytes.NewBuffer(append(make([]byte, 0, len(b)+8), b...))
			if h, err := codec.DecodeHeader(src); err == nil {
				body, err := codec.DecodeBody(h, src)
				var f3 *frame.Frame
				if err == nil {
					f3 = &frame.Frame{Header: h, Body: body}
				}
				ok = check("P3c-DecodeHeader+DecodeBody/bytes.Buffer-holding-exactly-the-frame", f3, len(b)-src.Len(), err) && ok
			}
		}
		// P2b / P4b: the source is a *bytes.Buffer that the caller re-uses after the raw decode (what a proxy
		// does with a pooled buffer): the raw body must not alias the source
		{
			src := bytes.NewBuffer(append(make([]byte, 0, len(in)+64), in...))
			if raw, err := codec.DecodeRawFrame(src); err == nil {
				src.Reset()
				src.Write(bytes.Repeat([]byte{0xEE}, len(in)))
				if !bytes.Equal(raw.Body, b[hl:]) {
					viol("P2b-DecodeRawFrame/bytes.Buffer-reused", "raw-body-aliases-source")
					ok = false
				} else if f2, err := codec.ConvertFromRawFrame(raw); err != nil {
					viol("P2b-DecodeRawFrame+Convert/bytes.Buffer-reused", "error:"+short(err))
					ok = false
				} else {
					ok = check("P2b-DecodeRawFrame+Convert/bytes.Buffer-reused", f2, want, nil) && ok
				}
			}
			src = bytes.NewBuffer(append(make([]byte, 0, len(in)+64), in...))
			if h, err := codec.DecodeHeader(src); err == nil {
				if rb, err := codec.DecodeRawBody(h, src); err == nil {
					src.Reset()
					src.Write(bytes.Repeat([]byte{0xEE}, len(in)))
					if !bytes.Equal(rb, b[hl:]) {
						viol("P4b-DecodeRawBody/bytes.Buffer-reused", "raw-body-aliases-source")
						ok = false
					}
				}
			}
		}
		// truncated stream (non-seekable): a raw path that reports success must have consumed header + declared
		// length; with fewer bytes available it must report an error
		if bl := len(b) - hl; bl > 0 {
			cut := hl + int(hash(id)>>8)%bl
			for _, path := range []string{"P2t-DecodeRawFrame", "P4t-DecodeHeader+DecodeRawBody", "P5t-DecodeHeader+DiscardBody"} {
				cr := &countingReader{r: struct{ io.Reader }{bytes.NewReader(b[:cut])}}
				var err error
				switch path {
				case "P2t-DecodeRawFrame":
					_, err = codec.DecodeRawFrame(cr)
				default:
					var h *frame.Header
					if h, err = codec.DecodeHeader(cr); err == nil {
						if path == "P4t-DecodeHeader+DecodeRawBody" {
							_, err = codec.DecodeRawBody(h, cr)
						} else {
							err = codec.DiscardBody(h, cr)
						}
					}
				}
				if err == nil {
					viol(path+"/truncated-stream", "success-with-short-body")
					ok = false
				}
			}
			c.Count("truncated_streams", 1)
		}
		// P6: ConvertToRawFrame -> EncodeRawFrame -> DecodeFrame
		f6 := bridge.ToLib(a, flag, bridge.NewVariant(mon.NewRand(c.Seed, hash(id)^uint64(ci)^6)))
		if raw, err := codec.ConvertToRawFrame(f6); err != nil {
			viol("P6-ConvertToRawFrame", "error:"+short(err))
			ok = false
		} else {
			if int(raw.Header.BodyLength) != len(raw.Body) {
				viol("P6-ConvertToRawFrame", "BodyLength")
				ok = false
			}
			// a second conversion through the same codec must not disturb the raw frame already handed out
			keep := append([]byte{}, raw.Body...)
			other := frame.NewFrame(primitive.ProtocolVersion(a.Version), 1, &message.Query{Query: strings.Repeat("overwrite ", 1+len(keep)/10)})
			if flag {
				other.Header.Flags = other.Header.Flags.Add(primitive.HeaderFlagCompressed)
			}
			if _, err := codec.ConvertToRawFrame(other); err == nil && !bytes.Equal(keep, raw.Body) {
				viol("P6-ConvertToRawFrame", "raw-body-changed-by-a-later-conversion")
				ok = false
			}
			// a raw frame is a header plus opaque bytes; a proxy that replaces or builds the body by hand leaves
			// Header.BodyLength stale. EncodeRawFrame takes the length from the body it is given.
			switch hash(id) % 3 {
			case 1:
				raw.Header.BodyLength = 0
			case 2:
				raw.Header.BodyLength += 7
			}
			var out bytes.Buffer
			if err := codec.EncodeRawFrame(raw, &out); err != nil {
				viol("P6-EncodeRawFrame", "error:"+short(err))
				ok = false
			} else {
				rd := bytes.NewReader(out.Bytes())
				f, err := codec.DecodeFrame(rd)
				want = out.Len()
				ok = check("P6-ConvertToRaw+EncodeRaw+DecodeFrame", f, out.Len()-rd.Len(), err) && ok
				want = len(b)
				if out.Len() > 1 && out.Bytes()[1] != b[1] {
					viol("P6-ConvertToRaw+EncodeRaw", fmt.Sprintf("header-flags-%#02x-differ-from-EncodeFrame-%#02x", out.Bytes()[1], b[1]))
					ok = false
				}
			}
		}
		// P7: EncodeHeader + EncodeBody -> DecodeFrame
		f7 := bridge.ToLib(a, flag, bridge.NewVariant(mon.NewRand(c.Seed, hash(id)^uint64(ci)^7)))
		var body7 bytes.Buffer
		if err := codec.EncodeBody(f7.Header, f7.Body, &body7); err != nil {
			viol("P7-EncodeBody", "error:"+short(err))
			ok = false
		} else {
			f7.Header.BodyLength = int32(body7.Len()) // the caller of the partial operations supplies the length
			var out bytes.Buffer
			if err := codec.EncodeHeader(f7.Header, &out); err != nil {
				viol("P7-EncodeHeader", "error:"+short(err))
				ok = false
			} else {
				out.Write(body7.Bytes())
				rd := bytes.NewReader(out.Bytes())
				f, err := codec.DecodeFrame(rd)
				want = out.Len()
				ok = check("P7-EncodeHeader+EncodeBody+DecodeFrame", f, out.Len()-rd.Len(), err) && ok
				want = len(b)
				if out.Len() > 1 && out.Bytes()[1] != b[1] {
					viol("P7-EncodeHeader+EncodeBody", fmt.Sprintf("header-flags-%#02x-differ-from-EncodeFrame-%#02x", out.Bytes()[1], b[1]))
					ok = false
				}
			}
		}
		// P7b: the header goes out first (the length is known from an earlier encode), then the body, both
		// straight to the destination — the order in which they travel
		f7b := bridge.ToLib(a, flag, bridge.NewVariant(mon.NewRand(c.Seed, hash(id)^uint64(ci)^7)))
		var probe bytes.Buffer
		// (only where the body bytes are a function of the frame: a compressed body that holds a Go map is
		// written in map iteration order and compresses to a different length from one encode to the next)
		deterministic := !flag || ((a.Msg.Opcode() == ref.OpOptions || a.Msg.Opcode() == ref.OpReady) && (a.Payload == nil || len(*a.Payload) <= 1))
		if err := codec.EncodeBody(f7b.Header, f7b.Body, &probe); err == nil && deterministic {
			f7b = bridge.ToLib(a, flag, bridge.NewVariant(mon.NewRand(c.Seed, hash(id)^uint64(ci)^7)))
			f7b.Header.BodyLength = int32(probe.Len())
			var out bytes.Buffer
			if err := codec.EncodeHeader(f7b.Header, &out); err != nil {
				viol("P7b-EncodeHeader", "error:"+short(err))
				ok = false
			} else if err := codec.EncodeBody(f7b.Header, f7b.Body, &out); err != nil {
				viol("P7b-EncodeBody-after-EncodeHeader", "error:"+short(err))
				ok = false
			} else {
				rd := bytes.NewReader(out.Bytes())
				f, err := codec.DecodeFrame(rd)
				want = out.Len()
				ok = check("P7b-EncodeHeader-then-EncodeBody+DecodeFrame", f, out.Len()-rd.Len(), err) && ok
				want = len(b)
			}
		}
		if ok {
			c.Count("all_paths_agree/"+comp, 1)
			c.Distinct(cs.Sig + "|" + comp)
			if c.WantSample() && len(b) < 150 {
				c.Sample(map[string]interface{}{"id": id, "compression": comp, "frame": ref.JSON(a), "bytes": hex.EncodeToString(b), "paths": 7})
			}
		}
	}
}

func cmpWord(got, want int) string {
	if got > want {
		return "too-much"
	}
	return "too-little"
}

func short(err error) string {
	s := err.Error()
	out := make([]byte, 0, 60)
	for i := 0; i < len(s) && len(out) < 60; i++ {
		ch := s[i]
		switch {
		case ch >= '0' && ch <= '9':
			if len(out) == 0 || out[len(out)-1] != '#' {
				out = append(out, '#')
			}
		case ch == ' ':
			out = append(out, '_')
		case ch > 0x20 && ch < 0x7f:
			out = append(out, ch)
		}
	}
	return string(out)
}

// mutants: the re-encode clause over wire inputs that are not the output of the encoder.
func mutants(c *mon.Ctx, count int) {
	codec := codecs["none"]
	mon.Parallel(count, func(i int) {
		r := mon.NewRand(c.Seed, 0x3075<<32|uint64(i))
		var cs gen.Case
		var b []byte
		for tries := 0; tries < 20; tries++ {
			cs = cases.RandomCase(c.Seed^0x5a5a, i*20+tries, false)
			enc, err := ref.EncodeFrame(cs.Frame, ref.EncOpts{NoGlobalSpec: r.Bool()})
			if err == nil && len(enc) <= 400 {
				b = enc
				break
			}
		}
		if b == nil {
			return
		}
		hl := cs.Frame.Version.HeaderLen()
		x := append([]byte{}, b...)
		// mutate 1-2 bytes: the header flags byte or any body byte, to any value; mutants whose length/count
		// fields no longer match the bytes present are discarded by an allocation-free structural pre-parse
		// (absurd lengths are C04's domain and cost the library up to a second each)
		nm := 1 + r.Intn(2)
		offClass := ""
		for m := 0; m < nm; m++ {
			off := 1
			if len(x) > hl && r.Intn(8) != 0 {
				off = hl + r.Intn(len(x)-hl)
			}
			switch r.Intn(5) {
			case 0:
				x[off] ^= 1 << uint(r.Intn(8))
			case 1:
				x[off]++
			case 2:
				x[off]--
			case 3:
				x[off] = 0
			case 4:
				x[off] = byte(r.Intn(256))
			}
			if off == 1 {
				offClass = "flags"
			} else {
				offClass = fmt.Sprintf("%d", (off-hl)*8/(len(x)-hl+1))
			}
		}
		if bytes.Equal(x, b) {
			return
		}
		if !ref.WellStructured(x) {
			c.Count("mutant_structurally_damaged(not given to the library)", 1)
			return
		}
		c.Eval(1)
		var f *frame.Frame
		var err error
		if p, _ := mon.Guard(func() { f, err = codec.DecodeFrame(bytes.NewReader(x)) }); p {
			c.Count("mutant_decode_panicked(C04's business)", 1)
			return
		}
		if err != nil {
			c.Count("mutant_rejected", 1)
			return
		}
		c.Count("mutant_decoded", 1)
		a1, _, err := bridge.FromLib(f)
		if err != nil {
			c.Count("mutant_decoded_to_incomplete_object", 1)
			return
		}
		var out bytes.Buffer
		if p, _ := mon.Guard(func() { err = codec.EncodeFrame(f, &out) }); p || err != nil {
			c.Count("mutant_reencode_refused", 1) // the statement is conditional on re-encoding
			return
		}
		f2, err := codec.DecodeFrame(bytes.NewReader(out.Bytes()))
		det := map[string]interface{}{"mutant_index": i, "seed": c.Seed, "original_hex": hex.EncodeToString(b), "mutant_hex": hex.EncodeToString(x),
			"reencoded_hex": hexCap(out.Bytes()), "decoded": lazyFrame{a1}, "kind": cs.Kind, "version": cs.Frame.Version.String()}
		if err != nil {
			det["error"] = err.Error()
			c.Violation("reencode/"+cs.Kind+"/decode-of-reencoded-failed:"+short(err), det)
			return
		}
		a2, _, err := bridge.FromLib(f2)
		if err != nil || !ref.Equal(a1, a2) {
			det["diff"] = ref.Diff(a1, a2)
			c.Violation("reencode/"+cs.Kind+"/"+cs.Frame.Version.String()+"/not-a-fixpoint", det)
			return
		}
		c.Count("mutant_reencode_fixpoint", 1)
		c.Distinct("mut|" + cs.Kind + "|" + cs.Frame.Version.String() + "|" + offClass)
	})
}
