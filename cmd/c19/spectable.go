package main

// The capability table, transcribed by hand from /repo/specs/*.spec. Nothing here is derived from
// the library: arguments are written as the wire values the specs use (masks, strings, codes).
//
// Column order of every cell string: v2 v3 v4 v5 DSEv1 DSEv2.
//   'T' the spec text says the feature exists in that version
//   'F' the spec text of that version does not have it (and the message it belongs to exists)
//   'U' unjudged: the spec text of that version is silent or ambiguous; counted, never judged
//
// Files: native_protocol_v2..v5.spec, dse_protocol_v1.spec, dse_protocol_v2.spec. DSE v1 describes
// itself as a set of changes from "CQL binary protocol version 5" (a v5 draft of that time), DSE v2
// as changes from DSE v1 — every DSE cell below was checked against the DSE message sections
// themselves, not inferred from "v >= 5".

import "github.com/datastax/go-cassandra-native-protocol/primitive"

var specVersions = []primitive.ProtocolVersion{2, 3, 4, 5, 0x41, 0x42}
var specVersionNames = []string{"v2", "v3", "v4", "v5", "DSEv1", "DSEv2"}

type capRow struct {
	Pred  string
	Arg   string // "" for predicates without argument
	Want  string // 6 cells, see above
	Cite  string
	WhyU  string                                 // why the 'U' cells are not judged
	Call  func(v primitive.ProtocolVersion) bool // the library predicate, with the argument bound
	CallI func(v primitive.ProtocolVersion) int  // for int-valued predicates
	WantI []int                                  // expected ints (with CallI)
}

func queryFlagRow(mask uint32, want, cite string) capRow {
	return capRow{Pred: "SupportsQueryFlag", Arg: hex32(mask), Want: want, Cite: cite,
		Call: func(v primitive.ProtocolVersion) bool { return v.SupportsQueryFlag(primitive.QueryFlag(mask)) }}
}

func compressionRow(name string, want, cite string) capRow {
	return capRow{Pred: "SupportsCompression", Arg: name, Want: want, Cite: cite,
		Call: func(v primitive.ProtocolVersion) bool { return v.SupportsCompression(primitive.Compression(name)) }}
}

func targetRow(name string, want, cite string) capRow {
	return capRow{Pred: "SupportsSchemaChangeTarget", Arg: name, Want: want, Cite: cite,
		Call: func(v primitive.ProtocolVersion) bool {
			return v.SupportsSchemaChangeTarget(primitive.SchemaChangeTarget(name))
		}}
}

func topologyRow(name string, want, cite, whyU string) capRow {
	return capRow{Pred: "SupportsTopologyChangeType", Arg: name, Want: want, Cite: cite, WhyU: whyU,
		Call: func(v primitive.ProtocolVersion) bool {
			return v.SupportsTopologyChangeType(primitive.TopologyChangeType(name))
		}}
}

func revisionRow(code uint32, want, cite string) capRow {
	return capRow{Pred: "SupportsDseRevisionType", Arg: hex32(code), Want: want, Cite: cite,
		Call: func(v primitive.ProtocolVersion) bool {
			return v.SupportsDseRevisionType(primitive.DseRevisionType(code))
		}}
}

func capabilityTable() []capRow {
	rows := []capRow{
		{
			Pred: "FrameHeaderLengthInBytes", WantI: []int{8, 9, 9, 9, 9, 9},
			// v2 §1: "Each frame contains a fixed size header (8 bytes) followed by a variable size body."
			// v3 §10: "stream id is now 2 bytes long (a [short] value), so the header is now 1 byte longer (9 bytes total)."
			// v4 §1, DSE v1 §1, DSE v2 §1: "Each frame contains a fixed size header (9 bytes)".
			// v5 §2.4: "Each envelope contains a fixed size header (9 bytes)".
			Cite:  "v2 §1 'fixed size header (8 bytes)'; v3 §10 'header is now 1 byte longer (9 bytes total)'; v4/v5/DSE §1 '(9 bytes)'",
			CallI: func(v primitive.ProtocolVersion) int { return v.FrameHeaderLengthInBytes() },
		},
		{
			Pred: "Uses4BytesCollectionLength", Want: "FTTTTT",
			// v2 §6: "List: a [short] n indicating the size of the list, followed by n elements."
			// v3 §10: "The serialization format for collection has changed (both the collection size and the
			//          length of each argument is now 4 bytes long)."
			// v4 §6.11, v5 §5.12, DSE v1/v2 §6.12: "A [int] n indicating the number of elements in the list".
			Cite: "v2 §6 'a [short] n indicating the size of the list'; v3 §10 'collection size ... is now 4 bytes long'; v4+/DSE §6 'A [int] n indicating the number of elements'",
			Call: func(v primitive.ProtocolVersion) bool { return v.Uses4BytesCollectionLength() },
		},
		{
			Pred: "Uses4BytesQueryFlags", Want: "FFFTTT",
			// v2/v3/v4 §4.1.4: "<flags> is a [byte] whose bits define the options for this query".
			// v5 §9: "Enlarged flag's bitmaps for QUERY, EXECUTE and BATCH messages from [byte] to [int]".
			// DSE v1 §4.1.4 and DSE v2 §4.1.4: "<flags> is a [int] whose bits define the options for this query".
			Cite: "v2-v4 §4.1.4 '<flags> is a [byte]'; v5 §9 'from [byte] to [int]'; DSE v1/v2 §4.1.4 '<flags> is a [int]'",
			Call: func(v primitive.ProtocolVersion) bool { return v.Uses4BytesQueryFlags() },
		},
		// STARTUP, all versions: "COMPRESSION": ... "This is optional; if not specified no compression will be used."
		compressionRow("NONE", "TTTTTT", "all specs, STARTUP: 'This is optional; if not specified no compression will be used'"),
		// v2/v3/v4 §5, DSE v1/v2 §5: "the following compressions are available: - lz4 ... - snappy ..."
		// v5 §2.3.2: "As of v5 of the protocol, the only compression available is lz4".
		compressionRow("LZ4", "TTTTTT", "v2-v4/DSE §5 'the following compressions are available: lz4 ...'; v5 §2.3.2 'the only compression available is lz4'"),
		compressionRow("SNAPPY", "TTTFTT", "v2-v4/DSE §5 lists snappy; v5 §2.3.2 'the only compression available is lz4', §2.3.1 'Only LZ4 compression is currently supported for v5'"),
		compressionRow("DEFLATE", "FFFFFF", "no spec lists any algorithm other than lz4 and snappy"),
		compressionRow("ZSTD", "FFFFFF", "no spec lists any algorithm other than lz4 and snappy"),
		{
			Pred: "SupportsBatchQueryFlags", Want: "FTTTTT",
			// v2 §4.1.7: body is "<type><n><query_1>...<query_n><consistency>" (no flags).
			// v3 §10: "BATCH messages now have <flags> (like QUERY and EXECUTE)".
			// v4 §4.1.7, v5 §4.1.7, DSE v1/v2 §4.1.7: "...<consistency><flags>[<serial_consistency>][<timestamp>]...".
			Cite: "v2 §4.1.7 '<type><n><query_1>...<query_n><consistency>'; v3 §10 'BATCH messages now have <flags>'; later specs §4.1.7 '<consistency><flags>'",
			Call: func(v primitive.ProtocolVersion) bool { return v.SupportsBatchQueryFlags() },
		},
		{
			Pred: "SupportsPrepareFlags", Want: "FFFTFT",
			// v2/v3/v4 §4.1.5: "The body consists of the CQL query to prepare as a [long string]."
			// v5 §9: "Added [int] flags field in PREPARE message (Section 4.1.5)."
			// DSE v1 §10: "Does _not_ have [int] flags field in PREPARE message"; §4.1.5 body is the [long string] only.
			// DSE v2 §10.2: "Added [int] flags field in PREPARE message (Section 4.1.5)."
			Cite: "v2-v4 §4.1.5 body is a [long string]; v5 §9 'Added [int] flags field in PREPARE'; DSE v1 §10 'Does _not_ have [int] flags field in PREPARE'; DSE v2 §10.2 'Added [int] flags field in PREPARE'",
			Call: func(v primitive.ProtocolVersion) bool { return v.SupportsPrepareFlags() },
		},
		// QUERY flags. v2 §4.1.4 lists 0x01 Values, 0x02 Skip_metadata, 0x04 Page_size, 0x08 With_paging_state,
		// 0x10 With serial consistency — and nothing else.
		queryFlagRow(0x01, "TTTTTT", "every spec §4.1.4 '0x01: Values'"),
		queryFlagRow(0x02, "TTTTTT", "every spec §4.1.4 '0x02: Skip_metadata'"),
		queryFlagRow(0x04, "TTTTTT", "every spec §4.1.4 '0x04: Page_size'"),
		queryFlagRow(0x08, "TTTTTT", "every spec §4.1.4 '0x08: With_paging_state'"),
		queryFlagRow(0x10, "TTTTTT", "every spec §4.1.4 '0x10: With serial consistency'"),
		// v3 §10: "QUERY, EXECUTE and BATCH messages can now optionally provide the default timestamp";
		// v3 §4.1.4 "0x20: With default timestamp", "0x40: With names for values"; same in v4, v5, DSE v1, DSE v2.
		queryFlagRow(0x20, "FTTTTT", "v2 §4.1.4 stops at 0x10; v3 §4.1.4/§10 '0x20: With default timestamp'; also v4, v5, DSE v1/v2"),
		queryFlagRow(0x40, "FTTTTT", "v2 §4.1.4 stops at 0x10; v3 §4.1.4/§10 '0x40: With names for values'; also v4, v5, DSE v1/v2"),
		// v5 §4.1.4 "0x0080: With keyspace", §9 "Added keyspace field in QUERY, PREPARE, and BATCH messages".
		// DSE v1 §10: "Does _not_ have keyspace field in QUERY, PREPARE, and BATCH messages"; DSE v1 §4.1.4 lists no 0x80.
		// DSE v2 §4.1.4 "0x00000080: With keyspace", §10.2 "Added keyspace field in QUERY, PREPARE, and BATCH messages".
		queryFlagRow(0x80, "FFFTFT", "v5 §4.1.4 '0x0080: With keyspace'; DSE v1 §10 'Does _not_ have keyspace field'; DSE v2 §4.1.4 '0x00000080: With keyspace'"),
		// v5 §4.1.4 "0x0100: With now in seconds", §9 "Added now_in_seconds field in QUERY, EXECUTE, and BATCH messages".
		// DSE v1 §4.1.4 and DSE v2 §4.1.4 list no 0x100 and their <query_parameters> has no <now_in_seconds>.
		queryFlagRow(0x100, "FFFTFF", "v5 §4.1.4 '0x0100: With now in seconds'; DSE v1/v2 §4.1.4 <query_parameters> has no <now_in_seconds>"),
		// DSE v1/v2 §4.1.4: "0x40000000: Page_size_bytes", "0x80000000: With continuous paging". No OSS spec has them
		// (v2-v4 flags are a single [byte]; v5 §4.1.4 stops at 0x0100).
		queryFlagRow(0x40000000, "FFFFTT", "DSE v1/v2 §4.1.4 '0x40000000: Page_size_bytes'; not in any OSS spec"),
		queryFlagRow(0x80000000, "FFFFTT", "DSE v1/v2 §4.1.4 '0x80000000: With continuous paging'; not in any OSS spec"),
		{
			Pred: "SupportsResultMetadataId", Want: "FFFTFT",
			// v2-v4 §4.2.5.4: Prepared body is "<id><metadata><result_metadata>".
			// v5 §9: "Added result set metadata id to Prepared responses (Section 4.2.5.4)"; §4.2.5.4 "<id><result_metadata_id><metadata><result_metadata>".
			// DSE v1 §4.2.5.4: "<id><metadata><result_metadata>"; §4.1.6 EXECUTE "<id><query_parameters>".
			// DSE v2 §10.2: "Added <result_metadata_id> to Prepared response (section 4.2.5.4) and EXECUTE request".
			Cite: "v5 §9 'Added result set metadata id to Prepared responses'; DSE v1 §4.2.5.4 '<id><metadata><result_metadata>'; DSE v2 §10.2 'Added <result_metadata_id> to Prepared response'",
			Call: func(v primitive.ProtocolVersion) bool { return v.SupportsResultMetadataId() },
		},
		{
			Pred: "SupportsReadWriteFailureReasonMap", Want: "UUFTTT",
			// v4 §9: Read_failure "<cl><received><blockfor><numfailures><data_present>", Write_failure "...<numfailures><write_type>".
			// v5 §9 (changes): "<numfailures> in Read_failure and Write_failure error message bodies has been replaced with <reasonmap>."
			// DSE v1 §9 and DSE v2 §9: Read_failure "<cl><received><blockfor><reasonmap><data_present>",
			//                          Write_failure "<cl><received><blockfor><reasonmap><write_type>".
			Cite: "v4 §9 '<cl><received><blockfor><numfailures><data_present>'; v5 §9 '<numfailures> ... has been replaced with <reasonmap>'; DSE v1/v2 §9 '<cl><received><blockfor><reasonmap><data_present>'",
			WhyU: "v2 and v3 have no Read_failure/Write_failure error at all (v4 §10: 'Read_failure error code was added'), so the layout question does not arise",
			Call: func(v primitive.ProtocolVersion) bool { return v.SupportsReadWriteFailureReasonMap() },
		},
		{
			Pred: "SupportsWriteTimeoutContentions", Want: "FFFTFF",
			// v2-v4 §7/§8/§9, DSE v1/v2 §9: Write_timeout "<cl><received><blockfor><writeType>".
			// v5 §8: Write_timeout "<cl><received><blockfor><writeType><contentions>", "<contentions> is a [short] ...
			//        The field only presents when the <writeType> is \"CAS\"."
			Cite: "v5 §8 Write_timeout '<cl><received><blockfor><writeType><contentions>'; all other specs '<cl><received><blockfor><writeType>'",
			Call: func(v primitive.ProtocolVersion) bool { return v.SupportsWriteTimeoutContentions() },
		},
		// v2 §4.2.5.5/§4.2.6: "<change><keyspace><table>" — "<table> will be empty ... if the change was affecting a keyspace
		// and not a table": keyspace and table changes exist, nothing else.
		targetRow("KEYSPACE", "TTTTTT", "v2 §4.2.5.5 '<change><keyspace><table>' (keyspace change = empty table); v3+ §4.2.6 '<target> ... \"KEYSPACE\"'"),
		targetRow("TABLE", "TTTTTT", "v2 §4.2.5.5 '<table> is the name of the affected table'; v3+ §4.2.6 '<target> ... \"TABLE\"'"),
		// v3 §4.2.6: "<target> is a [string] that can be one of \"KEYSPACE\", \"TABLE\" or \"TYPE\"";
		// v3 §10: "now includes changes related to user types".
		targetRow("TYPE", "FTTTTT", "v3 §4.2.6 'can be one of \"KEYSPACE\", \"TABLE\" or \"TYPE\"'; v2 has keyspace/table only"),
		// v4 §4.2.6, v5 §4.2.6, DSE v1/v2 §4.2.6: "can be one of \"KEYSPACE\", \"TABLE\", \"TYPE\", \"FUNCTION\" or \"AGGREGATE\"";
		// v4 §10: "now includes changes related to user defined functions and user defined aggregates".
		targetRow("FUNCTION", "FFTTTT", "v3 §4.2.6 lists KEYSPACE/TABLE/TYPE only; v4 §10 'now includes changes related to user defined functions and user defined aggregates'; v5/DSE §4.2.6 list FUNCTION"),
		targetRow("AGGREGATE", "FFTTTT", "same sentences as FUNCTION"),
		targetRow("INDEX", "FFFFFF", "no spec has such a target (v4 §4.2.5.5: 'a query to create or drop an index is considered to be a change to the table')"),
		// every spec §4.2.6: 'type of change ("NEW_NODE" or "REMOVED_NODE")'
		topologyRow("NEW_NODE", "TTTTTT", "every spec §4.2.6 TOPOLOGY_CHANGE 'type of change (\"NEW_NODE\" ...'", ""),
		topologyRow("REMOVED_NODE", "TTTTTT", "every spec §4.2.6 TOPOLOGY_CHANGE '... \"REMOVED_NODE\"'", ""),
		// v2 §4.2.6: 'type of change ("NEW_NODE" or "REMOVED_NODE")'. v3 §4.2.6: '("NEW_NODE", "REMOVED_NODE", or "MOVED_NODE")'.
		topologyRow("MOVED_NODE", "FTUUUU", "v2 §4.2.6 '(\"NEW_NODE\" or \"REMOVED_NODE\")'; v3 §4.2.6 '(\"NEW_NODE\", \"REMOVED_NODE\", or \"MOVED_NODE\")'",
			"the v4, v5, DSE v1 and DSE v2 texts fell back to '(\"NEW_NODE\" or \"REMOVED_NODE\")' although none of their 'Changes from' sections removes MOVED_NODE; the texts contradict each other, so these cells are not judged"),
		topologyRow("RENAMED_NODE", "FFFFFF", "no spec has such a change type", ""),
		// OSS specs §2.4 have no opcode 0xFF. DSE v1 §4.1.9 CANCEL: "an [int] identifying the operation type: 0x00000001 for
		// \"continuous paging\"". DSE v2 §4.1.9 REVISE_REQUEST: "0x00000001 to cancel a continuous paging session",
		// "0x00000002 to request more pages"; DSE v2 §10.2 "added revision type 2 for updating [next_pages]".
		revisionRow(0, "FFFFFF", "no spec has revision type 0"),
		revisionRow(1, "FFFFTT", "OSS §2.4 has no 0xFF opcode; DSE v1 §4.1.9 '0x00000001 for \"continuous paging\"'; DSE v2 §4.1.9 '0x00000001 to cancel'"),
		revisionRow(2, "FFFFFT", "DSE v1 §4.1.9 has type 1 only; DSE v2 §10.2 'added revision type 2 for updating [next_pages]'"),
		revisionRow(3, "FFFFFF", "no spec has revision type 3"),
		{
			Pred: "SupportsModernFramingLayout", Want: "FFFTFF",
			// v5 §9: "Introduces outer framing format wrapping the \"frames\" of v4 and earlier, which are now referred to as
			//         \"envelopes\" (Sections 2.1, 2.2 and 2.3)". DSE v1 §1 and DSE v2 §1: "The CQL binary protocol is a frame
			//         based protocol. Frames are defined as: ... version flags stream opcode length body" — no outer framing.
			Cite: "v5 §9 'Introduces outer framing format wrapping the \"frames\" of v4 and earlier'; DSE v1/v2 §1 plain frames",
			Call: func(v primitive.ProtocolVersion) bool { return v.SupportsModernFramingLayout() },
		},
		{
			Pred: "SupportsUnsetValues", Want: "FFTTTT",
			// v2 §4.1.4: values are [bytes]; v3 §3 has no [value] notation with -2.
			// v4 §3, v5 §3, DSE v1/v2 §3: "[value] ... If n == -2 no byte should follow and the value represented is `not set`".
			Cite: "v4/v5/DSE §3 '[value] ... If n == -2 ... the value represented is `not set`'; v2/v3 §3 have no such notation",
			Call: func(v primitive.ProtocolVersion) bool { return v.SupportsUnsetValues() },
		},
	}
	// every other single-bit QUERY flag: no spec of any version defines it
	named := map[uint32]bool{0x01: true, 0x02: true, 0x04: true, 0x08: true, 0x10: true, 0x20: true, 0x40: true,
		0x80: true, 0x100: true, 0x40000000: true, 0x80000000: true}
	for b := 0; b < 32; b++ {
		m := uint32(1) << uint(b)
		if !named[m] {
			rows = append(rows, queryFlagRow(m, "FFFFFF", "no spec §4.1.4 defines this bit"))
		}
	}
	return rows
}

// Version-dependent Check* functions: where the specs decide, a declared value must be accepted in
// exactly these versions (same sentences as the rows above).
var specSchemaTargets = map[string]string{
	"KEYSPACE": "TTTTTT", "TABLE": "TTTTTT", "TYPE": "FTTTTT", "FUNCTION": "FFTTTT", "AGGREGATE": "FFTTTT",
}
var specTopologyTypes = map[string]string{
	"NEW_NODE": "TTTTTT", "REMOVED_NODE": "TTTTTT", "MOVED_NODE": "FTUUUU",
}
var specRevisionTypes = map[uint64]string{1: "FFFFTT", 2: "FFFFFT"}

// Opcode directions: spec section 4.1 "Requests" / 4.2 "Responses" (same in every version);
// 0xFF: DSE v1 §4.1.9 CANCEL / DSE v2 §4.1.9 REVISE_REQUEST, a request.
var specOpcodeIsRequest = map[uint8]bool{
	0x00: false, // 4.2.1 ERROR
	0x01: true,  // 4.1.1 STARTUP
	0x02: false, // 4.2.2 READY
	0x03: false, // 4.2.3 AUTHENTICATE
	0x05: true,  // 4.1.3 OPTIONS
	0x06: false, // 4.2.4 SUPPORTED
	0x07: true,  // 4.1.4 QUERY
	0x08: false, // 4.2.5 RESULT
	0x09: true,  // 4.1.5 PREPARE
	0x0A: true,  // 4.1.6 EXECUTE
	0x0B: true,  // 4.1.8 REGISTER
	0x0C: false, // 4.2.6 EVENT
	0x0D: true,  // 4.1.7 BATCH
	0x0E: false, // 4.2.7 AUTH_CHALLENGE
	0x0F: true,  // 4.1.2 AUTH_RESPONSE
	0x10: false, // 4.2.8 AUTH_SUCCESS
	0xFF: true,  // DSE 4.1.9 CANCEL / REVISE_REQUEST
}

// Spec codes that the library does not declare. C19 asks nothing about them (it quantifies over
// what the library declares); they are listed in the evidence so that the gap is visible.
var specCodesNotJudged = []string{
	"ErrorCode 0x1600 CDC_WRITE_FAILURE (native_protocol_v5.spec §8)",
	"ErrorCode 0x1700 CAS_WRITE_UNKNOWN (native_protocol_v5.spec §8)",
	"ErrorCode 0x8000 Client_write_failure (dse_protocol_v1.spec §9, dse_protocol_v2.spec §9)",
}
