package main

// Oracle (e), last step: the slices of versions the library hands out must be the caller's own.
// IsSupported, CheckSupportedProtocolVersion and every Supported*ProtocolVersions helper iterate over
// SupportedProtocolVersions(); if that (or any other helper) returns shared state, a caller that
// sorts / filters / overwrites the returned slice in place makes declared versions rejected afterwards.
// For every exported function returning a []ProtocolVersion: take the result, overwrite every element
// with 0xEE, truncate it and append into its backing array, then re-run the versions oracle. On a
// correct tree each call builds a fresh slice, so this step cannot disturb anything; it runs last.

import (
	"fmt"

	p "github.com/datastax/go-cassandra-native-protocol/primitive"
)

// versionsDiscrepancies is the versions oracle in quiet form: what differs from
// "exactly {2,3,4,5,0x41,0x42} are supported and the lists match their predicates".
func versionsDiscrepancies() []string {
	want := map[uint8]bool{2: true, 3: true, 4: true, 5: true, 0x41: true, 0x42: true}
	var out []string
	for b := 0; b < 256; b++ {
		v := p.ProtocolVersion(b)
		if v.IsSupported() != want[uint8(b)] {
			out = append(out, fmt.Sprintf("IsSupported(%s)=%v", hexN(uint64(b), 8), v.IsSupported()))
		}
		if (p.CheckSupportedProtocolVersion(v) == nil) != want[uint8(b)] {
			out = append(out, fmt.Sprintf("CheckSupportedProtocolVersion(%s) accepts=%v", hexN(uint64(b), 8), !want[uint8(b)]))
		}
	}
	expect := func(name string, got []p.ProtocolVersion, members ...uint8) {
		m := map[uint8]int{}
		for _, v := range got {
			m[uint8(v)]++
		}
		ok := len(got) == len(members)
		for _, x := range members {
			if m[x] != 1 {
				ok = false
			}
		}
		if !ok {
			out = append(out, fmt.Sprintf("%s() = %v", name, got))
		}
	}
	expect("SupportedProtocolVersions", p.SupportedProtocolVersions(), 2, 3, 4, 5, 0x41, 0x42)
	expect("SupportedOssProtocolVersions", p.SupportedOssProtocolVersions(), 2, 3, 4, 5)
	expect("SupportedDseProtocolVersions", p.SupportedDseProtocolVersions(), 0x41, 0x42)
	expect("SupportedBetaProtocolVersions", p.SupportedBetaProtocolVersions())
	expect("SupportedNonBetaProtocolVersions", p.SupportedNonBetaProtocolVersions(), 2, 3, 4, 5, 0x41, 0x42)
	return out
}

func (k *checker) checkReturnedSlices() {
	c := k.c
	if d := versionsDiscrepancies(); len(d) > 0 {
		// already wrong before anything was touched: reported by the plain versions oracle
		c.Count("returned_slice_step_skipped_versions_already_inconsistent", 1)
		return
	}
	funcs := []struct {
		name string
		call func() []p.ProtocolVersion
	}{
		{"SupportedOssProtocolVersions", p.SupportedOssProtocolVersions},
		{"SupportedDseProtocolVersions", p.SupportedDseProtocolVersions},
		{"SupportedBetaProtocolVersions", p.SupportedBetaProtocolVersions},
		{"SupportedNonBetaProtocolVersions", p.SupportedNonBetaProtocolVersions},
		{"SupportedProtocolVersionsGreaterThanOrEqualTo", func() []p.ProtocolVersion { return p.SupportedProtocolVersionsGreaterThanOrEqualTo(0) }},
		{"SupportedProtocolVersionsGreaterThan", func() []p.ProtocolVersion { return p.SupportedProtocolVersionsGreaterThan(0) }},
		{"SupportedProtocolVersionsLesserThanOrEqualTo", func() []p.ProtocolVersion { return p.SupportedProtocolVersionsLesserThanOrEqualTo(0xFF) }},
		{"SupportedProtocolVersionsLesserThan", func() []p.ProtocolVersion { return p.SupportedProtocolVersionsLesserThan(0xFF) }},
		{"SupportedProtocolVersions", p.SupportedProtocolVersions},
	}
	examined := 0
	for _, f := range funcs {
		s := f.call()
		before := fmt.Sprint(s)
		full := s[:cap(s)]
		for i := range full {
			full[i] = 0xEE // overwrite in place, including the spare capacity
		}
		s = s[:0] // filter-in-place idiom
		for i := 0; i < cap(full); i++ {
			s = append(s, 0xEE)
		}
		examined++
		c.Eval(1)
		c.Distinct("returned-slice/" + f.name)
		if d := versionsDiscrepancies(); len(d) > 0 {
			if len(d) > 12 {
				d = append(d[:12], fmt.Sprintf("... %d more", len(d)-12))
			}
			k.viol("ProtocolVersion/"+f.name+"/returned-slice-shared", map[string]interface{}{
				"function": f.name, "returned": before, "tampering": "every element (and the spare capacity) overwritten with 0xEE, truncated to [:0], re-appended",
				"afterwards": d,
				"problem":    "the slice returned to the caller is shared library state: modifying it in place changes which protocol versions the library supports",
			})
			c.Count("returned_slice_functions_not_examined_after_damage", int64(len(funcs)-examined))
			break // the library's state is damaged from here on
		}
	}
	c.Count("returned_slice_functions_examined", int64(examined))
}
