// C19 — declared constants and validity checks agree; capability tables match the specs.
//
// At run time the check parses <repo>/primitive/constants.go, builds the registry of declared
// typed constants and drives the library's own predicates (IsValid, Check*, String, IsRequest,
// IsResponse, Supports*, Uses*, the message codecs' switches) over the declared values and over
// the complete (8/16/32-bit) or hostile (string) domains of undeclared values. The capability
// predicates are compared with a table transcribed by hand from the spec files (spectable.go).
package main

import (
	"fmt"
	"sort"
	"strings"
	"sync"

	"verif/internal/mon"

	p "github.com/datastax/go-cassandra-native-protocol/primitive"
)

func main() { mon.Main("C19", run) }

type finding struct {
	entry     constEntry
	validFail bool
	checkFail []string // "CheckValidWriteType: invalid write type: CAS"
	codecFail []string
	observed  map[string]interface{}
}

type checker struct {
	c         *mon.Ctx
	reg       *registry
	replayKey string

	mu        sync.Mutex
	findings  map[string]*finding // by type/name
	forder    []string
	undeclCap map[string]int
	perType   map[string]map[string]interface{}
}

const undeclaredKeysPerType = 6

func (k *checker) viol(key string, detail map[string]interface{}) {
	if k.replayKey != "" && key != k.replayKey {
		return
	}
	detail["key"] = key
	detail["seed"] = k.c.Seed
	k.c.Violation(key, detail)
}

// undeclared-value acceptances: one key per value, capped per type so that a predicate that
// accepts everything does not produce 2^32 keys.
func (k *checker) violUndeclared(typ, what, valueText string, detail map[string]interface{}) {
	k.mu.Lock()
	n := k.undeclCap[typ]
	k.undeclCap[typ] = n + 1
	k.mu.Unlock()
	key := fmt.Sprintf("%s/undeclared=%s/%s-accepts", typ, valueText, what)
	if n >= undeclaredKeysPerType {
		key = fmt.Sprintf("%s/undeclared/more", typ)
	}
	k.viol(key, detail)
}

func (k *checker) finding(e constEntry) *finding {
	id := e.Type + "/" + e.Name
	k.mu.Lock()
	defer k.mu.Unlock()
	f := k.findings[id]
	if f == nil {
		f = &finding{entry: e, observed: map[string]interface{}{}}
		k.findings[id] = f
		k.forder = append(k.forder, id)
	}
	return f
}

func (k *checker) typeEvidence(typ string) map[string]interface{} {
	k.mu.Lock()
	defer k.mu.Unlock()
	m := k.perType[typ]
	if m == nil {
		m = map[string]interface{}{}
		k.perType[typ] = m
	}
	return m
}

func (k *checker) setTypeEvidence(typ, key string, v interface{}) {
	m := k.typeEvidence(typ)
	k.mu.Lock()
	m[key] = v
	k.mu.Unlock()
}

func run(c *mon.Ctx) {
	c.Rule = "cases are enumerated, not sampled: (1) every typed constant found by parsing primitive/constants.go at run time " +
		"(one case per constant: IsValid, Check*, String, codec arm); (2) every undeclared value of each code type's domain " +
		"(all 2^8 / 2^16 values; 32-bit types: 2^16 low values, all 1- and 2-bit patterns, neighbours, shifted/sign-extended declared " +
		"values, PRNG(seed) values in the quick tier and all 2^32 values in the thorough tier; string enums: case variants, prefixes, " +
		"suffixes, padded, doubled, empty and PRNG(seed,index) mutations); (3) every (version 0..255, predicate, argument) triple of the " +
		"capability predicates, judged against the hand-transcribed spec table for the 6 supported versions. A case is distinct by " +
		"(type, value) / (predicate, argument, version); all of them reach real library code."
	c.Assume("the Go type checker (go/types) evaluates the constant expressions of primitive/constants.go as the compiler does")
	c.Assume("the capability table in cmd/c19/spectable.go is a faithful transcription of /repo/specs/*.spec (each row cites its sentences); cells the texts leave open are counted as unjudged, not judged")
	c.Assume("the dispatch table in cmd/c19/dispatch.go names the right library predicate for each code type")

	k := &checker{c: c, findings: map[string]*finding{}, undeclCap: map[string]int{}, perType: map[string]map[string]interface{}{}}
	if c.Replay != "" {
		var d struct {
			Key  string `json:"key"`
			Seed *int64 `json:"seed"`
		}
		if err := c.ReplayDetail(&d); err != nil || d.Key == "" {
			c.Fatal("cannot read replay file %s: %v", c.Replay, err)
		}
		k.replayKey = d.Key
		if d.Seed != nil {
			c.Seed = *d.Seed // the PRNG string / value probes are functions of (seed, index)
		}
		c.Note("replay: re-running the deterministic enumeration, reporting only key %s", d.Key)
	}

	reg, err := loadRegistry(mon.RepoDir())
	if err != nil {
		c.Fatal("cannot build the constant registry from %s: %v", mon.RepoDir(), err)
	}
	k.reg = reg
	total := 0
	for _, tn := range reg.Order {
		total += len(reg.Types[tn].Consts)
	}
	if total < 20 {
		c.Fatal("only %d typed constants found in %s: the parser is not seeing the file", total, reg.File)
	}
	c.Set("source_file", reg.File)
	c.Set("declared_constants_total", total)
	c.Set("untyped_constants_ignored", reg.Untyped)
	for _, s := range reg.Skipped {
		c.Inconclusive("constant " + s + " could not be evaluated")
	}

	// classify the types found in the source
	var unknown []string
	for _, tn := range reg.Order {
		ti := reg.Types[tn]
		_, isInt := intTypes[tn]
		_, isStr := strTypes[tn]
		_, isFlag := flagTypes[tn]
		known := isInt || isStr || isFlag
		interesting := len(ti.Consts) > 0 || ti.Methods["IsValid"]
		if !known && interesting {
			unknown = append(unknown, tn)
			c.Inconclusive("code type " + tn + " is declared in the source but unknown to the dispatch table of this check")
			continue
		}
		if !known {
			continue
		}
		// the dispatch table must agree with the source about the shape of the type
		switch {
		case isInt && ti.bits() != intTypes[tn].bits,
			isFlag && ti.bits() != flagTypes[tn].bits,
			isStr && ti.Underlying != "string":
			c.Inconclusive("type " + tn + ": underlying type " + ti.Underlying + " differs from what this check was written for")
		case isInt && !isFlag && tn != "ProtocolVersion" && !ti.Methods["IsValid"],
			isStr && !ti.Methods["IsValid"]:
			c.Inconclusive("type " + tn + " has no IsValid method in the source any more")
		case isFlag && !ti.isFlagType():
			c.Inconclusive("type " + tn + " is no longer a flag type (Add/Remove/Contains) in the source")
		case isInt && (intTypes[tn].str != nil) != ti.Methods["String"]:
			c.Inconclusive("type " + tn + ": String() presence differs between source and dispatch table")
		case isStr && ti.Methods["String"]:
			c.Inconclusive("type " + tn + " gained a String() method the dispatch table does not call")
		}
	}
	c.Set("unknown_code_types", unknown)

	k.checkDeclared()       // (a) (b)
	k.checkCodecs()         // (d) codec arms, round trips of declared codes through message codecs
	k.emitDeclared()        // verdicts on declared constants, consequences folded into the root cause
	k.checkUndeclaredInt()  // (c) numeric domains
	k.checkUndeclaredStr()  // (c) string enums
	k.checkOpcodes()        // (d)
	k.checkVersions()       // (e)
	k.checkFlags()          // (f)
	k.checkCapabilities()   // (g)
	k.checkReturnedSlices() // (e) last: it tampers with what the library hands out

	c.Set("per_type", k.perType)
	c.Set("spec_codes_not_declared_not_judged", specCodesNotJudged)
}

// -------------------------------------------------------------------------------------------------
// (a) (b): declared constants

func cellsFor(typ string, e constEntry) (string, bool) {
	switch typ {
	case "SchemaChangeTarget":
		s, ok := specSchemaTargets[e.S]
		return s, ok
	case "TopologyChangeType":
		s, ok := specTopologyTypes[e.S]
		return s, ok
	case "DseRevisionType":
		s, ok := specRevisionTypes[e.U]
		return s, ok
	}
	return "", false
}

func (k *checker) checkDeclared() {
	c := k.c
	for _, tn := range k.reg.Order {
		ti := k.reg.Types[tn]
		iops := intTypes[tn]
		sops := strTypes[tn]
		if iops == nil && sops == nil {
			continue
		}
		ev := k.typeEvidence(tn)
		k.mu.Lock()
		ev["declared"] = len(ti.Consts)
		ev["underlying"] = ti.Underlying
		if iops != nil {
			ev["validity_predicate"] = iops.validName
			ev["check_function"] = iops.checkName
			ev["has_string"] = iops.str != nil
		} else {
			ev["validity_predicate"] = "IsValid"
			ev["check_function"] = sops.checkName
			ev["has_string"] = false
		}
		k.mu.Unlock()

		printed := map[string]constEntry{}
		var printedList []printedConst
		for _, e := range ti.Consts {
			e := e
			f := k.finding(e)
			c.Distinct("decl/" + tn + "/" + e.Name)
			// IsValid
			var valid bool
			var check func(ver p.ProtocolVersion) error
			var checkName string
			var versioned bool
			if iops != nil {
				if e.IsStr {
					c.Inconclusive("constant " + e.Name + " is a string but type " + tn + " is numeric in the dispatch table")
					continue
				}
				valid = iops.isValid(e.U)
				if iops.check != nil {
					check = func(ver p.ProtocolVersion) error { return iops.check(e.U, ver) }
				}
				checkName, versioned = iops.checkName, iops.versioned
			} else {
				if !e.IsStr {
					c.Inconclusive("constant " + e.Name + " is numeric but type " + tn + " is a string enum in the dispatch table")
					continue
				}
				valid = sops.isValid(e.S)
				if sops.check != nil {
					check = func(ver p.ProtocolVersion) error { return sops.check(e.S, ver) }
				}
				checkName, versioned = sops.checkName, sops.versioned
			}
			c.Eval(1)
			f.observed["IsValid"] = valid
			if !valid {
				f.validFail = true
			}
			// Check*
			if check != nil {
				if !versioned {
					err := check(p.ProtocolVersion4)
					c.Eval(1)
					if err != nil {
						f.checkFail = append(f.checkFail, checkName+": "+err.Error())
					}
				} else {
					cells, judged := cellsFor(tn, e)
					accepted := ""
					any := false
					for i, ver := range specVersions {
						err := check(ver)
						c.Eval(1)
						if err == nil {
							accepted += "T"
							any = true
						} else {
							accepted += "F"
						}
						if judged && cells[i] != 'U' {
							want := cells[i] == 'T'
							if want != (err == nil) {
								f.checkFail = append(f.checkFail, fmt.Sprintf("%s(%s, %s): spec says accepted=%v, library returned %v",
									checkName, e.valueText(), specVersionNames[i], want, err))
							}
						} else if judged {
							c.Count("check_cells_unjudged", 1)
						}
					}
					f.observed[checkName+"(v2,v3,v4,v5,DSEv1,DSEv2)"] = accepted
					if !judged && !any {
						f.checkFail = append(f.checkFail, checkName+": rejected for every supported protocol version")
					}
				}
			}
			// String
			if iops != nil && iops.str != nil {
				var s string
				if panicked, val := mon.Guard(func() { s = iops.str(e.U) }); panicked {
					k.viol(tn+"/"+e.label()+"/String-panics", map[string]interface{}{"type": tn, "const": e, "panic": val})
					continue
				}
				c.Eval(1)
				f.observed["String"] = s
				printedList = append(printedList, printedConst{e, s})
				if strings.Contains(s, "?") {
					k.viol(tn+"/"+e.label()+"/String", map[string]interface{}{
						"type": tn, "const": e, "printed": s, "problem": "declared constant prints with the '?' fallback name",
					})
				} else if other, dup := printed[s]; dup && other.U != e.U {
					k.viol(tn+"/"+e.label()+"/String", map[string]interface{}{
						"type": tn, "const": e, "printed": s, "same_as": other, "problem": "two different declared values print the same name",
					})
				} else {
					printed[s] = e
				}
			}
			if c.WantSample() && (!valid || e.Name == "OpCodeQuery" || e.Name == "SchemaChangeTargetFunction") {
				c.Sample(map[string]interface{}{"kind": "declared", "type": tn, "const": e.Name, "value": e.valueText(), "observed": f.observed})
			}
		}
		if len(printedList) > 0 {
			k.checkNameParts(tn, printedList)
		}
	}
}

func (k *checker) emitDeclared() {
	for _, id := range k.forder {
		f := k.findings[id]
		e := f.entry
		base := e.Type + "/" + e.label()
		switch {
		case f.validFail:
			// root cause: the validity switch lacks the constant. What follows from it (Check*, codec) is
			// attached as consequences, not reported under keys of its own.
			k.viol(base+"/IsValid", map[string]interface{}{
				"type": e.Type, "const": e, "problem": "declared constant is rejected by the library's own validity predicate",
				"consequences_check": f.checkFail, "consequences_codec": f.codecFail, "observed": f.observed,
				"source": fmt.Sprintf("%s:%d", k.reg.File, e.Line),
			})
		default:
			if len(f.checkFail) > 0 {
				k.viol(base+"/Check", map[string]interface{}{
					"type": e.Type, "const": e, "problem": "IsValid accepts the declared constant but the Check* helper disagrees with the specs",
					"failures": f.checkFail, "observed": f.observed,
				})
			}
			if len(f.codecFail) > 0 {
				k.viol(base+"/codec", map[string]interface{}{
					"type": e.Type, "const": e, "problem": "declared constant is valid but the message codec has no working arm for it",
					"failures": f.codecFail, "observed": f.observed,
				})
			}
		}
	}
}

// -------------------------------------------------------------------------------------------------
// (d) opcodes

func (k *checker) checkOpcodes() {
	c := k.c
	judgedDir := 0
	for o := 0; o < 256; o++ {
		oc := p.OpCode(o)
		valid, req, resp := oc.IsValid(), oc.IsRequest(), oc.IsResponse()
		c.Eval(3)
		c.Distinct(fmt.Sprintf("opcode/%d/%v%v%v", o, valid, req, resp))
		det := map[string]interface{}{"opcode": hexN(uint64(o), 8), "IsValid": valid, "IsRequest": req, "IsResponse": resp}
		if valid && req == resp {
			det["problem"] = "a valid opcode must be exactly one of request / response"
			k.viol(fmt.Sprintf("OpCode/%s/request-xor-response", hexN(uint64(o), 8)), det)
		}
		if !valid && (req || resp) {
			det["problem"] = "an invalid opcode is classified as request or response"
			k.viol(fmt.Sprintf("OpCode/%s/invalid-but-classified", hexN(uint64(o), 8)), det)
		}
		if (p.CheckRequestOpCode(oc) == nil) != req || (p.CheckResponseOpCode(oc) == nil) != resp {
			det["problem"] = "CheckRequestOpCode/CheckResponseOpCode disagree with IsRequest/IsResponse"
			k.viol(fmt.Sprintf("OpCode/%s/CheckDirection", hexN(uint64(o), 8)), det)
		}
		c.Eval(2)
		if want, ok := specOpcodeIsRequest[uint8(o)]; ok && valid && req != resp {
			judgedDir++
			if want != req {
				det["problem"] = fmt.Sprintf("specs (section 4.1 Requests / 4.2 Responses) say request=%v", want)
				k.viol(fmt.Sprintf("OpCode/%s/direction", hexN(uint64(o), 8)), det)
			}
		}
	}
	c.Count("opcodes_checked", 256)
	c.Count("opcode_directions_judged_against_spec", int64(judgedDir))
}

// -------------------------------------------------------------------------------------------------
// (e) versions

func (k *checker) checkVersions() {
	c := k.c
	want := map[uint8]string{2: "oss", 3: "oss", 4: "oss", 5: "oss", 0x41: "dse", 0x42: "dse"}
	nSupported := 0
	for b := 0; b < 256; b++ {
		v := p.ProtocolVersion(b)
		var sup, oss, dse, beta bool
		var s string
		if panicked, val := mon.Guard(func() {
			sup, oss, dse, beta = v.IsSupported(), v.IsOss(), v.IsDse(), v.IsBeta()
			s = v.String()
		}); panicked {
			k.viol(fmt.Sprintf("ProtocolVersion/%s/panic", hexN(uint64(b), 8)), map[string]interface{}{"version": b, "panic": val})
			continue
		}
		c.Eval(5)
		c.Distinct(fmt.Sprintf("version/%d", b))
		kind, shouldBe := want[uint8(b)]
		det := map[string]interface{}{"version": hexN(uint64(b), 8), "IsSupported": sup, "IsOss": oss, "IsDse": dse, "IsBeta": beta, "String": s}
		if sup != shouldBe {
			det["problem"] = "exactly {2,3,4,5,0x41,0x42} are the supported versions (spec files v2..v5, DSE v1, DSE v2)"
			k.viol(fmt.Sprintf("ProtocolVersion/%s/IsSupported", hexN(uint64(b), 8)), det)
		}
		if (p.CheckSupportedProtocolVersion(v) == nil) != sup {
			det["problem"] = "CheckSupportedProtocolVersion disagrees with IsSupported"
			k.viol(fmt.Sprintf("ProtocolVersion/%s/CheckSupported", hexN(uint64(b), 8)), det)
		}
		if (p.CheckDseProtocolVersion(v) == nil) != dse {
			det["problem"] = "CheckDseProtocolVersion disagrees with IsDse"
			k.viol(fmt.Sprintf("ProtocolVersion/%s/CheckDse", hexN(uint64(b), 8)), det)
		}
		c.Eval(2)
		if sup {
			nSupported++
			if oss == dse {
				det["problem"] = "IsOss / IsDse must partition the supported versions"
				k.viol(fmt.Sprintf("ProtocolVersion/%s/oss-xor-dse", hexN(uint64(b), 8)), det)
			} else if shouldBe && (kind == "dse") != dse {
				det["problem"] = "DSE versions are the ones with the 0x40 bit (DSE spec section 2.1), OSS the others"
				k.viol(fmt.Sprintf("ProtocolVersion/%s/family", hexN(uint64(b), 8)), det)
			}
			if beta {
				det["problem"] = "no supported version is a beta version"
				k.viol(fmt.Sprintf("ProtocolVersion/%s/IsBeta", hexN(uint64(b), 8)), det)
			}
		} else {
			if oss || dse {
				c.Count("unsupported_versions_claimed_oss_or_dse_not_judged", 1)
			}
		}
	}
	c.Count("versions_checked", 256)
	c.Count("versions_supported", int64(nSupported))

	// the lists of primitive/util.go
	setOf := func(l []p.ProtocolVersion) (map[p.ProtocolVersion]int, bool) {
		m := map[p.ProtocolVersion]int{}
		dup := false
		for _, v := range l {
			m[v]++
			if m[v] > 1 {
				dup = true
			}
		}
		return m, dup
	}
	lists := map[string][]p.ProtocolVersion{
		"SupportedProtocolVersions":        p.SupportedProtocolVersions(),
		"SupportedOssProtocolVersions":     p.SupportedOssProtocolVersions(),
		"SupportedDseProtocolVersions":     p.SupportedDseProtocolVersions(),
		"SupportedBetaProtocolVersions":    p.SupportedBetaProtocolVersions(),
		"SupportedNonBetaProtocolVersions": p.SupportedNonBetaProtocolVersions(),
	}
	pred := map[string]func(v p.ProtocolVersion) bool{
		"SupportedProtocolVersions":        func(v p.ProtocolVersion) bool { return v.IsSupported() },
		"SupportedOssProtocolVersions":     func(v p.ProtocolVersion) bool { return v.IsSupported() && v.IsOss() },
		"SupportedDseProtocolVersions":     func(v p.ProtocolVersion) bool { return v.IsSupported() && v.IsDse() },
		"SupportedBetaProtocolVersions":    func(v p.ProtocolVersion) bool { return v.IsSupported() && v.IsBeta() },
		"SupportedNonBetaProtocolVersions": func(v p.ProtocolVersion) bool { return v.IsSupported() && !v.IsBeta() },
	}
	names := make([]string, 0, len(lists))
	for n := range lists {
		names = append(names, n)
	}
	sort.Strings(names)
	for _, n := range names {
		m, dup := setOf(lists[n])
		c.Eval(1)
		c.Distinct("list/" + n)
		var diff []string
		for b := 0; b < 256; b++ {
			v := p.ProtocolVersion(b)
			if (m[v] > 0) != pred[n](v) {
				diff = append(diff, hexN(uint64(b), 8))
			}
		}
		if dup || len(diff) > 0 {
			k.viol("ProtocolVersion/list/"+n, map[string]interface{}{
				"list": fmt.Sprint(lists[n]), "duplicates": dup, "differs_from_predicate_at": diff,
				"problem": n + "() is not the set of versions its predicate accepts",
			})
		}
	}
	// range helpers: consistent with the plain numeric filter they document
	for b := 0; b < 256; b++ {
		pivot := p.ProtocolVersion(b)
		type rng struct {
			name string
			got  []p.ProtocolVersion
			keep func(v p.ProtocolVersion) bool
		}
		for _, r := range []rng{
			{"GreaterThanOrEqualTo", p.SupportedProtocolVersionsGreaterThanOrEqualTo(pivot), func(v p.ProtocolVersion) bool { return v >= pivot }},
			{"GreaterThan", p.SupportedProtocolVersionsGreaterThan(pivot), func(v p.ProtocolVersion) bool { return v > pivot }},
			{"LesserThanOrEqualTo", p.SupportedProtocolVersionsLesserThanOrEqualTo(pivot), func(v p.ProtocolVersion) bool { return v <= pivot }},
			{"LesserThan", p.SupportedProtocolVersionsLesserThan(pivot), func(v p.ProtocolVersion) bool { return v < pivot }},
		} {
			c.Eval(1)
			m, _ := setOf(r.got)
			for _, v := range p.SupportedProtocolVersions() {
				if (m[v] > 0) != r.keep(v) {
					c.Count("range_helper_mismatch_not_judged", 1)
				}
			}
			for v := range m {
				if !v.IsSupported() {
					k.viol("ProtocolVersion/list/"+r.name+"/unsupported-member", map[string]interface{}{
						"pivot": b, "member": uint8(v), "problem": "a SupportedProtocolVersions* helper returned an unsupported version",
					})
				}
			}
		}
	}
}

// -------------------------------------------------------------------------------------------------
// (f) flag types

func (k *checker) checkFlags() {
	c := k.c
	for _, tn := range k.reg.Order {
		ops := flagTypes[tn]
		if ops == nil {
			continue
		}
		ti := k.reg.Types[tn]
		ev := k.typeEvidence(tn)
		k.mu.Lock()
		ev["declared"] = len(ti.Consts)
		ev["underlying"] = ti.Underlying
		ev["flag_type"] = true
		ev["has_string"] = true
		k.mu.Unlock()
		seen := map[uint64]constEntry{}
		printed := map[string]constEntry{}
		var printedList []printedConst
		var all uint64
		for _, e := range ti.Consts {
			c.Distinct("flag/" + tn + "/" + e.Name)
			c.Eval(1)
			det := map[string]interface{}{"type": tn, "const": e}
			if e.IsStr {
				c.Inconclusive("flag constant " + e.Name + " is not numeric")
				continue
			}
			if e.U == 0 || e.U&(e.U-1) != 0 || e.U >= 1<<uint(ops.bits) {
				det["problem"] = "a declared flag must be a single bit of the flag word"
				k.viol(tn+"/"+e.Name+"/single-bit", det)
			}
			if other, dup := seen[e.U]; dup {
				det["problem"] = "two declared flags share a bit"
				det["same_as"] = other
				k.viol(tn+"/"+e.Name+"/distinct", det)
			}
			seen[e.U] = e
			all |= e.U
			var s string
			if panicked, val := mon.Guard(func() { s = ops.str(e.U) }); panicked {
				det["panic"] = val
				k.viol(tn+"/"+e.Name+"/String-panics", det)
				continue
			}
			c.Eval(1)
			if strings.Contains(s, "?") {
				det["printed"] = s
				det["problem"] = "declared flag prints with the '?' fallback name"
				k.viol(tn+"/"+e.Name+"/String", det)
			} else if other, dup := printed[s]; dup && other.U != e.U {
				det["printed"] = s
				det["same_as"] = other
				det["problem"] = "two different declared flags print the same name"
				k.viol(tn+"/"+e.Name+"/String", det)
			}
			printed[s] = e
			printedList = append(printedList, printedConst{e, s})
			// Add / Remove / Contains on the real methods: observed and counted, not judged (the
			// property speaks about the declared constants, not about the set algebra)
			for _, o := range ti.Consts {
				with := ops.add(0, e.U)
				c.Eval(3)
				if ops.contains(with, o.U) != (o.U&e.U != 0) || ops.remove(with, e.U) != 0 || ops.remove(all, e.U)&e.U != 0 {
					c.Count("flag_algebra_mismatch_not_judged", 1)
				}
			}
		}
		k.checkNameParts(tn, printedList)
		k.mu.Lock()
		ev["union_of_declared_bits"] = hexN(all, ops.bits)
		k.mu.Unlock()
	}
}

// -------------------------------------------------------------------------------------------------
// (g) capability predicates

func capKey(pred, arg, what string) string {
	if arg == "" {
		return "cap/" + pred + "/" + what
	}
	return "cap/" + pred + "/" + keySafe(arg) + "/" + what
}

func (k *checker) checkCapabilities() {
	c := k.c
	rows := capabilityTable()
	judged, unjudged := 0, 0
	v1cells := 0
	var unjudgedList []string
	covered := map[string]bool{} // "Pred/arg" rows present
	for _, r := range rows {
		r := r
		covered[r.Pred+"/"+r.Arg] = true
		name := r.Pred
		if r.Arg != "" {
			name += "(" + r.Arg + ")"
		}
		// every one of the 256 version numbers: must not panic (the value is judged only for the supported ones)
		got := make([]interface{}, 256)
		for b := 0; b < 256; b++ {
			v := p.ProtocolVersion(b)
			panicked, val := mon.Guard(func() {
				if r.CallI != nil {
					got[b] = r.CallI(v)
				} else {
					got[b] = r.Call(v)
				}
			})
			c.Eval(1)
			if panicked {
				k.viol(capKey(r.Pred, r.Arg, "panic"), map[string]interface{}{
					"predicate": name, "version": hexN(uint64(b), 8), "panic": val,
				})
			}
		}
		c.Count("capability_calls_all_256_versions", 256)
		// native_protocol_v1.spec is one of the repository's specifications too, and its QUERY has no <flags>
		// at all (§4.1.4: "The body of the message consists of a CQL query as a [long string] followed by the
		// [consistency] for the operation"): no query flag exists in version 1.
		if r.Pred == "SupportsQueryFlag" {
			c.Distinct(fmt.Sprintf("cap/%s/%s/v1", r.Pred, r.Arg))
			if g := got[1]; g != nil {
				v1cells++
				if g != false {
					k.viol(capKey(r.Pred, r.Arg, "v1"), map[string]interface{}{
						"predicate": name, "version": "v1", "version_byte": "0x01", "spec_says": false, "library_says": g,
						"spec": "v1 §4.1.4 QUERY: 'a CQL query as a [long string] followed by the [consistency]' — no flags byte",
					})
				}
			}
		}
		for i, v := range specVersions {
			sig := fmt.Sprintf("cap/%s/%s/%s", r.Pred, r.Arg, specVersionNames[i])
			c.Distinct(sig)
			g := got[uint8(v)]
			if g == nil {
				continue // panicked, already reported
			}
			var want interface{}
			if r.CallI != nil {
				want = r.WantI[i]
			} else {
				if r.Want[i] == 'U' {
					unjudged++
					unjudgedList = append(unjudgedList, fmt.Sprintf("%s @ %s: library says %v; not judged: %s", name, specVersionNames[i], g, r.WhyU))
					continue
				}
				want = r.Want[i] == 'T'
			}
			judged++
			if g != want {
				k.viol(capKey(r.Pred, r.Arg, specVersionNames[i]), map[string]interface{}{
					"predicate": name, "version": specVersionNames[i], "version_byte": hexN(uint64(v), 8),
					"spec_says": want, "library_says": g, "spec": r.Cite,
				})
			}
			if c.WantSample() && i == 4 && (r.Pred == "SupportsPrepareFlags" || r.Pred == "Uses4BytesQueryFlags" || r.Pred == "SupportsReadWriteFailureReasonMap") {
				c.Sample(map[string]interface{}{"kind": "capability", "predicate": name, "version": specVersionNames[i], "spec_says": want, "library_says": g, "spec": r.Cite})
			}
		}
	}
	c.Set("capability_table_v1_query_flag_cells_judged", v1cells)
	c.Set("capability_table", map[string]interface{}{
		"rows": len(rows), "cells": len(rows) * len(specVersions), "cells_judged": judged, "cells_unjudged": unjudged,
		"unjudged": unjudgedList, "versions": specVersionNames,
	})

	// declared constants that are arguments of a capability predicate must have a row
	argTypes := map[string]string{"QueryFlag": "SupportsQueryFlag", "Compression": "SupportsCompression",
		"SchemaChangeTarget": "SupportsSchemaChangeTarget", "TopologyChangeType": "SupportsTopologyChangeType",
		"DseRevisionType": "SupportsDseRevisionType"}
	for tn, pred := range argTypes {
		ti := k.reg.Types[tn]
		if ti == nil {
			continue
		}
		for _, e := range ti.Consts {
			arg := e.S
			if !e.IsStr {
				arg = hex32(uint32(e.U))
			}
			if !covered[pred+"/"+arg] {
				c.Inconclusive(fmt.Sprintf("declared %s %s has no row in the transcribed capability table for %s", tn, e.Name, pred))
			}
		}
	}

	// the version-taking Check* helpers must not panic either, for any version byte
	probeStr := map[string][]string{}
	for tn, ops := range strTypes {
		if !ops.versioned {
			continue
		}
		if ti := k.reg.Types[tn]; ti != nil {
			for _, e := range ti.Consts {
				probeStr[tn] = append(probeStr[tn], e.S)
			}
		}
		probeStr[tn] = append(probeStr[tn], "", "FOO")
	}
	for tn, vals := range probeStr {
		ops := strTypes[tn]
		for _, s := range vals {
			for b := 0; b < 256; b++ {
				if panicked, val := mon.Guard(func() { _ = ops.check(s, p.ProtocolVersion(b)) }); panicked {
					k.viol(fmt.Sprintf("cap/%s/%s/panic", ops.checkName, keySafe(s)), map[string]interface{}{"value": s, "version": b, "panic": val})
				}
				c.Eval(1)
			}
		}
	}
	for tn, ops := range intTypes {
		if !ops.versioned {
			continue
		}
		vals := []uint64{0, 3, 0xFFFF}
		if ti := k.reg.Types[tn]; ti != nil {
			for _, e := range ti.Consts {
				vals = append(vals, e.U)
			}
		}
		for _, u := range vals {
			for b := 0; b < 256; b++ {
				if panicked, val := mon.Guard(func() { _ = ops.check(u, p.ProtocolVersion(b)) }); panicked {
					k.viol(fmt.Sprintf("cap/%s/%s/panic", ops.checkName, hexN(u, ops.bits)), map[string]interface{}{"value": u, "version": b, "panic": val})
				}
				c.Eval(1)
			}
		}
	}
}
