package main

// Static dispatch: type name (as found in the source) -> the library's own predicates, compiled
// against the real package. A code type found in the source that is not listed here is reported
// as inconclusive by the caller (the check cannot call predicates it was not compiled against).

import (
	"fmt"

	p "github.com/datastax/go-cassandra-native-protocol/primitive"
)

type intOps struct {
	bits      int
	isValid   func(uint64) bool
	validName string
	// check is the matching primitive.Check* helper (nil if the library has none for the type).
	// versioned: the helper takes a protocol version.
	check     func(uint64, p.ProtocolVersion) error
	checkName string
	versioned bool
	str       func(uint64) string // nil: the type has no String()
}

type strOps struct {
	isValid   func(string) bool
	check     func(string, p.ProtocolVersion) error
	checkName string
	versioned bool
}

type flagOps struct {
	bits     int
	add      func(a, b uint64) uint64
	remove   func(a, b uint64) uint64
	contains func(a, b uint64) bool
	str      func(uint64) string
}

var intTypes = map[string]*intOps{
	"ProtocolVersion": {
		bits: 8, validName: "IsSupported",
		isValid: func(v uint64) bool { return p.ProtocolVersion(v).IsSupported() },
		check: func(v uint64, _ p.ProtocolVersion) error {
			return p.CheckSupportedProtocolVersion(p.ProtocolVersion(v))
		},
		checkName: "CheckSupportedProtocolVersion",
		str:       func(v uint64) string { return p.ProtocolVersion(v).String() },
	},
	"OpCode": {
		bits: 8, validName: "IsValid",
		isValid:   func(v uint64) bool { return p.OpCode(v).IsValid() },
		check:     func(v uint64, _ p.ProtocolVersion) error { return p.CheckValidOpCode(p.OpCode(v)) },
		checkName: "CheckValidOpCode",
		str:       func(v uint64) string { return p.OpCode(v).String() },
	},
	"ResultType": {
		bits: 32, validName: "IsValid",
		isValid:   func(v uint64) bool { return p.ResultType(v).IsValid() },
		check:     func(v uint64, _ p.ProtocolVersion) error { return p.CheckValidResultType(p.ResultType(v)) },
		checkName: "CheckValidResultType",
		str:       func(v uint64) string { return p.ResultType(v).String() },
	},
	"ErrorCode": {
		bits: 32, validName: "IsValid",
		isValid: func(v uint64) bool { return p.ErrorCode(v).IsValid() },
		// the library has no CheckValidErrorCode; the error codec's switch is cross-checked instead
		str: func(v uint64) string { return p.ErrorCode(v).String() },
	},
	"ConsistencyLevel": {
		bits: 16, validName: "IsValid",
		isValid:   func(v uint64) bool { return p.ConsistencyLevel(v).IsValid() },
		check:     func(v uint64, _ p.ProtocolVersion) error { return p.CheckValidConsistencyLevel(p.ConsistencyLevel(v)) },
		checkName: "CheckValidConsistencyLevel",
		str:       func(v uint64) string { return p.ConsistencyLevel(v).String() },
	},
	"DataTypeCode": {
		bits: 16, validName: "IsValid",
		isValid: func(v uint64) bool { return p.DataTypeCode(v).IsValid() },
		check: func(v uint64, ver p.ProtocolVersion) error {
			return p.CheckValidDataTypeCode(p.DataTypeCode(v), ver)
		},
		checkName: "CheckValidDataTypeCode", versioned: true,
		str: func(v uint64) string { return p.DataTypeCode(v).String() },
	},
	"BatchType": {
		bits: 8, validName: "IsValid",
		isValid:   func(v uint64) bool { return p.BatchType(v).IsValid() },
		check:     func(v uint64, _ p.ProtocolVersion) error { return p.CheckValidBatchType(p.BatchType(v)) },
		checkName: "CheckValidBatchType",
		str:       func(v uint64) string { return p.BatchType(v).String() },
	},
	"BatchChildType": {
		bits: 8, validName: "IsValid",
		isValid: func(v uint64) bool { return p.BatchChildType(v).IsValid() },
		str:     func(v uint64) string { return p.BatchChildType(v).String() },
	},
	"DseRevisionType": {
		bits: 32, validName: "IsValid",
		isValid: func(v uint64) bool { return p.DseRevisionType(v).IsValid() },
		check: func(v uint64, ver p.ProtocolVersion) error {
			return p.CheckValidDseRevisionType(p.DseRevisionType(v), ver)
		},
		checkName: "CheckValidDseRevisionType", versioned: true,
		str: func(v uint64) string { return p.DseRevisionType(v).String() },
	},
	"FailureCode": {
		bits: 16, validName: "IsValid",
		isValid:   func(v uint64) bool { return p.FailureCode(v).IsValid() },
		check:     func(v uint64, _ p.ProtocolVersion) error { return p.CheckValidFailureCode(p.FailureCode(v)) },
		checkName: "CheckValidFailureCode",
		str:       func(v uint64) string { return p.FailureCode(v).String() },
	},
}

var strTypes = map[string]*strOps{
	"WriteType": {
		isValid:   func(s string) bool { return p.WriteType(s).IsValid() },
		check:     func(s string, _ p.ProtocolVersion) error { return p.CheckValidWriteType(p.WriteType(s)) },
		checkName: "CheckValidWriteType",
	},
	"EventType": {
		isValid:   func(s string) bool { return p.EventType(s).IsValid() },
		check:     func(s string, _ p.ProtocolVersion) error { return p.CheckValidEventType(p.EventType(s)) },
		checkName: "CheckValidEventType",
	},
	"SchemaChangeType": {
		isValid:   func(s string) bool { return p.SchemaChangeType(s).IsValid() },
		check:     func(s string, _ p.ProtocolVersion) error { return p.CheckValidSchemaChangeType(p.SchemaChangeType(s)) },
		checkName: "CheckValidSchemaChangeType",
	},
	"SchemaChangeTarget": {
		isValid: func(s string) bool { return p.SchemaChangeTarget(s).IsValid() },
		check: func(s string, ver p.ProtocolVersion) error {
			return p.CheckValidSchemaChangeTarget(p.SchemaChangeTarget(s), ver)
		},
		checkName: "CheckValidSchemaChangeTarget", versioned: true,
	},
	"TopologyChangeType": {
		isValid: func(s string) bool { return p.TopologyChangeType(s).IsValid() },
		check: func(s string, ver p.ProtocolVersion) error {
			return p.CheckValidTopologyChangeType(p.TopologyChangeType(s), ver)
		},
		checkName: "CheckValidTopologyChangeType", versioned: true,
	},
	"StatusChangeType": {
		isValid:   func(s string) bool { return p.StatusChangeType(s).IsValid() },
		check:     func(s string, _ p.ProtocolVersion) error { return p.CheckValidStatusChangeType(p.StatusChangeType(s)) },
		checkName: "CheckValidStatusChangeType",
	},
	"Compression": {
		isValid: func(s string) bool { return p.Compression(s).IsValid() },
		// no Check* helper for Compression in primitive/util.go
	},
}

var flagTypes = map[string]*flagOps{
	"HeaderFlag": {
		bits:     8,
		add:      func(a, b uint64) uint64 { return uint64(p.HeaderFlag(a).Add(p.HeaderFlag(b))) },
		remove:   func(a, b uint64) uint64 { return uint64(p.HeaderFlag(a).Remove(p.HeaderFlag(b))) },
		contains: func(a, b uint64) bool { return p.HeaderFlag(a).Contains(p.HeaderFlag(b)) },
		str:      func(a uint64) string { return p.HeaderFlag(a).String() },
	},
	"QueryFlag": {
		bits:     32,
		add:      func(a, b uint64) uint64 { return uint64(p.QueryFlag(a).Add(p.QueryFlag(b))) },
		remove:   func(a, b uint64) uint64 { return uint64(p.QueryFlag(a).Remove(p.QueryFlag(b))) },
		contains: func(a, b uint64) bool { return p.QueryFlag(a).Contains(p.QueryFlag(b)) },
		str:      func(a uint64) string { return p.QueryFlag(a).String() },
	},
	"RowsFlag": {
		bits:     32,
		add:      func(a, b uint64) uint64 { return uint64(p.RowsFlag(a).Add(p.RowsFlag(b))) },
		remove:   func(a, b uint64) uint64 { return uint64(p.RowsFlag(a).Remove(p.RowsFlag(b))) },
		contains: func(a, b uint64) bool { return p.RowsFlag(a).Contains(p.RowsFlag(b)) },
		str:      func(a uint64) string { return p.RowsFlag(a).String() },
	},
	"VariablesFlag": {
		bits:     32,
		add:      func(a, b uint64) uint64 { return uint64(p.VariablesFlag(a).Add(p.VariablesFlag(b))) },
		remove:   func(a, b uint64) uint64 { return uint64(p.VariablesFlag(a).Remove(p.VariablesFlag(b))) },
		contains: func(a, b uint64) bool { return p.VariablesFlag(a).Contains(p.VariablesFlag(b)) },
		str:      func(a uint64) string { return p.VariablesFlag(a).String() },
	},
	"PrepareFlag": {
		bits:     32,
		add:      func(a, b uint64) uint64 { return uint64(p.PrepareFlag(a).Add(p.PrepareFlag(b))) },
		remove:   func(a, b uint64) uint64 { return uint64(p.PrepareFlag(a).Remove(p.PrepareFlag(b))) },
		contains: func(a, b uint64) bool { return p.PrepareFlag(a).Contains(p.PrepareFlag(b)) },
		str:      func(a uint64) string { return p.PrepareFlag(a).String() },
	},
}

func hex32(v uint32) string { return fmt.Sprintf("0x%08X", v) }

func hexN(v uint64, bits int) string {
	return fmt.Sprintf("0x%0*X", bits/4, v)
}
