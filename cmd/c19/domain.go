package main

// (c) every UNDECLARED value of a code type's domain is rejected by IsValid and by the Check* helper.

import (
	"fmt"
	"runtime/debug"
	"sort"
	"strings"
	"sync/atomic"
	"unicode"

	"verif/internal/mon"

	p "github.com/datastax/go-cassandra-native-protocol/primitive"
)

func (k *checker) probeUndeclaredInt(tn string, ops *intOps, v uint64, withCheck bool) {
	valid := ops.isValid(v)
	var checkAccepts []string
	if withCheck && ops.check != nil {
		if !ops.versioned {
			if err := ops.check(v, p.ProtocolVersion4); err == nil {
				checkAccepts = append(checkAccepts, ops.checkName)
			}
		} else {
			for i, ver := range specVersions {
				if err := ops.check(v, ver); err == nil {
					checkAccepts = append(checkAccepts, ops.checkName+"@"+specVersionNames[i])
				}
			}
		}
	}
	switch {
	case valid:
		// root cause; what the Check* helper (which delegates to the predicate) says is attached to it
		k.violUndeclared(tn, ops.validName, hexN(v, ops.bits), map[string]interface{}{
			"type": tn, "value": hexN(v, ops.bits), "predicate": ops.validName, "returned": true, "check_function_also_accepts": checkAccepts,
			"problem": "the validity predicate accepts a value for which primitive/constants.go declares no constant",
		})
	case len(checkAccepts) > 0:
		k.violUndeclared(tn, ops.checkName, hexN(v, ops.bits), map[string]interface{}{
			"type": tn, "value": hexN(v, ops.bits), "function": ops.checkName, "accepted_by": checkAccepts, "IsValid": false,
			"problem": "the Check* helper accepts a value for which primitive/constants.go declares no constant (and which IsValid rejects)",
		})
	}
}

func callsPerProbe(ops *intOps) int {
	n := 1
	if ops.check != nil {
		if ops.versioned {
			n += len(specVersions)
		} else {
			n++
		}
	}
	return n
}

// quick32 is the quick-tier subset of a 32-bit domain: a pure function of (declared values, seed).
func quick32(declared map[uint64]bool, seed int64, stream uint64, nRand int) []uint64 {
	set := map[uint64]struct{}{}
	add := func(v uint64) { set[v&0xFFFFFFFF] = struct{}{} }
	for v := uint64(0); v < 1<<16; v++ {
		add(v)
	}
	for i := 0; i < 32; i++ {
		add(1 << uint(i))
		add(^(uint64(1) << uint(i)))
		for j := i + 1; j < 32; j++ {
			add(1<<uint(i) | 1<<uint(j))
		}
	}
	for d := range declared {
		add(d + 1)
		add(d - 1)
		add(d << 8)
		add(d << 16)
		add(d << 24)
		add(d | 0x80000000)
		add(d | 0xFFFF0000)
		add(^d)
		add(d<<16 | d)
		// byte-swapped
		add((d&0xFF)<<24 | (d&0xFF00)<<8 | (d&0xFF0000)>>8 | (d&0xFF000000)>>24)
	}
	for v := uint64(0xFFFF0000); v <= 0xFFFFFFFF; v++ { // the 2^16 highest values (negative [int]s on the wire)
		add(v)
	}
	r := mon.NewRand(seed, stream)
	for i := 0; i < nRand; i++ {
		add(r.Uint64())
	}
	out := make([]uint64, 0, len(set))
	for v := range set {
		if !declared[v] {
			out = append(out, v)
		}
	}
	sort.Slice(out, func(i, j int) bool { return out[i] < out[j] })
	return out
}

func (k *checker) checkUndeclaredInt() {
	c := k.c
	names := make([]string, 0, len(intTypes))
	for _, tn := range k.reg.Order {
		if intTypes[tn] != nil {
			names = append(names, tn)
		}
	}
	for ti, tn := range names {
		ops := intTypes[tn]
		info := k.reg.Types[tn]
		if info.bits() != ops.bits {
			continue // reported as inconclusive by run()
		}
		declared := map[uint64]bool{}
		for _, e := range info.Consts {
			declared[e.U] = true
		}
		k.setTypeEvidence(tn, "distinct_declared_values", len(declared))
		per := callsPerProbe(ops)

		if ops.bits <= 16 {
			n := 1 << uint(ops.bits)
			mon.Parallel(n, func(i int) {
				v := uint64(i)
				if declared[v] {
					return
				}
				k.probeUndeclaredInt(tn, ops, v, true)
				c.DistinctHash(uint64(ti+1)<<40 | v)
			})
			checked := n - len(declared)
			c.Eval(checked * per)
			k.setTypeEvidence(tn, "domain_size", n)
			k.setTypeEvidence(tn, "undeclared_values_checked", checked)
			k.setTypeEvidence(tn, "exhaustive", true)
			c.Count("undeclared_values_checked", int64(checked))
			continue
		}

		// 32-bit domains
		quick := quick32(declared, c.Seed, uint64(1000+ti), c.Pick(200000, 200000))
		mon.Parallel(len(quick), func(i int) {
			k.probeUndeclaredInt(tn, ops, quick[i], true)
		})
		c.Eval(len(quick) * per)
		for i := 0; i < len(quick); i += 4096 {
			c.DistinctHash(uint64(ti+1)<<40 | uint64(1)<<39 | uint64(i))
		}
		if !c.Thorough() {
			c.Count("undeclared_values_checked", int64(len(quick)))
		}
		k.setTypeEvidence(tn, "domain_size", uint64(1)<<32)
		k.setTypeEvidence(tn, "quick_subset_checked", len(quick))
		if tn == "ErrorCode" && c.WantSample() {
			obs := map[string]interface{}{}
			for _, v := range []uint64{0x1600, 0x1700, 0x8000, 0x00000001, 0x80001000, 0xFFFFFFFF} {
				if !declared[v] {
					obs[hexN(v, 32)] = map[string]interface{}{"IsValid": ops.isValid(v), "String": ops.str(v)}
				}
			}
			c.Sample(map[string]interface{}{"kind": "undeclared-int", "type": tn, "observed": obs})
		}
		if !c.Thorough() {
			k.setTypeEvidence(tn, "undeclared_values_checked", len(quick))
			k.setTypeEvidence(tn, "exhaustive", false)
			continue
		}
		// thorough: the validity predicate on ALL 2^32 values (4096 chunks of 2^20 on 16 cores).
		const chunkBits = 20
		var accepted int64
		mon.Parallel(1<<(32-chunkBits), func(ch int) {
			base := uint64(ch) << chunkBits
			for off := uint64(0); off < 1<<chunkBits; off++ {
				v := base + off
				if ops.isValid(v) && !declared[v] {
					atomic.AddInt64(&accepted, 1)
					k.probeUndeclaredInt(tn, ops, v, true) // slow path: attribute and report
				}
			}
			c.Eval(1 << chunkBits)
			c.DistinctHash(uint64(ti+1)<<40 | uint64(1)<<38 | uint64(ch))
		})
		all := (uint64(1) << 32) - uint64(len(declared))
		c.Count("undeclared_values_checked", int64(all))
		k.setTypeEvidence(tn, "undeclared_values_checked", all)
		k.setTypeEvidence(tn, "exhaustive", true)
		k.setTypeEvidence(tn, "undeclared_values_accepted_by_validity_predicate", accepted)
		if ops.check == nil {
			continue
		}
		// The Check* helper cannot be swept over 2^32 values within the tier's budget: every rejection builds
		// an error with fmt.Errorf("%v") (measured here: ~500 ns per call on one core and the allocator does not
		// scale across cores, i.e. ~50 min per sweep and per version). It is called on a stratified subset that
		// is a pure function of the seed: the 2^lo lowest values, the 2^lo highest values and one PRNG-chosen
		// representative out of every block of 2^blk consecutive values of the whole domain.
		lo, blk := uint(23), uint(8) // 2^23 + 2^23 + 2^24 values
		if ops.versioned {
			lo, blk = 21, 10 // 2^21 + 2^21 + 2^22 values, times 6 versions
		}
		old := debug.SetGCPercent(2000)
		nLo, nBlocks := 1<<lo, 1<<(32-blk)
		const strataChunk = 1 << 12
		var checkCalls int64
		mon.Parallel((2*nLo+nBlocks)/strataChunk, func(ch int) {
			r := mon.NewRand(c.Seed, uint64(2000+ti)<<32|uint64(ch))
			n := 0
			for off := 0; off < strataChunk; off++ {
				i := ch*strataChunk + off
				var v uint64
				switch {
				case i < nLo:
					v = uint64(i)
				case i < 2*nLo:
					v = 0xFFFFFFFF - uint64(i-nLo)
				default:
					v = uint64(i-2*nLo)<<blk | r.Uint64()&(1<<blk-1)
				}
				if declared[v] {
					continue
				}
				if ops.versioned {
					for vi, ver := range specVersions {
						if ops.check(v, ver) == nil {
							k.violUndeclared(tn, ops.checkName, hexN(v, ops.bits), map[string]interface{}{
								"type": tn, "value": hexN(v, ops.bits), "function": ops.checkName, "version": specVersionNames[vi], "returned": nil,
								"problem": "the Check* helper accepts a value for which primitive/constants.go declares no constant",
							})
						}
						n++
					}
				} else {
					if ops.check(v, p.ProtocolVersion4) == nil {
						k.violUndeclared(tn, ops.checkName, hexN(v, ops.bits), map[string]interface{}{
							"type": tn, "value": hexN(v, ops.bits), "function": ops.checkName, "returned": nil,
							"problem": "the Check* helper accepts a value for which primitive/constants.go declares no constant",
						})
					}
					n++
				}
			}
			c.Eval(n)
			atomic.AddInt64(&checkCalls, int64(n))
		})
		debug.SetGCPercent(old)
		k.setTypeEvidence(tn, "check_function_exhaustive", false)
		k.setTypeEvidence(tn, "check_function_calls_on_stratified_subset", checkCalls)
		k.setTypeEvidence(tn, "check_function_subset", fmt.Sprintf("2^%d lowest + 2^%d highest + one PRNG(seed) value per block of 2^%d", lo, lo, blk))
	}
}

// -------------------------------------------------------------------------------------------------
// string-typed enums

func swapCase(s string) string {
	return strings.Map(func(r rune) rune {
		if unicode.IsUpper(r) {
			return unicode.ToLower(r)
		}
		return unicode.ToUpper(r)
	}, s)
}

func titleCase(s string) string {
	if s == "" {
		return s
	}
	return strings.ToUpper(s[:1]) + strings.ToLower(s[1:])
}

// deterministicVariants are the hostile neighbours of the declared spellings.
func deterministicVariants(declared []string) []string {
	var out []string
	out = append(out, "", " ", "\x00", "?", "null", "nil", "UNKNOWN", "NONE", "none", "0", "1")
	for _, s := range declared {
		out = append(out, strings.ToLower(s), titleCase(s), swapCase(s))
		for i := 0; i < len(s); i++ {
			out = append(out, s[:i], s[i+1:]) // every proper prefix and every proper suffix
			// one letter in the other case
			b := []byte(s)
			if b[i] >= 'A' && b[i] <= 'Z' {
				b[i] += 'a' - 'A'
				out = append(out, string(b))
			}
			// one character dropped
			out = append(out, s[:i]+s[i+1:])
			// adjacent characters transposed
			if i+1 < len(s) {
				t := []byte(s)
				t[i], t[i+1] = t[i+1], t[i]
				out = append(out, string(t))
			}
			// one character replaced by every letter of A-Z and '_'
			for _, ch := range []byte(upperAlphabet) {
				t := []byte(s)
				t[i] = ch
				out = append(out, string(t))
			}
		}
		// one letter of A-Z or '_' inserted at every position (includes appended / prepended): together with
		// the deletions, transpositions and substitutions above this is the complete edit-distance-1
		// neighbourhood of every declared spelling over that alphabet
		for i := 0; i <= len(s); i++ {
			for _, ch := range []byte(upperAlphabet) {
				out = append(out, s[:i]+string(ch)+s[i:])
			}
		}
		for _, pad := range []string{" ", "\t", "\n", "\r\n", "\x00", "_", "-", "S", "\u00a0", "\u200b"} {
			out = append(out, s+pad, pad+s, pad+s+pad)
		}
		out = append(out, s+s, s+"_"+s, strings.ReplaceAll(s, "_", " "), strings.ReplaceAll(s, "_", ""), strings.ReplaceAll(s, "_", "-"))
		// full-width look-alikes
		out = append(out, strings.Map(func(r rune) rune {
			if r >= 'A' && r <= 'Z' {
				return r - 'A' + 0xFF21
			}
			return r
		}, s))
		for _, t := range declared {
			if t != s {
				out = append(out, s+t, s+"_"+t, s+","+t)
			}
		}
	}
	return out
}

const upperAlphabet = "ABCDEFGHIJKLMNOPQRSTUVWXYZ_"

func randomVariant(declared []string, r *mon.Rand) string {
	pick := func() string { return declared[r.Intn(len(declared))] }
	switch r.Intn(8) {
	case 0: // random upper-case word
		n := r.Intn(17)
		b := make([]byte, n)
		for i := range b {
			b[i] = upperAlphabet[r.Intn(len(upperAlphabet))]
		}
		return string(b)
	case 1: // substitute one character
		b := []byte(pick())
		b[r.Intn(len(b))] = upperAlphabet[r.Intn(len(upperAlphabet))]
		return string(b)
	case 2: // delete one or two characters
		s := pick()
		for n := 1 + r.Intn(2); n > 0 && len(s) > 0; n-- {
			i := r.Intn(len(s))
			s = s[:i] + s[i+1:]
		}
		return s
	case 3: // insert a character
		s := pick()
		i := r.Intn(len(s) + 1)
		return s[:i] + string(upperAlphabet[r.Intn(len(upperAlphabet))]) + s[i:]
	case 4: // transpose
		b := []byte(pick())
		if len(b) >= 2 {
			i := r.Intn(len(b) - 1)
			b[i], b[i+1] = b[i+1], b[i]
		}
		return string(b)
	case 5: // random case flips
		b := []byte(pick())
		for i := range b {
			if b[i] >= 'A' && b[i] <= 'Z' && r.Intn(3) == 0 {
				b[i] += 'a' - 'A'
			}
		}
		return string(b)
	case 6: // arbitrary bytes
		return string(r.Bytes(r.Intn(12)))
	default: // splice of two declared spellings
		a, b := pick(), pick()
		return a[:r.Intn(len(a)+1)] + b[r.Intn(len(b)+1):]
	}
}

func (k *checker) probeUndeclaredStr(tn string, ops *strOps, s string) {
	quoted := fmt.Sprintf("%q", s)
	valid := ops.isValid(s)
	var checkAccepts []string
	if ops.check != nil {
		if !ops.versioned {
			if err := ops.check(s, p.ProtocolVersion4); err == nil {
				checkAccepts = append(checkAccepts, ops.checkName)
			}
		} else {
			for i, ver := range specVersions {
				if err := ops.check(s, ver); err == nil {
					checkAccepts = append(checkAccepts, ops.checkName+"@"+specVersionNames[i])
				}
			}
		}
	}
	switch {
	case valid:
		k.violUndeclared(tn, "IsValid", keySafe(s), map[string]interface{}{
			"type": tn, "value": quoted, "value_hex": fmt.Sprintf("%x", s), "predicate": "IsValid", "returned": true, "check_function_also_accepts": checkAccepts,
			"problem": "the validity predicate accepts a spelling for which primitive/constants.go declares no constant",
		})
	case len(checkAccepts) > 0:
		k.violUndeclared(tn, ops.checkName, keySafe(s), map[string]interface{}{
			"type": tn, "value": quoted, "value_hex": fmt.Sprintf("%x", s), "function": ops.checkName, "accepted_by": checkAccepts, "IsValid": false,
			"problem": "the Check* helper accepts a spelling for which primitive/constants.go declares no constant (and which IsValid rejects)",
		})
	}
}

func (k *checker) checkUndeclaredStr() {
	c := k.c
	idx := 0
	for _, tn := range k.reg.Order {
		ops := strTypes[tn]
		if ops == nil {
			continue
		}
		idx++
		info := k.reg.Types[tn]
		declaredSet := map[string]bool{}
		var declared []string
		for _, e := range info.Consts {
			if e.IsStr && !declaredSet[e.S] {
				declaredSet[e.S] = true
				declared = append(declared, e.S)
			}
		}
		if len(declared) == 0 {
			continue
		}
		per := 1
		if ops.check != nil {
			per++
			if ops.versioned {
				per += len(specVersions) - 1
			}
		}
		det := deterministicVariants(declared)
		seen := map[string]bool{}
		nDet, collisions := 0, 0
		for _, s := range det {
			if seen[s] {
				continue
			}
			seen[s] = true
			if declaredSet[s] {
				collisions++ // e.g. the suffix BATCH of UNLOGGED_BATCH is itself declared
				continue
			}
			nDet++
			k.probeUndeclaredStr(tn, ops, s)
			c.Distinct("str/" + tn + "/" + s)
		}
		c.Eval(nDet * per)
		nRand := c.Pick(20000, 2000000)
		var randChecked, randCollide int64
		ti := idx
		mon.Parallel(nRand, func(i int) {
			r := mon.NewRand(c.Seed, uint64(ti)<<32|uint64(i))
			s := randomVariant(declared, r)
			if declaredSet[s] {
				atomic.AddInt64(&randCollide, 1)
				return
			}
			atomic.AddInt64(&randChecked, 1)
			k.probeUndeclaredStr(tn, ops, s)
			if i < 4096 {
				c.Distinct("str/" + tn + "/" + s)
			}
		})
		c.Eval(int(randChecked) * per)
		c.Count("undeclared_strings_checked", int64(nDet)+randChecked)
		k.setTypeEvidence(tn, "distinct_declared_values", len(declared))
		k.setTypeEvidence(tn, "domain_size", "unbounded (strings)")
		k.setTypeEvidence(tn, "exhaustive", false)
		k.setTypeEvidence(tn, "deterministic_variants_checked", nDet)
		k.setTypeEvidence(tn, "variants_equal_to_another_declared_value_skipped", collisions+int(randCollide))
		k.setTypeEvidence(tn, "prng_strings_checked", randChecked)
		k.setTypeEvidence(tn, "undeclared_values_checked", int64(nDet)+randChecked)
		if c.WantSample() && (tn == "WriteType" || tn == "EventType") {
			r := mon.NewRand(c.Seed, uint64(ti)<<32|7)
			d0 := declared[len(declared)-1]
			probes := []string{randomVariant(declared, r), strings.ToLower(d0), d0[:len(d0)-1], d0 + " ", d0 + "S"}
			obs := map[string]interface{}{}
			for _, s := range probes {
				if !declaredSet[s] {
					obs[fmt.Sprintf("%q", s)] = map[string]interface{}{"IsValid": ops.isValid(s), ops.checkName + "_rejects": ops.check(s, p.ProtocolVersion4) != nil}
				}
			}
			c.Sample(map[string]interface{}{"kind": "undeclared-string", "type": tn, "observed": obs})
		}
	}
}
