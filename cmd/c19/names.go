package main

// Oracle (b), name part: a declared constant must be printed with a name of its own.
//
// String() prints "<Type> <Name> [<hex> ...]". Two printed strings can differ only by the hex suffix
// while carrying the same <Name> (copy-paste in a String() switch), so the NAME PART is judged:
// strip the type-name prefix and the trailing bracketed part, lower-case, drop non-alphanumerics.
//   - the name parts of the (distinct-valued) constants of one type must be pairwise distinct;
//   - a name part equal to the identifier suffix (identifier minus the type-name prefix, normalised
//     the same way) of a DIFFERENT constant of the same type is a violation.
// A name is NOT required to equal its own identifier suffix (ProtocolVersion4 prints "OSS 4",
// OpCodeAuthResponse prints "AUTH RESPONSE", RowsFlagDseContinuousPaging prints "ContinuousPaging"):
// those are only counted.

import (
	"strings"
	"unicode"
)

func normaliseName(s string) string {
	var b strings.Builder
	for _, r := range s {
		if unicode.IsLetter(r) || unicode.IsDigit(r) {
			b.WriteRune(unicode.ToLower(r))
		}
	}
	return b.String()
}

// namePart extracts the normalised <Name> of a printed constant.
func namePart(typeName, printed string) string {
	s := strings.TrimSpace(printed)
	if i := strings.LastIndex(s, "["); i >= 0 {
		s = s[:i]
	}
	s = strings.TrimSpace(s)
	if strings.HasPrefix(s, typeName) {
		s = s[len(typeName):]
	} else if i := strings.Index(s, " "); i >= 0 && strings.HasPrefix(typeName, s[:i]) {
		s = s[i:] // abbreviated prefix, e.g. "DataType" for DataTypeCode
	}
	return normaliseName(s)
}

func identifierSuffix(typeName, ident string) string {
	return normaliseName(strings.TrimPrefix(ident, typeName))
}

type printedConst struct {
	entry   constEntry
	printed string
}

func (k *checker) checkNameParts(tn string, list []printedConst) {
	c := k.c
	byName := map[string]printedConst{}
	ownName, otherStyle := 0, 0
	for _, pc := range list {
		e := pc.entry
		name := namePart(tn, pc.printed)
		c.Eval(1)
		if name == "" || strings.Contains(pc.printed, "?") {
			continue // the '?' fallback is reported by the plain String oracle
		}
		if name == identifierSuffix(tn, e.Name) {
			ownName++
		} else {
			otherStyle++
		}
		reported := false
		for _, o := range list {
			if o.entry.Name == e.Name || o.entry.U == e.U {
				continue // itself, or an alias of the same value
			}
			if name == identifierSuffix(tn, o.entry.Name) && name != identifierSuffix(tn, e.Name) {
				k.viol(tn+"/"+e.Name+"/String/carries-the-name-of-"+o.entry.Name, map[string]interface{}{
					"type": tn, "const": e, "printed": pc.printed, "name_part": name, "other": o.entry, "other_printed": o.printed,
					"problem": "a declared constant is printed with the name of a different constant of the same type",
				})
				reported = true
				break
			}
		}
		if prev, dup := byName[name]; dup && prev.entry.U != e.U {
			if !reported {
				k.viol(tn+"/"+e.Name+"/String/same-name-as-"+prev.entry.Name, map[string]interface{}{
					"type": tn, "const": e, "printed": pc.printed, "name_part": name, "other": prev.entry, "other_printed": prev.printed,
					"problem": "two different declared values are printed with the same name part (the strings differ only outside the name)",
				})
			}
		} else if !dup {
			byName[name] = pc
		}
	}
	c.Count("printed_names_equal_to_own_identifier_suffix", int64(ownName))
	c.Count("printed_names_in_another_style_not_judged", int64(otherStyle))
}
