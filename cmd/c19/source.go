package main

// Registry of declared constants, read from <repo>/primitive/constants.go at check time.
//
// The whole primitive package (non-test files) is parsed and type-checked with go/types so that
// any constant expression (conversions such as ProtocolVersion(0b_1_000001), typed declarations
// such as `CompressionLz4 Compression = "LZ4"`, iota, references to other constants) is evaluated
// by the Go constant evaluator and not by a home-made one. Imports are stubbed (empty packages)
// and function bodies are ignored: constant declarations, type declarations and method *names*
// are all that is needed, and type errors caused by the stubs are deliberately ignored.

import (
	"fmt"
	"go/ast"
	"go/constant"
	"go/parser"
	"go/token"
	"go/types"
	"os"
	"path/filepath"
	"sort"
	"strings"
)

type constEntry struct {
	Type  string `json:"type"`
	Name  string `json:"name"`
	IsStr bool   `json:"is_string"`
	U     uint64 `json:"u,omitempty"`
	S     string `json:"s,omitempty"`
	Line  int    `json:"line"`
}

// label is the part of a violation key that identifies the constant: the value itself for
// string-typed enums (WriteType/CAS/...), the constant's name for numeric ones.
func (e constEntry) label() string {
	if e.IsStr {
		return keySafe(e.S)
	}
	return e.Name
}

func (e constEntry) valueText() string {
	if e.IsStr {
		return fmt.Sprintf("%q", e.S)
	}
	return fmt.Sprintf("0x%X", e.U)
}

type typeInfo struct {
	Name       string
	Underlying string // uint8, uint16, uint32, string, ...
	Methods    map[string]bool
	Consts     []constEntry
	Line       int
}

func (t *typeInfo) bits() int {
	switch t.Underlying {
	case "uint8":
		return 8
	case "uint16":
		return 16
	case "uint32":
		return 32
	}
	return 0
}

func (t *typeInfo) isFlagType() bool {
	return t.Methods["Add"] && t.Methods["Remove"] && t.Methods["Contains"]
}

type registry struct {
	Types   map[string]*typeInfo
	Order   []string // declaration order
	Untyped []string // untyped constants of constants.go (not code constants)
	Skipped []string // constants whose value could not be evaluated
	File    string
}

type stubImporter struct{ pkgs map[string]*types.Package }

func (s *stubImporter) Import(path string) (*types.Package, error) {
	if p, ok := s.pkgs[path]; ok {
		return p, nil
	}
	name := path
	if i := strings.LastIndex(path, "/"); i >= 0 {
		name = path[i+1:]
	}
	p := types.NewPackage(path, name)
	p.MarkComplete()
	s.pkgs[path] = p
	return p, nil
}

func loadRegistry(repo string) (*registry, error) {
	dir := filepath.Join(repo, "primitive")
	target := filepath.Join(dir, "constants.go")
	if _, err := os.Stat(target); err != nil {
		return nil, err
	}
	ents, err := os.ReadDir(dir)
	if err != nil {
		return nil, err
	}
	fset := token.NewFileSet()
	var files []*ast.File
	var targetFile *ast.File
	for _, e := range ents {
		n := e.Name()
		if e.IsDir() || !strings.HasSuffix(n, ".go") || strings.HasSuffix(n, "_test.go") {
			continue
		}
		f, err := parser.ParseFile(fset, filepath.Join(dir, n), nil, parser.SkipObjectResolution)
		if err != nil {
			if n == "constants.go" {
				return nil, err
			}
			continue // another file of the package does not parse: not our business
		}
		if f.Name.Name != "primitive" {
			continue
		}
		files = append(files, f)
		if n == "constants.go" {
			targetFile = f
		}
	}
	if targetFile == nil {
		return nil, fmt.Errorf("constants.go not found in %s", dir)
	}
	info := &types.Info{Defs: map[*ast.Ident]types.Object{}}
	conf := types.Config{
		Importer:         &stubImporter{pkgs: map[string]*types.Package{}},
		IgnoreFuncBodies: true,
		Error:            func(error) {}, // stubbed imports make errors unavoidable; constants are still evaluated
	}
	pkg, _ := conf.Check("primitive", fset, files, info)
	if pkg == nil {
		return nil, fmt.Errorf("type-checking %s produced no package", dir)
	}

	reg := &registry{Types: map[string]*typeInfo{}, File: target}
	inTarget := func(p token.Pos) bool { return fset.Position(p).Filename == target }

	// named types declared in constants.go
	for _, decl := range targetFile.Decls {
		gd, ok := decl.(*ast.GenDecl)
		if !ok || gd.Tok != token.TYPE {
			continue
		}
		for _, sp := range gd.Specs {
			ts := sp.(*ast.TypeSpec)
			obj, _ := info.Defs[ts.Name].(*types.TypeName)
			if obj == nil {
				continue
			}
			named, ok := obj.Type().(*types.Named)
			if !ok {
				continue
			}
			ti := &typeInfo{Name: ts.Name.Name, Methods: map[string]bool{}, Line: fset.Position(ts.Pos()).Line}
			if b, ok := named.Underlying().(*types.Basic); ok {
				ti.Underlying = b.Name()
			} else {
				ti.Underlying = named.Underlying().String()
			}
			for i := 0; i < named.NumMethods(); i++ {
				ti.Methods[named.Method(i).Name()] = true
			}
			reg.Types[ti.Name] = ti
			reg.Order = append(reg.Order, ti.Name)
		}
	}

	// constants declared in constants.go
	for _, decl := range targetFile.Decls {
		gd, ok := decl.(*ast.GenDecl)
		if !ok || gd.Tok != token.CONST {
			continue
		}
		for _, sp := range gd.Specs {
			vs := sp.(*ast.ValueSpec)
			for _, id := range vs.Names {
				if id.Name == "_" || !inTarget(id.Pos()) {
					continue
				}
				c, _ := info.Defs[id].(*types.Const)
				if c == nil {
					reg.Skipped = append(reg.Skipped, id.Name)
					continue
				}
				named, ok := c.Type().(*types.Named)
				if !ok {
					reg.Untyped = append(reg.Untyped, id.Name)
					continue
				}
				tn := named.Obj().Name()
				ti := reg.Types[tn]
				if ti == nil {
					// typed with a type declared in another file of the package
					ti = &typeInfo{Name: tn, Methods: map[string]bool{}}
					if b, ok := named.Underlying().(*types.Basic); ok {
						ti.Underlying = b.Name()
					}
					for i := 0; i < named.NumMethods(); i++ {
						ti.Methods[named.Method(i).Name()] = true
					}
					reg.Types[tn] = ti
					reg.Order = append(reg.Order, tn)
				}
				e := constEntry{Type: tn, Name: id.Name, Line: fset.Position(id.Pos()).Line}
				val := c.Val()
				switch val.Kind() {
				case constant.String:
					e.IsStr = true
					e.S = constant.StringVal(val)
				case constant.Int:
					u, exact := constant.Uint64Val(val)
					if !exact {
						reg.Skipped = append(reg.Skipped, id.Name)
						continue
					}
					e.U = u
				default:
					reg.Skipped = append(reg.Skipped, id.Name)
					continue
				}
				ti.Consts = append(ti.Consts, e)
			}
		}
	}
	sort.Strings(reg.Untyped)
	return reg, nil
}

func keySafe(s string) string {
	if s == "" {
		return "<empty>"
	}
	var b strings.Builder
	for _, r := range s {
		if r <= ' ' || r > '~' || r == '/' {
			fmt.Fprintf(&b, "%%%02X", r)
		} else {
			b.WriteRune(r)
		}
	}
	return b.String()
}
