package main

// (d) cross-check of the declared codes against the switches of the library's message codecs:
//   - for each opcode o: message.DefaultMessageCodecs holds exactly one codec with GetOpCode()==o iff o is valid;
//   - for each declared ErrorCode / ResultType / EventType the codec has an arm (it does not answer
//     "unknown ERROR code" / "unknown RESULT type" / "unknown EVENT type"), and a minimal message of that
//     kind round-trips in every version whose spec defines the kind;
//   - for each declared WriteType, FailureCode, SchemaChangeType, SchemaChangeTarget, StatusChangeType and
//     TopologyChangeType a message carrying it round-trips (in the versions the specs give it).
// A failure is attached to the constant it belongs to; emitDeclared() folds it into the IsValid
// finding of that constant when IsValid is the root cause.

import (
	"bytes"
	"fmt"
	"net"
	"strings"

	"verif/internal/mon"

	"github.com/datastax/go-cassandra-native-protocol/message"
	p "github.com/datastax/go-cassandra-native-protocol/primitive"
)

type stubError struct{ code p.ErrorCode }

func (m *stubError) IsResponse() bool                 { return true }
func (m *stubError) GetOpCode() p.OpCode              { return p.OpCodeError }
func (m *stubError) DeepCopyMessage() message.Message { c := *m; return &c }
func (m *stubError) GetErrorCode() p.ErrorCode        { return m.code }
func (m *stubError) GetErrorMessage() string          { return "m" }

type stubResult struct{ typ p.ResultType }

func (m *stubResult) IsResponse() bool                 { return true }
func (m *stubResult) GetOpCode() p.OpCode              { return p.OpCodeResult }
func (m *stubResult) DeepCopyMessage() message.Message { c := *m; return &c }
func (m *stubResult) GetResultType() p.ResultType      { return m.typ }

type stubEvent struct{ typ p.EventType }

func (m *stubEvent) IsResponse() bool                 { return true }
func (m *stubEvent) GetOpCode() p.OpCode              { return p.OpCodeEvent }
func (m *stubEvent) DeepCopyMessage() message.Message { c := *m; return &c }
func (m *stubEvent) GetEventType() p.EventType        { return m.typ }

func codecFor(o p.OpCode) message.Codec {
	for _, cd := range message.DefaultMessageCodecs {
		if cd.GetOpCode() == o {
			return cd
		}
	}
	return nil
}

// roundTrip encodes and decodes msg with the library codec; a panic is reported as an error.
func roundTrip(cd message.Codec, msg message.Message, ver p.ProtocolVersion) (out message.Message, err error) {
	panicked, val := mon.Guard(func() {
		var buf bytes.Buffer
		if err = cd.Encode(msg, &buf, ver); err != nil {
			err = fmt.Errorf("encode: %w", err)
			return
		}
		out, err = cd.Decode(bytes.NewReader(buf.Bytes()), ver)
		if err != nil {
			err = fmt.Errorf("decode of %x: %w", buf.Bytes(), err)
		}
	})
	if panicked {
		return nil, fmt.Errorf("panic: %s", val)
	}
	return out, err
}

func beInt(v uint32) []byte { return []byte{byte(v >> 24), byte(v >> 16), byte(v >> 8), byte(v)} }

func beString(s string) []byte {
	return append([]byte{byte(len(s) >> 8), byte(len(s))}, s...)
}

var localhost = net.IPv4(127, 0, 0, 1).To4()

// minimalError: the message struct per error code, from /repo/message/error.go. minIdx is the index in
// specVersions of the first OSS version whose spec has the code (READ_FAILURE, FUNCTION_FAILURE and
// WRITE_FAILURE were added in v4: v4 §10 "Read_failure error code was added", "Function_failure error
// code was added"; 0x1500 first appears in v4 §9).
func minimalError(code uint64) (msg message.Message, minIdx int) {
	switch code {
	case 0x0000:
		return &message.ServerError{ErrorMessage: "m"}, 0
	case 0x000A:
		return &message.ProtocolError{ErrorMessage: "m"}, 0
	case 0x0100:
		return &message.AuthenticationError{ErrorMessage: "m"}, 0
	case 0x1000:
		return &message.Unavailable{ErrorMessage: "m", Consistency: p.ConsistencyLevel(1), Required: 2, Alive: 1}, 0
	case 0x1001:
		return &message.Overloaded{ErrorMessage: "m"}, 0
	case 0x1002:
		return &message.IsBootstrapping{ErrorMessage: "m"}, 0
	case 0x1003:
		return &message.TruncateError{ErrorMessage: "m"}, 0
	case 0x1100:
		return &message.WriteTimeout{ErrorMessage: "m", Consistency: p.ConsistencyLevel(1), Received: 1, BlockFor: 2, WriteType: p.WriteType("SIMPLE")}, 0
	case 0x1200:
		return &message.ReadTimeout{ErrorMessage: "m", Consistency: p.ConsistencyLevel(1), Received: 1, BlockFor: 2, DataPresent: true}, 0
	case 0x1300:
		return &message.ReadFailure{ErrorMessage: "m", Consistency: p.ConsistencyLevel(1), Received: 1, BlockFor: 2, NumFailures: 1,
			FailureReasons: []*p.FailureReason{{Endpoint: localhost, Code: p.FailureCode(0)}}}, 2
	case 0x1400:
		return &message.FunctionFailure{ErrorMessage: "m", Keyspace: "ks", Function: "f", Arguments: []string{"int"}}, 2
	case 0x1500:
		return &message.WriteFailure{ErrorMessage: "m", Consistency: p.ConsistencyLevel(1), Received: 1, BlockFor: 2, NumFailures: 1,
			FailureReasons: []*p.FailureReason{{Endpoint: localhost, Code: p.FailureCode(0)}}, WriteType: p.WriteType("SIMPLE")}, 2
	case 0x2000:
		return &message.SyntaxError{ErrorMessage: "m"}, 0
	case 0x2100:
		return &message.Unauthorized{ErrorMessage: "m"}, 0
	case 0x2200:
		return &message.Invalid{ErrorMessage: "m"}, 0
	case 0x2300:
		return &message.ConfigError{ErrorMessage: "m"}, 0
	case 0x2400:
		return &message.AlreadyExists{ErrorMessage: "m", Keyspace: "ks", Table: "t"}, 0
	case 0x2500:
		return &message.Unprepared{ErrorMessage: "m", Id: []byte{1, 2}}, 0
	}
	return nil, 0
}

func minimalResult(code uint64) message.Message {
	switch code {
	case 1:
		return &message.VoidResult{}
	case 2:
		return &message.RowsResult{Metadata: &message.RowsMetadata{ColumnCount: 0}, Data: message.RowSet{}}
	case 3:
		return &message.SetKeyspaceResult{Keyspace: "ks"}
	case 4:
		return &message.PreparedResult{PreparedQueryId: []byte{1}, ResultMetadataId: []byte{2},
			VariablesMetadata: &message.VariablesMetadata{}, ResultMetadata: &message.RowsMetadata{}}
	case 5:
		return &message.SchemaChangeResult{ChangeType: p.SchemaChangeType("CREATED"), Target: p.SchemaChangeTarget("KEYSPACE"), Keyspace: "ks"}
	}
	return nil
}

func schemaChangeEvent(changeType, target string, ver p.ProtocolVersion) *message.SchemaChangeEvent {
	ev := &message.SchemaChangeEvent{ChangeType: p.SchemaChangeType(changeType), Target: p.SchemaChangeTarget(target), Keyspace: "ks"}
	switch target {
	case "KEYSPACE":
	case "TABLE", "TYPE":
		ev.Object = "obj"
	default:
		ev.Object = "obj"
		ev.Arguments = []string{"int"}
	}
	return ev
}

func minimalEvent(typ string) message.Message {
	switch typ {
	case "SCHEMA_CHANGE":
		return schemaChangeEvent("CREATED", "KEYSPACE", 4)
	case "STATUS_CHANGE":
		return &message.StatusChangeEvent{ChangeType: p.StatusChangeType("UP"), Address: &p.Inet{Addr: localhost, Port: 9042}}
	case "TOPOLOGY_CHANGE":
		return &message.TopologyChangeEvent{ChangeType: p.TopologyChangeType("NEW_NODE"), Address: &p.Inet{Addr: localhost, Port: 9042}}
	}
	return nil
}

func (k *checker) constsOf(tn string) []constEntry {
	if ti := k.reg.Types[tn]; ti != nil {
		return ti.Consts
	}
	return nil
}

func (k *checker) checkCodecs() {
	c := k.c

	// opcode <-> codec table
	for o := 0; o < 256; o++ {
		n := 0
		for _, cd := range message.DefaultMessageCodecs {
			if cd.GetOpCode() == p.OpCode(o) {
				n++
			}
		}
		c.Eval(1)
		valid := p.OpCode(o).IsValid()
		if (valid && n != 1) || (!valid && n != 0) {
			k.viol(fmt.Sprintf("OpCode/%s/codec-count", hexN(uint64(o), 8)), map[string]interface{}{
				"opcode": hexN(uint64(o), 8), "IsValid": valid, "codecs_in_DefaultMessageCodecs": n,
				"problem": "DefaultMessageCodecs must hold exactly one codec per valid opcode and none for an invalid one",
			})
		}
	}
	c.Count("codec_table_opcodes_checked", 256)

	errCodec, resCodec, evCodec := codecFor(p.OpCodeError), codecFor(p.OpCodeResult), codecFor(p.OpCodeEvent)
	if errCodec == nil || resCodec == nil || evCodec == nil {
		c.Inconclusive("ERROR/RESULT/EVENT codec missing from DefaultMessageCodecs: codec arms not examined")
		return
	}
	pad := make([]byte, 64)
	armDetect := func(cd message.Codec, head []byte, stub message.Message, unknownText string) (problems []string) {
		for _, ver := range specVersions {
			var err error
			if panicked, val := mon.Guard(func() { _, err = cd.Decode(bytes.NewReader(append(append([]byte{}, head...), pad...)), ver) }); panicked {
				problems = append(problems, fmt.Sprintf("decode panics (%v): %s", ver, val))
			} else if err != nil && strings.Contains(err.Error(), unknownText) {
				problems = append(problems, fmt.Sprintf("decode (%v): %v", ver, err))
			}
			var buf bytes.Buffer
			err = nil
			if panicked, _ := mon.Guard(func() { err = cd.Encode(stub, &buf, ver) }); !panicked && err != nil && strings.Contains(err.Error(), unknownText) {
				problems = append(problems, fmt.Sprintf("encode (%v): %v", ver, err))
			}
			c.Eval(2)
		}
		return
	}

	// ErrorCode
	minimalMissing := 0
	for _, e := range k.constsOf("ErrorCode") {
		if e.IsStr {
			continue
		}
		f := k.finding(e)
		c.Distinct("codec/ErrorCode/" + e.Name)
		head := append(beInt(uint32(e.U)), beString("m")...)
		f.codecFail = append(f.codecFail, armDetect(errCodec, head, &stubError{code: p.ErrorCode(e.U)}, "unknown ERROR code")...)
		msg, minIdx := minimalError(e.U)
		if msg == nil {
			minimalMissing++
			continue
		}
		if em, ok := msg.(message.Error); !ok || uint64(em.GetErrorCode()) != e.U {
			f.codecFail = append(f.codecFail, fmt.Sprintf("message struct for code %s reports code %v", e.valueText(), msg))
			continue
		}
		ok := ""
		for i, ver := range specVersions {
			out, err := roundTrip(errCodec, msg, ver)
			c.Eval(1)
			good := err == nil
			if good {
				em, isErr := out.(message.Error)
				good = isErr && uint64(em.GetErrorCode()) == e.U
				if !good {
					err = fmt.Errorf("decoded as %T", out)
				}
			}
			if good {
				ok += "T"
			} else {
				ok += "F"
			}
			specHasIt := i >= minIdx
			if !good && specHasIt {
				f.codecFail = append(f.codecFail, fmt.Sprintf("round trip of %T in %s: %v", msg, specVersionNames[i], err))
			}
		}
		f.observed["codec_round_trip(v2..DSEv2)"] = ok
	}
	c.Count("error_codes_without_minimal_message_in_this_check", int64(minimalMissing))

	// undeclared error codes the codec nevertheless decodes: counted, not judged (the codec is not a validity check)
	acceptsUndeclared := 0
	declaredErr := map[uint64]bool{}
	for _, e := range k.constsOf("ErrorCode") {
		declaredErr[e.U] = true
	}
	for code := uint64(0); code < 1<<16; code++ {
		if declaredErr[code] {
			continue
		}
		head := append(append(beInt(uint32(code)), beString("m")...), pad...)
		var err error
		mon.Guard(func() { _, err = errCodec.Decode(bytes.NewReader(head), 4) })
		if err == nil {
			acceptsUndeclared++
		}
	}
	c.Eval(1 << 16)
	c.Count("undeclared_error_codes_decoded_by_codec_not_judged", int64(acceptsUndeclared))

	// ResultType
	for _, e := range k.constsOf("ResultType") {
		if e.IsStr {
			continue
		}
		f := k.finding(e)
		c.Distinct("codec/ResultType/" + e.Name)
		f.codecFail = append(f.codecFail, armDetect(resCodec, beInt(uint32(e.U)), &stubResult{typ: p.ResultType(e.U)}, "unknown RESULT type")...)
		msg := minimalResult(e.U)
		if msg == nil {
			c.Count("result_types_without_minimal_message_in_this_check", 1)
			continue
		}
		ok := ""
		for i, ver := range specVersions {
			out, err := roundTrip(resCodec, msg, ver)
			c.Eval(1)
			good := err == nil
			if good {
				r, isRes := out.(message.Result)
				good = isRes && uint64(r.GetResultType()) == e.U
				if !good {
					err = fmt.Errorf("decoded as %T", out)
				}
			}
			if good {
				ok += "T"
			} else {
				ok += "F"
				f.codecFail = append(f.codecFail, fmt.Sprintf("round trip of %T in %s: %v", msg, specVersionNames[i], err))
			}
		}
		f.observed["codec_round_trip(v2..DSEv2)"] = ok
	}

	// EventType
	for _, e := range k.constsOf("EventType") {
		if !e.IsStr {
			continue
		}
		f := k.finding(e)
		c.Distinct("codec/EventType/" + e.Name)
		f.codecFail = append(f.codecFail, armDetect(evCodec, beString(e.S), &stubEvent{typ: p.EventType(e.S)}, "unknown EVENT type")...)
		msg := minimalEvent(e.S)
		if msg == nil {
			c.Count("event_types_without_minimal_message_in_this_check", 1)
			continue
		}
		ok := ""
		for i, ver := range specVersions {
			out, err := roundTrip(evCodec, msg, ver)
			c.Eval(1)
			good := err == nil
			if good {
				r, isEv := out.(message.Event)
				good = isEv && string(r.GetEventType()) == e.S
				if !good {
					err = fmt.Errorf("decoded as %T", out)
				}
			}
			if good {
				ok += "T"
			} else {
				ok += "F"
				f.codecFail = append(f.codecFail, fmt.Sprintf("round trip of %T in %s: %v", msg, specVersionNames[i], err))
			}
		}
		f.observed["codec_round_trip(v2..DSEv2)"] = ok
	}

	// WriteType through WRITE_TIMEOUT and WRITE_FAILURE. Judged in v5, whose spec (§8) lists all of SIMPLE, BATCH,
	// UNLOGGED_BATCH, COUNTER, BATCH_LOG, CAS, VIEW, CDC; the other versions are run and recorded (the library's
	// write-type check does not depend on the version).
	for _, e := range k.constsOf("WriteType") {
		if !e.IsStr {
			continue
		}
		f := k.finding(e)
		c.Distinct("codec/WriteType/" + e.Name)
		for _, msg := range []message.Message{
			&message.WriteTimeout{ErrorMessage: "m", Consistency: p.ConsistencyLevel(1), Received: 1, BlockFor: 2, WriteType: p.WriteType(e.S), Contentions: 3},
			&message.WriteFailure{ErrorMessage: "m", Consistency: p.ConsistencyLevel(1), Received: 1, BlockFor: 2, NumFailures: 1,
				FailureReasons: []*p.FailureReason{{Endpoint: localhost, Code: p.FailureCode(0)}}, WriteType: p.WriteType(e.S)},
		} {
			ok := ""
			for i, ver := range specVersions {
				if _, isWF := msg.(*message.WriteFailure); isWF && i < 2 {
					ok += "-" // WRITE_FAILURE does not exist before v4
					continue
				}
				out, err := roundTrip(errCodec, msg, ver)
				c.Eval(1)
				good := err == nil
				if good {
					switch m := out.(type) {
					case *message.WriteTimeout:
						good = string(m.WriteType) == e.S
					case *message.WriteFailure:
						good = string(m.WriteType) == e.S
					default:
						good = false
					}
					if !good {
						err = fmt.Errorf("decoded as %v", out)
					}
				}
				if good {
					ok += "T"
				} else {
					ok += "F"
					if specVersionNames[i] == "v5" {
						f.codecFail = append(f.codecFail, fmt.Sprintf("%T with write type %q in v5: %v", msg, e.S, err))
					} else {
						f.codecFail = append(f.codecFail, fmt.Sprintf("(also, not judged) %T with write type %q in %s: %v", msg, e.S, specVersionNames[i], err))
					}
				}
			}
			f.observed[fmt.Sprintf("%T round trip (v2..DSEv2)", msg)] = ok
		}
		// only the v5 failures decide
		judged := false
		for _, s := range f.codecFail {
			if !strings.HasPrefix(s, "(also, not judged)") {
				judged = true
			}
		}
		if !judged {
			f.codecFail = nil
		}
	}

	// FailureCode through READ_FAILURE's reason map, judged in DSE v2 whose spec (§9) lists 0x0000..0x0006
	for _, e := range k.constsOf("FailureCode") {
		if e.IsStr {
			continue
		}
		f := k.finding(e)
		c.Distinct("codec/FailureCode/" + e.Name)
		msg := &message.ReadFailure{ErrorMessage: "m", Consistency: p.ConsistencyLevel(1), Received: 1, BlockFor: 2,
			FailureReasons: []*p.FailureReason{{Endpoint: localhost, Code: p.FailureCode(e.U)}}}
		out, err := roundTrip(errCodec, msg, p.ProtocolVersionDse2)
		c.Eval(1)
		if err == nil {
			rf, ok := out.(*message.ReadFailure)
			if !ok || len(rf.FailureReasons) != 1 || uint64(rf.FailureReasons[0].Code) != e.U {
				err = fmt.Errorf("decoded as %v", out)
			}
		}
		if err != nil {
			f.codecFail = append(f.codecFail, fmt.Sprintf("READ_FAILURE with reason code %s in DSEv2: %v", e.valueText(), err))
		}
	}

	// SchemaChangeType / SchemaChangeTarget / StatusChangeType / TopologyChangeType through EVENT
	inet := &p.Inet{Addr: localhost, Port: 9042}
	eventTrip := func(f *finding, msg message.Message, i int, same func(message.Message) bool, what string) {
		out, err := roundTrip(evCodec, msg, specVersions[i])
		c.Eval(1)
		if err == nil && !same(out) {
			err = fmt.Errorf("decoded as %v", out)
		}
		if err != nil {
			f.codecFail = append(f.codecFail, fmt.Sprintf("EVENT with %s in %s: %v", what, specVersionNames[i], err))
		}
	}
	for _, e := range k.constsOf("SchemaChangeType") {
		f := k.finding(e)
		c.Distinct("codec/SchemaChangeType/" + e.Name)
		for i, ver := range specVersions {
			eventTrip(f, schemaChangeEvent(e.S, "TABLE", ver), i, func(m message.Message) bool {
				sce, ok := m.(*message.SchemaChangeEvent)
				return ok && string(sce.ChangeType) == e.S
			}, fmt.Sprintf("change type %q", e.S))
		}
	}
	for _, e := range k.constsOf("StatusChangeType") {
		f := k.finding(e)
		c.Distinct("codec/StatusChangeType/" + e.Name)
		for i := range specVersions {
			eventTrip(f, &message.StatusChangeEvent{ChangeType: p.StatusChangeType(e.S), Address: inet}, i, func(m message.Message) bool {
				sce, ok := m.(*message.StatusChangeEvent)
				return ok && string(sce.ChangeType) == e.S
			}, fmt.Sprintf("status change %q", e.S))
		}
	}
	for _, e := range k.constsOf("SchemaChangeTarget") {
		cells, ok := specSchemaTargets[e.S]
		if !ok {
			continue
		}
		f := k.finding(e)
		c.Distinct("codec/SchemaChangeTarget/" + e.Name)
		for i, ver := range specVersions {
			if cells[i] != 'T' {
				continue
			}
			eventTrip(f, schemaChangeEvent("CREATED", e.S, ver), i, func(m message.Message) bool {
				sce, ok := m.(*message.SchemaChangeEvent)
				return ok && string(sce.Target) == e.S
			}, fmt.Sprintf("target %q", e.S))
		}
	}
	for _, e := range k.constsOf("TopologyChangeType") {
		cells, ok := specTopologyTypes[e.S]
		if !ok {
			continue
		}
		f := k.finding(e)
		c.Distinct("codec/TopologyChangeType/" + e.Name)
		for i := range specVersions {
			if cells[i] != 'T' {
				continue
			}
			eventTrip(f, &message.TopologyChangeEvent{ChangeType: p.TopologyChangeType(e.S), Address: inet}, i, func(m message.Message) bool {
				tce, ok := m.(*message.TopologyChangeEvent)
				return ok && string(tce.ChangeType) == e.S
			}, fmt.Sprintf("topology change %q", e.S))
		}
	}
}
