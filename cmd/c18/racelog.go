package main

// Parser for the Go race detector's report format (GORACE=log_path=...):
//
//	==================
//	WARNING: DATA RACE
//	Write at 0x00c0000b4010 by goroutine 8:
//	  pkg.fn()
//	      /path/file.go:12 +0x44
//	  ...
//
//	Previous write at 0x00c0000b4010 by goroutine 7:
//	  [failed to restore the stack]            (possible)
//	  ...
//
//	Goroutine 8 (running) created at:
//	  ...
//	==================

import (
	"sort"
	"strings"
)

const modulePrefix = "github.com/datastax/go-cassandra-native-protocol/"

// packages whose code is "the codecs" for C18
var libraryMarks = []string{"/frame.", "/segment.", "/message.", "/datacodec.", "/compression/", "/primitive.", "/datatype.", "/crc."}

type raceBlock struct {
	Headers []string   // "Write at 0x… by goroutine 8:" / "Previous read at …"
	Stacks  [][]string // function names (innermost first) of the access stacks, args and line numbers stripped
	Raw     string
}

func isLibraryFunc(fn string) bool {
	if !strings.HasPrefix(fn, modulePrefix) {
		return false
	}
	s := "/" + strings.TrimPrefix(fn, modulePrefix)
	for _, m := range libraryMarks {
		if strings.Contains(s, m) {
			return true
		}
	}
	return false
}

func shortFunc(fn string) string {
	return strings.ReplaceAll(strings.TrimPrefix(fn, modulePrefix), " ", "")
}

// topLibrary returns the innermost library function of a stack, "" if the stack has none.
func topLibrary(stack []string) string {
	for _, fn := range stack {
		if isLibraryFunc(fn) {
			return shortFunc(fn)
		}
	}
	return ""
}

func stackHas(stack []string, sub string) bool {
	for _, fn := range stack {
		if strings.Contains(fn, sub) {
			return true
		}
	}
	return false
}

func parseRaceLog(text string) []raceBlock {
	var out []raceBlock
	lines := strings.Split(text, "\n")
	for i := 0; i < len(lines); i++ {
		if strings.TrimSpace(lines[i]) != "WARNING: DATA RACE" {
			continue
		}
		j := i + 1
		for j < len(lines) && !strings.HasPrefix(lines[j], "==================") {
			j++
		}
		body := lines[i+1 : j]
		b := raceBlock{Raw: strings.Join(lines[i:j], "\n")}
		// sections are separated by empty lines
		var sec []string
		flush := func() {
			if len(sec) == 0 {
				return
			}
			h := strings.TrimSpace(sec[0])
			lh := strings.ToLower(h)
			isAccess := strings.HasPrefix(lh, "read at") || strings.HasPrefix(lh, "write at") ||
				strings.HasPrefix(lh, "previous read at") || strings.HasPrefix(lh, "previous write at") ||
				strings.HasPrefix(lh, "atomic read at") || strings.HasPrefix(lh, "atomic write at") ||
				strings.HasPrefix(lh, "previous atomic read at") || strings.HasPrefix(lh, "previous atomic write at")
			if isAccess {
				var st []string
				for _, l := range sec[1:] {
					if strings.HasPrefix(l, "  ") && !strings.HasPrefix(l, "   ") {
						fn := strings.TrimSpace(l)
						if k := strings.LastIndex(fn, "("); k > 0 && strings.HasSuffix(fn, ")") {
							fn = fn[:k]
						}
						st = append(st, fn)
					}
				}
				b.Headers = append(b.Headers, h)
				b.Stacks = append(b.Stacks, st)
			}
			sec = nil
		}
		for _, l := range body {
			if strings.TrimSpace(l) == "" {
				flush()
			} else {
				sec = append(sec, l)
			}
		}
		flush()
		out = append(out, b)
		i = j
	}
	return out
}

type raceClass int

const (
	classLibrary raceClass = iota
	classHarness
	classCanary
)

// classify returns the class of a block and, for library races, the de-duplication pair.
func (b *raceBlock) classify() (raceClass, string) {
	var tops []string
	canary := len(b.Stacks) > 0
	for _, st := range b.Stacks {
		if !stackHas(st, "main.raceCanary") {
			canary = false
		}
		if t := topLibrary(st); t != "" {
			tops = append(tops, t)
		}
	}
	if canary {
		return classCanary, ""
	}
	if len(tops) == 0 {
		return classHarness, ""
	}
	for len(tops) < 2 {
		tops = append(tops, "-") // other stack: not in the library, or not restorable
	}
	sort.Strings(tops)
	return classLibrary, tops[0] + "|" + tops[1]
}
