//go:build amd64

#include "textflag.h"

// func xadd32(p *int32, d int32) int32
// LOCK XADDL, returns the NEW value. Written in assembly on purpose: the race detector does not
// instrument assembly, so the overlap counters do not create happens-before edges between the
// stress goroutines (sync/atomic would, and would hide races between calls that do not overlap in
// real time).
TEXT ·xadd32(SB), NOSPLIT, $0-20
	MOVQ	p+0(FP), BX
	MOVL	d+8(FP), AX
	MOVL	AX, CX
	LOCK
	XADDL	AX, 0(BX)
	ADDL	CX, AX
	MOVL	AX, ret+16(FP)
	RET
