package main

// Snappy large-body phase: frames whose body is longer than 256 KiB once decompressed, decoded by ALL
// goroutines at the same moment (a barrier before every round), so that anything that limits or
// serialises large bodies is hit by more callers than it has room for. Each goroutine has its own
// frame; every result is compared with the sequential reference.

import (
	"bytes"
	"sync"

	"github.com/datastax/go-cassandra-native-protocol/frame"
	"github.com/datastax/go-cassandra-native-protocol/message"
	"github.com/datastax/go-cassandra-native-protocol/primitive"

	"verif/internal/mon"
)

const largeGoroutines = 16

var (
	idLargeSnappy int
	largeInside   int32
)

func init() { idLargeSnappy = reg("frame.NewRawCodecWithCompression(snappy)[>256KiB]") }

func snappyLargePhase(c *mon.Ctx, label string, rounds int) map[string]interface{} {
	calls := make([][]*call, largeGoroutines)
	b := &builder{}
	for g := range calls {
		r := mon.NewRand(c.Seed, uint64(0x500000+g))
		n := 300<<10 + r.Intn(300<<10)
		if raceEnabled {
			n = 270<<10 + r.Intn(60<<10) // the -race build pays for every byte
		}
		var body []byte
		if g%2 == 0 {
			body = semi(r, n)
		} else {
			_, body = bigInput(r, 2, n) // half random, half text
		}
		q := &message.Query{Query: text(r, 80), Options: &message.QueryOptions{Consistency: primitive.ConsistencyLevelQuorum, PositionalValues: []*primitive.Value{primitive.NewValue(body)}}}
		f := frame.NewFrame(pick(r, v3, v4, dse2), int16(r.Intn(1<<15)), q)
		f.SetCompress(true)
		kind := "QUERY/" + vname(f.Header.Version) + "+compressed/body>256KiB"
		from := len(b.calls)
		enc, ok := b.addRun(idLargeSnappy, "EncodeFrame", kind, false, func() (interface{}, error) {
			var buf bytes.Buffer
			err := fcSnappy.EncodeFrame(f, &buf)
			return buf.Bytes(), err
		})
		if ok {
			dec := b.add(idLargeSnappy, "DecodeFrame", kind, false, func() (interface{}, error) {
				src := bytes.NewReader(enc)
				df, err := fcSnappy.DecodeFrame(src)
				return decoded{df, src.Len()}, err
			})
			res, errs, _, _ := dec.exec() // sequential reference
			dec.setWant(res, errs)
		}
		calls[g] = b.calls[from:]
		for _, cl := range calls[g] {
			c.Distinct(cl.sig())
		}
	}
	reps := 3
	if raceEnabled {
		reps = 2
	}
	maxOv := make([]int32, largeGoroutines)
	bad := make([]int, largeGoroutines)
	n := make([]int, largeGoroutines)
	var wg sync.WaitGroup
	for round := 0; round < rounds; round++ {
		start := make(chan struct{})
		for g := 0; g < largeGoroutines; g++ {
			wg.Add(1)
			go func(g int) {
				defer wg.Done()
				<-start
				for rep := 0; rep < reps; rep++ {
					for i := len(calls[g]) - 1; i >= 0; i-- { // decode first: everybody decodes at the same moment
						cl := calls[g][i]
						if rep > 0 && cl.op != "DecodeFrame" {
							continue
						}
						ov := xadd32(&largeInside, 1)
						if ov > maxOv[g] {
							maxOv[g] = ov
						}
						res, errs := guarded(cl.fn)
						xadd32(&largeInside, -1)
						n[g]++
						if !cl.same(res, errs) {
							bad[g]++
							name := sharedList[cl.codec].name
							c.Violation("mismatch/"+name+"/"+cl.op, map[string]interface{}{
								"phase": "snappy large bodies, all goroutines released together", "build": label, "race_build": raceEnabled, "seed": c.Seed, "tier": c.Tier,
								"M": largeGoroutines, "goroutine": g, "round": round, "codec": name, "op": cl.op, "input_kind": cl.kind,
								"sequential": show(cl.want), "sequential_err": cl.wantErr, "concurrent": show(res), "concurrent_err": errs, "simultaneous_calls_at_entry": ov,
							})
						}
					}
				}
			}(g)
		}
		close(start)
		wg.Wait()
	}
	var mx int32
	total, bads := 0, 0
	for g := range maxOv {
		if maxOv[g] > mx {
			mx = maxOv[g]
		}
		total += n[g]
		bads += bad[g]
	}
	c.Eval(total)
	c.Count("calls_"+sharedList[idLargeSnappy].name, int64(total))
	c.Count("mismatches", int64(bads))
	c.Max("max_overlap_snappy_large_bodies", int64(mx))
	return map[string]interface{}{"goroutines": largeGoroutines, "rounds": rounds, "calls": total, "max_simultaneous_calls": mx, "mismatches": bads}
}
