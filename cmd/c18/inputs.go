package main

// Input generation. Everything returned by the functions of this file is PRIVATE to the goroutine
// it was generated for: frames, headers, segments, byte slices and Go values are never shared
// between stress goroutines (EncodeFrame writes Header.BodyLength, EncodeSegment writes the
// segment header and Payload.Crc32 - sharing an input object would be a race made by the harness).
// Only codec instances and the library's own package-level objects (datatype.Int, ...) are shared.

import (
	"fmt"
	"math/big"
	"net"
	"time"

	"github.com/datastax/go-cassandra-native-protocol/datacodec"
	"github.com/datastax/go-cassandra-native-protocol/datatype"
	"github.com/datastax/go-cassandra-native-protocol/frame"
	"github.com/datastax/go-cassandra-native-protocol/message"
	"github.com/datastax/go-cassandra-native-protocol/primitive"
	"github.com/datastax/go-cassandra-native-protocol/segment"

	"verif/internal/mon"
)

var (
	v2   = primitive.ProtocolVersion2
	v3   = primitive.ProtocolVersion3
	v4   = primitive.ProtocolVersion4
	v5   = primitive.ProtocolVersion5
	dse1 = primitive.ProtocolVersionDse1
	dse2 = primitive.ProtocolVersionDse2
)

func vname(v primitive.ProtocolVersion) string {
	switch v {
	case v2:
		return "v2"
	case v3:
		return "v3"
	case v4:
		return "v4"
	case v5:
		return "v5"
	case dse1:
		return "dse1"
	case dse2:
		return "dse2"
	}
	return fmt.Sprintf("v?%d", v)
}

var words = []string{"SELECT", "FROM", "WHERE", "ks1", "table_a", "pk", "ck", "value", "INSERT", "INTO", "USING", "TTL",
	"système", "größe", "日本語", "AND", "=", "?", ":named", "LIMIT", "ALLOW", "FILTERING", "token(", ")", "0x1f", "'quoted ''x'''"}

// text returns semi-random text: random words separated by random printable noise, so that its
// compression ratio stays far below 8 (D1: the lz4 decompressor fails beyond ratio 8, which would
// turn the interesting calls into uninteresting errors).
func text(r *mon.Rand, n int) string {
	b := make([]byte, 0, n+16)
	for len(b) < n {
		b = append(b, words[r.Intn(len(words))]...)
		b = append(b, ' ')
		k := r.Intn(6)
		for i := 0; i < k; i++ {
			b = append(b, byte('!'+r.Intn(90)))
		}
	}
	return string(b)
}

func ident(r *mon.Rand) string {
	return fmt.Sprintf("%s_%x", []string{"ks", "tbl", "col", "udt", "fn"}[r.Intn(5)], r.Intn(1<<16))
}

// semi returns n bytes, part random and part repetitive (compressible but ratio < ~3).
func semi(r *mon.Rand, n int) []byte {
	b := r.Bytes(n)
	for i := 0; i+16 <= n; i += 32 {
		copy(b[i:i+16], "0123456789abcdef")
	}
	return b
}

func pick[T any](r *mon.Rand, xs ...T) T { return xs[r.Intn(len(xs))] }

func ptr[T any](v T) *T { return &v }

var consistencies = []primitive.ConsistencyLevel{primitive.ConsistencyLevelOne, primitive.ConsistencyLevelQuorum,
	primitive.ConsistencyLevelAll, primitive.ConsistencyLevelLocalQuorum, primitive.ConsistencyLevelLocalOne, primitive.ConsistencyLevelAny}

func genValue(r *mon.Rand, v primitive.ProtocolVersion) *primitive.Value {
	switch r.Intn(6) {
	case 0:
		return primitive.NewNullValue()
	case 1:
		if v.SupportsUnsetValues() {
			return primitive.NewUnsetValue()
		}
		return primitive.NewValue([]byte{})
	default:
		return primitive.NewValue(r.Bytes(1 + r.Intn(40)))
	}
}

func genValues(r *mon.Rand, v primitive.ProtocolVersion, n int) []*primitive.Value {
	out := make([]*primitive.Value, n)
	for i := range out {
		out[i] = genValue(r, v)
	}
	return out
}

// genDataType builds a (possibly nested) CQL type descriptor valid for version v.
func genDataType(r *mon.Rand, v primitive.ProtocolVersion, depth int) datatype.DataType {
	prims := []datatype.DataType{datatype.Ascii, datatype.Bigint, datatype.Blob, datatype.Boolean, datatype.Counter,
		datatype.Decimal, datatype.Double, datatype.Float, datatype.Inet, datatype.Int, datatype.Timestamp,
		datatype.Timeuuid, datatype.Uuid, datatype.Varchar, datatype.Varint}
	if v >= v4 {
		prims = append(prims, datatype.Date, datatype.Time, datatype.Smallint, datatype.Tinyint)
	}
	if v >= v5 {
		prims = append(prims, datatype.Duration)
	}
	if depth <= 0 || r.Intn(3) > 0 {
		return prims[r.Intn(len(prims))]
	}
	n := 4
	if v >= v3 {
		n = 6
	}
	switch r.Intn(n) {
	case 0:
		return datatype.NewList(genDataType(r, v, depth-1))
	case 1:
		return datatype.NewSet(genDataType(r, v, depth-1))
	case 2:
		return datatype.NewMap(genDataType(r, v, depth-1), genDataType(r, v, depth-1))
	case 3:
		return datatype.NewCustom("org.apache.cassandra.db.marshal." + ident(r))
	case 4:
		k := 1 + r.Intn(3)
		fs := make([]datatype.DataType, k)
		for i := range fs {
			fs[i] = genDataType(r, v, depth-1)
		}
		return datatype.NewTuple(fs...)
	default:
		k := 1 + r.Intn(3)
		names := make([]string, k)
		fs := make([]datatype.DataType, k)
		for i := range fs {
			names[i] = fmt.Sprintf("f%d_%s", i, ident(r))
			fs[i] = genDataType(r, v, depth-1)
		}
		u, _ := datatype.NewUserDefined(ident(r), ident(r), names, fs)
		return u
	}
}

func genColumns(r *mon.Rand, v primitive.ProtocolVersion, n int, sameTable bool) []*message.ColumnMetadata {
	ks, tb := ident(r), ident(r)
	cols := make([]*message.ColumnMetadata, n)
	for i := range cols {
		c := &message.ColumnMetadata{Keyspace: ks, Table: tb, Name: ident(r), Index: int32(i), Type: genDataType(r, v, 2)}
		if !sameTable && i > 0 {
			c.Keyspace, c.Table = ident(r), ident(r)
		}
		cols[i] = c
	}
	return cols
}

func genRowsMetadata(r *mon.Rand, v primitive.ProtocolVersion, ncols int, withCols bool) *message.RowsMetadata {
	m := &message.RowsMetadata{ColumnCount: int32(ncols)}
	if withCols && ncols > 0 {
		m.Columns = genColumns(r, v, ncols, r.Bool())
	}
	if r.Bool() {
		m.PagingState = r.Bytes(1 + r.Intn(24))
	}
	if v.SupportsResultMetadataId() && r.Intn(3) == 0 {
		m.NewResultMetadataId = r.Bytes(16)
	}
	if v.IsDse() && r.Intn(3) == 0 {
		m.ContinuousPageNumber = int32(1 + r.Intn(100))
		m.LastContinuousPage = r.Bool()
	}
	return m
}

func genQueryOptions(r *mon.Rand, v primitive.ProtocolVersion, named int) *message.QueryOptions {
	o := &message.QueryOptions{Consistency: pick(r, consistencies...)}
	if named > 0 && v >= v3 {
		o.NamedValues = map[string]*primitive.Value{}
		for i := 0; i < named; i++ {
			o.NamedValues[fmt.Sprintf("n%d_%s", i, ident(r))] = genValue(r, v)
		}
	} else if r.Intn(4) > 0 {
		o.PositionalValues = genValues(r, v, 1+r.Intn(6))
	}
	o.SkipMetadata = r.Bool()
	if r.Bool() {
		o.PageSize = int32(1 + r.Intn(5000))
		if v.IsDse() {
			o.PageSizeInBytes = r.Bool()
		}
	}
	if r.Bool() {
		o.PagingState = r.Bytes(1 + r.Intn(32))
	}
	if r.Bool() {
		o.SerialConsistency = ptr(pick(r, primitive.ConsistencyLevelSerial, primitive.ConsistencyLevelLocalSerial))
	}
	if v >= v3 && r.Bool() {
		o.DefaultTimestamp = ptr(int64(r.Uint64() >> 2))
	}
	if (v == v5 || v == dse2) && r.Bool() {
		o.Keyspace = ident(r)
	}
	if v == v5 && r.Bool() {
		o.NowInSeconds = ptr(int32(r.Intn(1 << 30)))
	}
	if v.IsDse() && r.Bool() {
		o.ContinuousPagingOptions = &message.ContinuousPagingOptions{MaxPages: int32(r.Intn(100)), PagesPerSecond: int32(r.Intn(100))}
		if v == dse2 {
			o.ContinuousPagingOptions.NextPages = int32(r.Intn(10))
		}
	}
	return o
}

func genInet(r *mon.Rand) *primitive.Inet {
	if r.Bool() {
		return &primitive.Inet{Addr: net.IP(r.Bytes(4)), Port: int32(r.Intn(65536))}
	}
	return &primitive.Inet{Addr: net.IP(r.Bytes(16)), Port: int32(r.Intn(65536))}
}

func genReasons(r *mon.Rand) []*primitive.FailureReason {
	n := 1 + r.Intn(3)
	out := make([]*primitive.FailureReason, n)
	for i := range out {
		ip := net.IP(r.Bytes(pick(r, 4, 16)))
		out[i] = &primitive.FailureReason{Endpoint: ip, Code: pick(r, primitive.FailureCodeUnknown, primitive.FailureCodeTooManyTombstonesRead,
			primitive.FailureCodeIndexNotAvailable, primitive.FailureCodeTableNotFound)}
	}
	return out
}

// msgCase is one generated message with the protocol version it is meant for.
type msgCase struct {
	kind      string
	v         primitive.ProtocolVersion
	msg       message.Message
	unordered bool // the message holds a Go map with more than one entry: its encoding order is not deterministic
}

type msgGen struct {
	name string
	vs   []primitive.ProtocolVersion
	gen  func(r *mon.Rand, v primitive.ProtocolVersion) (message.Message, bool)
}

var (
	allV    = []primitive.ProtocolVersion{v2, v3, v4, v5, dse1, dse2}
	modernV = []primitive.ProtocolVersion{v3, v4, v5, dse1, dse2}
	v4plus  = []primitive.ProtocolVersion{v4, v5, dse1, dse2}
	dseV    = []primitive.ProtocolVersion{dse1, dse2}
)

var msgGens = []msgGen{
	{"STARTUP/1opt", allV, func(r *mon.Rand, v primitive.ProtocolVersion) (message.Message, bool) {
		return message.NewStartup(), false
	}},
	{"STARTUP/multi", allV, func(r *mon.Rand, v primitive.ProtocolVersion) (message.Message, bool) {
		s := message.NewStartup("COMPRESSION", pick(r, "lz4", "snappy"), "DRIVER_NAME", ident(r), "DRIVER_VERSION", fmt.Sprint(r.Intn(100)))
		return s, true
	}},
	{"OPTIONS", allV, func(r *mon.Rand, v primitive.ProtocolVersion) (message.Message, bool) {
		return &message.Options{}, false
	}},
	{"QUERY/simple", allV, func(r *mon.Rand, v primitive.ProtocolVersion) (message.Message, bool) {
		return &message.Query{Query: text(r, 20+r.Intn(200)), Options: &message.QueryOptions{Consistency: pick(r, consistencies...)}}, false
	}},
	{"QUERY/options", modernV, func(r *mon.Rand, v primitive.ProtocolVersion) (message.Message, bool) {
		return &message.Query{Query: text(r, 20+r.Intn(400)), Options: genQueryOptions(r, v, 0)}, false
	}},
	{"QUERY/named1", modernV, func(r *mon.Rand, v primitive.ProtocolVersion) (message.Message, bool) {
		return &message.Query{Query: text(r, 20+r.Intn(100)), Options: genQueryOptions(r, v, 1)}, false
	}},
	{"QUERY/named3", modernV, func(r *mon.Rand, v primitive.ProtocolVersion) (message.Message, bool) {
		return &message.Query{Query: text(r, 20+r.Intn(100)), Options: genQueryOptions(r, v, 3)}, true
	}},
	{"QUERY/large", modernV, func(r *mon.Rand, v primitive.ProtocolVersion) (message.Message, bool) {
		o := &message.QueryOptions{Consistency: primitive.ConsistencyLevelLocalQuorum, PositionalValues: []*primitive.Value{primitive.NewValue(semi(r, 2000+r.Intn(6000)))}}
		return &message.Query{Query: text(r, 1000+r.Intn(3000)), Options: o}, false
	}},
	{"QUERY/compressible", modernV, func(r *mon.Rand, v primitive.ProtocolVersion) (message.Message, bool) {
		// a body that LZ4/snappy compress a lot, with a ratio that differs from message to message
		_, val := compressible(r, 300+r.Intn(4000), r.Intn(3))
		o := &message.QueryOptions{Consistency: primitive.ConsistencyLevelOne, PositionalValues: []*primitive.Value{primitive.NewValue(val)}}
		return &message.Query{Query: "INSERT INTO t (k, v) VALUES (?, ?)", Options: o}, false
	}},
	{"PREPARE", allV, func(r *mon.Rand, v primitive.ProtocolVersion) (message.Message, bool) {
		p := &message.Prepare{Query: text(r, 20+r.Intn(200))}
		if (v == v5 || v == dse2) && r.Bool() {
			p.Keyspace = ident(r)
		}
		return p, false
	}},
	{"EXECUTE", modernV, func(r *mon.Rand, v primitive.ProtocolVersion) (message.Message, bool) {
		e := &message.Execute{QueryId: r.Bytes(16), Options: genQueryOptions(r, v, 0)}
		if v.SupportsResultMetadataId() {
			e.ResultMetadataId = r.Bytes(16)
		}
		return e, false
	}},
	{"REGISTER", allV, func(r *mon.Rand, v primitive.ProtocolVersion) (message.Message, bool) {
		ev := []primitive.EventType{primitive.EventTypeSchemaChange, primitive.EventTypeStatusChange, primitive.EventTypeTopologyChange}
		return &message.Register{EventTypes: ev[:1+r.Intn(3)]}, false
	}},
	{"BATCH", modernV, func(r *mon.Rand, v primitive.ProtocolVersion) (message.Message, bool) {
		b := &message.Batch{Type: pick(r, primitive.BatchTypeLogged, primitive.BatchTypeUnlogged, primitive.BatchTypeCounter), Consistency: pick(r, consistencies...)}
		n := 1 + r.Intn(5)
		for i := 0; i < n; i++ {
			ch := &message.BatchChild{Values: genValues(r, v, r.Intn(4))}
			if r.Bool() {
				ch.Query = text(r, 20+r.Intn(80))
			} else {
				ch.Id = r.Bytes(16)
			}
			b.Children = append(b.Children, ch)
		}
		if r.Bool() {
			b.SerialConsistency = ptr(primitive.ConsistencyLevelSerial)
		}
		if r.Bool() {
			b.DefaultTimestamp = ptr(int64(r.Uint64() >> 2))
		}
		if (v == v5 || v == dse2) && r.Bool() {
			b.Keyspace = ident(r)
		}
		if v == v5 && r.Bool() {
			b.NowInSeconds = ptr(int32(r.Intn(1 << 30)))
		}
		return b, false
	}},
	{"AUTH_RESPONSE", allV, func(r *mon.Rand, v primitive.ProtocolVersion) (message.Message, bool) {
		return &message.AuthResponse{Token: r.Bytes(1 + r.Intn(64))}, false
	}},
	{"REVISE", dseV, func(r *mon.Rand, v primitive.ProtocolVersion) (message.Message, bool) {
		if v == dse2 && r.Bool() {
			return &message.Revise{RevisionType: primitive.DseRevisionTypeMoreContinuousPages, TargetStreamId: int32(r.Intn(1000)), NextPages: int32(1 + r.Intn(10))}, false
		}
		return &message.Revise{RevisionType: primitive.DseRevisionTypeCancelContinuousPaging, TargetStreamId: int32(r.Intn(1000))}, false
	}},
	// responses
	{"ERROR/simple", allV, func(r *mon.Rand, v primitive.ProtocolVersion) (message.Message, bool) {
		m := text(r, 10+r.Intn(100))
		switch r.Intn(8) {
		case 0:
			return &message.ServerError{ErrorMessage: m}, false
		case 1:
			return &message.ProtocolError{ErrorMessage: m}, false
		case 2:
			return &message.AuthenticationError{ErrorMessage: m}, false
		case 3:
			return &message.Overloaded{ErrorMessage: m}, false
		case 4:
			return &message.SyntaxError{ErrorMessage: m}, false
		case 5:
			return &message.Invalid{ErrorMessage: m}, false
		case 6:
			return &message.Unauthorized{ErrorMessage: m}, false
		default:
			return &message.TruncateError{ErrorMessage: m}, false
		}
	}},
	{"ERROR/Unavailable", allV, func(r *mon.Rand, v primitive.ProtocolVersion) (message.Message, bool) {
		return &message.Unavailable{ErrorMessage: text(r, 30), Consistency: pick(r, consistencies...), Required: int32(r.Intn(10)), Alive: int32(r.Intn(5))}, false
	}},
	{"ERROR/ReadTimeout", allV, func(r *mon.Rand, v primitive.ProtocolVersion) (message.Message, bool) {
		return &message.ReadTimeout{ErrorMessage: text(r, 30), Consistency: pick(r, consistencies...), Received: int32(r.Intn(5)), BlockFor: int32(r.Intn(5)), DataPresent: r.Bool()}, false
	}},
	{"ERROR/WriteTimeout", allV, func(r *mon.Rand, v primitive.ProtocolVersion) (message.Message, bool) {
		return &message.WriteTimeout{ErrorMessage: text(r, 30), Consistency: pick(r, consistencies...), Received: int32(r.Intn(5)), BlockFor: int32(r.Intn(5)),
			WriteType: pick(r, primitive.WriteTypeSimple, primitive.WriteTypeBatch, primitive.WriteTypeCounter, primitive.WriteTypeBatchLog)}, false
	}},
	{"ERROR/ReadFailure", v4plus, func(r *mon.Rand, v primitive.ProtocolVersion) (message.Message, bool) {
		m := &message.ReadFailure{ErrorMessage: text(r, 30), Consistency: pick(r, consistencies...), Received: int32(r.Intn(5)), BlockFor: int32(r.Intn(5)), DataPresent: r.Bool()}
		if v.SupportsReadWriteFailureReasonMap() {
			m.FailureReasons = genReasons(r)
		} else {
			m.NumFailures = int32(1 + r.Intn(4))
		}
		return m, false
	}},
	{"ERROR/WriteFailure", v4plus, func(r *mon.Rand, v primitive.ProtocolVersion) (message.Message, bool) {
		m := &message.WriteFailure{ErrorMessage: text(r, 30), Consistency: pick(r, consistencies...), Received: int32(r.Intn(5)), BlockFor: int32(r.Intn(5)),
			WriteType: pick(r, primitive.WriteTypeSimple, primitive.WriteTypeBatch, primitive.WriteTypeUnloggedBatch)}
		if v.SupportsReadWriteFailureReasonMap() {
			m.FailureReasons = genReasons(r)
		} else {
			m.NumFailures = int32(1 + r.Intn(4))
		}
		return m, false
	}},
	{"ERROR/FunctionFailure", v4plus, func(r *mon.Rand, v primitive.ProtocolVersion) (message.Message, bool) {
		return &message.FunctionFailure{ErrorMessage: text(r, 30), Keyspace: ident(r), Function: ident(r), Arguments: []string{"int", "varchar", ident(r)}[:1+r.Intn(3)]}, false
	}},
	{"ERROR/Unprepared", allV, func(r *mon.Rand, v primitive.ProtocolVersion) (message.Message, bool) {
		return &message.Unprepared{ErrorMessage: text(r, 30), Id: r.Bytes(16)}, false
	}},
	{"ERROR/AlreadyExists", allV, func(r *mon.Rand, v primitive.ProtocolVersion) (message.Message, bool) {
		return &message.AlreadyExists{ErrorMessage: text(r, 30), Keyspace: ident(r), Table: ident(r)}, false
	}},
	{"READY", allV, func(r *mon.Rand, v primitive.ProtocolVersion) (message.Message, bool) { return &message.Ready{}, false }},
	{"AUTHENTICATE", allV, func(r *mon.Rand, v primitive.ProtocolVersion) (message.Message, bool) {
		return &message.Authenticate{Authenticator: "org.apache.cassandra.auth." + ident(r)}, false
	}},
	{"SUPPORTED/1", allV, func(r *mon.Rand, v primitive.ProtocolVersion) (message.Message, bool) {
		return &message.Supported{Options: map[string][]string{"COMPRESSION": {"lz4", "snappy", ident(r)}}}, false
	}},
	{"SUPPORTED/multi", allV, func(r *mon.Rand, v primitive.ProtocolVersion) (message.Message, bool) {
		return &message.Supported{Options: map[string][]string{"COMPRESSION": {"lz4", "snappy"}, "CQL_VERSION": {"3.4.5", ident(r)}, "PROTOCOL_VERSIONS": {"3/v3", "4/v4", "5/v5"}}}, true
	}},
	{"RESULT/Void", allV, func(r *mon.Rand, v primitive.ProtocolVersion) (message.Message, bool) {
		return &message.VoidResult{}, false
	}},
	{"RESULT/SetKeyspace", allV, func(r *mon.Rand, v primitive.ProtocolVersion) (message.Message, bool) {
		return &message.SetKeyspaceResult{Keyspace: ident(r)}, false
	}},
	{"RESULT/SchemaChange", modernV, func(r *mon.Rand, v primitive.ProtocolVersion) (message.Message, bool) {
		m := &message.SchemaChangeResult{ChangeType: pick(r, primitive.SchemaChangeTypeCreated, primitive.SchemaChangeTypeUpdated, primitive.SchemaChangeTypeDropped), Keyspace: ident(r)}
		switch r.Intn(4) {
		case 0:
			m.Target = primitive.SchemaChangeTargetKeyspace
		case 1:
			m.Target, m.Object = primitive.SchemaChangeTargetTable, ident(r)
		case 2:
			m.Target, m.Object = primitive.SchemaChangeTargetType, ident(r)
		default:
			if v >= v4 {
				m.Target, m.Object, m.Arguments = pick(r, primitive.SchemaChangeTargetFunction, primitive.SchemaChangeTargetAggregate), ident(r), []string{"int", "text"}
			} else {
				m.Target, m.Object = primitive.SchemaChangeTargetTable, ident(r)
			}
		}
		return m, false
	}},
	{"RESULT/Prepared", modernV, func(r *mon.Rand, v primitive.ProtocolVersion) (message.Message, bool) {
		m := &message.PreparedResult{PreparedQueryId: r.Bytes(16)}
		if v.SupportsResultMetadataId() {
			m.ResultMetadataId = r.Bytes(16)
		}
		nv := 1 + r.Intn(5)
		m.VariablesMetadata = &message.VariablesMetadata{Columns: genColumns(r, v, nv, r.Bool())}
		if v >= v4 && r.Bool() {
			m.VariablesMetadata.PkIndices = []uint16{0}
		}
		nc := r.Intn(6)
		m.ResultMetadata = &message.RowsMetadata{ColumnCount: int32(nc)}
		if nc > 0 {
			m.ResultMetadata.Columns = genColumns(r, v, nc, r.Bool())
		}
		return m, false
	}},
	{"RESULT/Rows", modernV, func(r *mon.Rand, v primitive.ProtocolVersion) (message.Message, bool) {
		nc := 1 + r.Intn(6)
		m := &message.RowsResult{Metadata: genRowsMetadata(r, v, nc, true)}
		nr := r.Intn(12)
		m.Data = make(message.RowSet, nr)
		for i := range m.Data {
			row := make(message.Row, nc)
			for j := range row {
				if r.Intn(5) > 0 {
					row[j] = r.Bytes(r.Intn(48))
				}
			}
			m.Data[i] = row
		}
		return m, false
	}},
	{"RESULT/Rows/nometa", modernV, func(r *mon.Rand, v primitive.ProtocolVersion) (message.Message, bool) {
		nc := 1 + r.Intn(4)
		m := &message.RowsResult{Metadata: genRowsMetadata(r, v, nc, false)}
		nr := 1 + r.Intn(30)
		m.Data = make(message.RowSet, nr)
		for i := range m.Data {
			row := make(message.Row, nc)
			for j := range row {
				row[j] = semi(r, 8+r.Intn(100))
			}
			m.Data[i] = row
		}
		return m, false
	}},
	{"EVENT/SchemaChange", modernV, func(r *mon.Rand, v primitive.ProtocolVersion) (message.Message, bool) {
		m := &message.SchemaChangeEvent{ChangeType: pick(r, primitive.SchemaChangeTypeCreated, primitive.SchemaChangeTypeUpdated, primitive.SchemaChangeTypeDropped), Keyspace: ident(r)}
		switch r.Intn(3) {
		case 0:
			m.Target = primitive.SchemaChangeTargetKeyspace
		case 1:
			m.Target, m.Object = primitive.SchemaChangeTargetTable, ident(r)
		default:
			if v >= v4 {
				m.Target, m.Object, m.Arguments = primitive.SchemaChangeTargetFunction, ident(r), []string{"int", "text"}
			} else {
				m.Target, m.Object = primitive.SchemaChangeTargetType, ident(r)
			}
		}
		return m, false
	}},
	{"EVENT/StatusChange", allV, func(r *mon.Rand, v primitive.ProtocolVersion) (message.Message, bool) {
		return &message.StatusChangeEvent{ChangeType: pick(r, primitive.StatusChangeTypeUp, primitive.StatusChangeTypeDown), Address: genInet(r)}, false
	}},
	{"EVENT/TopologyChange", allV, func(r *mon.Rand, v primitive.ProtocolVersion) (message.Message, bool) {
		return &message.TopologyChangeEvent{ChangeType: pick(r, primitive.TopologyChangeTypeNewNode, primitive.TopologyChangeTypeRemovedNode), Address: genInet(r)}, false
	}},
	{"AUTH_CHALLENGE", allV, func(r *mon.Rand, v primitive.ProtocolVersion) (message.Message, bool) {
		return &message.AuthChallenge{Token: r.Bytes(1 + r.Intn(64))}, false
	}},
	{"AUTH_SUCCESS", allV, func(r *mon.Rand, v primitive.ProtocolVersion) (message.Message, bool) {
		return &message.AuthSuccess{Token: r.Bytes(1 + r.Intn(64))}, false
	}},
}

func genMsg(r *mon.Rand, g *msgGen) msgCase {
	v := g.vs[r.Intn(len(g.vs))]
	m, un := g.gen(r, v)
	return msgCase{kind: g.name + "/" + vname(v), v: v, msg: m, unordered: un}
}

// frameCase is one generated frame (private to one goroutine and to one codec).
type frameCase struct {
	kind      string
	f         *frame.Frame
	unordered bool
}

// genFrame wraps a generated message in a frame with random stream id, tracing id, warnings and
// custom payload where the version allows them. compress sets the COMPRESSED flag (when the
// message is compressible).
func genFrame(r *mon.Rand, g *msgGen, compress bool) frameCase {
	mc := genMsg(r, g)
	if mc.unordered {
		compress = false // compressed bytes of a map-order-dependent body are not comparable, not even as a multiset
	}
	sid := int16(r.Intn(1 << 15))
	if mc.v == v2 {
		sid = int16(r.Intn(128))
	}
	if _, isEvent := mc.msg.(message.Event); isEvent {
		sid = -1
	}
	f := frame.NewFrame(mc.v, sid, mc.msg)
	kind := mc.kind
	un := mc.unordered
	if mc.msg.IsResponse() {
		if r.Intn(3) == 0 {
			u := primitive.UUID{}
			copy(u[:], r.Bytes(16))
			f.SetTracingId(&u)
			kind += "+trace"
		}
		if mc.v >= v4 && r.Intn(4) == 0 {
			f.SetWarnings([]string{text(r, 20), text(r, 40)}[:1+r.Intn(2)])
			kind += "+warn"
		}
	}
	if mc.v >= v4 && r.Intn(4) == 0 {
		if !compress && r.Intn(3) == 0 {
			f.SetCustomPayload(map[string][]byte{ident(r): r.Bytes(10), ident(r): r.Bytes(20), ident(r): nil})
			kind += "+payload3"
			un = true
		} else {
			f.SetCustomPayload(map[string][]byte{ident(r): r.Bytes(1 + r.Intn(30))})
			kind += "+payload1"
		}
	}
	if compress {
		f.SetCompress(true)
		if f.Header.Flags.Contains(primitive.HeaderFlagCompressed) {
			kind += "+compressed"
		}
	}
	return frameCase{kind: kind, f: f, unordered: un}
}

// ---------------------------------------------------------------------------------------------
// segments

type segCase struct {
	kind string
	s    *segment.Segment
}

// compressible returns n bytes that LZ4 really compresses, with a ratio that depends on level:
// 0: one token repeated (ratio > 20), 1: four tokens in random order (≈ 4–8), 2: plain words (≈ 2–3).
func compressible(r *mon.Rand, n, level int) (string, []byte) {
	out := make([]byte, 0, n+16)
	switch level % 3 {
	case 0:
		tok := []byte(ident(r) + ";")
		for len(out) < n {
			out = append(out, tok...)
		}
		return "repeat", out[:n]
	case 1:
		toks := []string{ident(r), ident(r), "INSERT INTO ", " VALUES (?, ?, ?) "}
		for len(out) < n {
			out = append(out, toks[r.Intn(4)]...)
		}
		return "four-tokens", out[:n]
	default:
		for len(out) < n {
			out = append(out, words[r.Intn(len(words))]...)
			out = append(out, ' ')
		}
		return "words", out[:n]
	}
}

// genSegment: kind i of goroutine g. Large payloads are rare on purpose (one goroutine in sixteen has a
// maximum-size segment): their cost is memory traffic inside bytes.Buffer, not codec logic.
func genSegment(r *mon.Rand, i, g int) segCase {
	var data []byte
	var kind string
	switch i % 6 {
	case 0:
		data, kind = []byte{}, "empty"
	case 1:
		data, kind = r.Bytes(1+r.Intn(64)), "random-small"
	case 2:
		kind, data = compressible(r, 512+r.Intn(2048), g)
	case 3:
		kind, data = compressible(r, 256+r.Intn(1024), g+1)
	case 4:
		data, kind = semi(r, 1024+r.Intn(8000)), "semi-8k"
	default:
		if g%16 == 0 {
			data, kind = semi(r, segment.MaxPayloadLength-r.Intn(100)), "semi-max"
		} else {
			kind, data = compressible(r, 300+r.Intn(3000), g+2)
		}
	}
	sc := r.Bool()
	if sc {
		kind += "/self-contained"
	} else {
		kind += "/part"
	}
	return segCase{kind: kind, s: &segment.Segment{Header: &segment.Header{IsSelfContained: sc}, Payload: &segment.Payload{UncompressedData: data}}}
}

// ---------------------------------------------------------------------------------------------
// CQL values

type valCase struct {
	kind string
	v    primitive.ProtocolVersion
	src  interface{}
}

type dataCodecDef struct {
	name  string
	codec datacodec.Codec
	gen   func(r *mon.Rand) []valCase // a few Go values this codec can encode
	// unordered: the source is a Go map with more than one entry
	unordered func(kind string) bool
}

func bigFrom(r *mon.Rand) *big.Int {
	b := new(big.Int).SetBytes(r.Bytes(1 + r.Intn(24)))
	if r.Bool() {
		b.Neg(b)
	}
	return b
}

func vc(kind string, v primitive.ProtocolVersion, src interface{}) valCase {
	return valCase{kind: kind, v: v, src: src}
}

func anyModern(r *mon.Rand) primitive.ProtocolVersion { return pick(r, v3, v4, v5, dse1, dse2) }

var (
	listIntCodec, _  = datacodec.NewList(datatype.NewList(datatype.Int))
	setTextCodec, _  = datacodec.NewSet(datatype.NewSet(datatype.Varchar))
	mapCodec, _      = datacodec.NewMap(datatype.NewMap(datatype.Varchar, datatype.NewList(datatype.Bigint)))
	tupleCodec, _    = datacodec.NewTuple(datatype.NewTuple(datatype.Int, datatype.Varchar))
	udtType, _       = datatype.NewUserDefined("ks1", "address", []string{"street", "zip", "phones"}, []datatype.DataType{datatype.Varchar, datatype.Int, datatype.NewList(datatype.Varchar)})
	udtCodec, _      = datacodec.NewUserDefined(udtType)
	customCodec      = datacodec.NewCustom(datatype.NewCustom("org.example.Custom"))
	nestedType       = datatype.NewMap(datatype.Uuid, datatype.NewTuple(datatype.Timestamp, datatype.NewSet(datatype.Inet), datatype.Varint))
	nestedCodec, _   = datacodec.NewCodec(nestedType)
	timestampNYCodec = func() datacodec.Codec {
		loc := time.FixedZone("X", -5*3600)
		return datacodec.NewTimestamp(time.RFC3339, loc)
	}()
)

type address struct {
	Street string
	Zip    int32
	Phones []string
}

var dataCodecs = []dataCodecDef{
	{name: "datacodec.Ascii", codec: datacodec.Ascii, gen: func(r *mon.Rand) []valCase {
		return []valCase{vc("string", anyModern(r), "ascii "+ident(r)), vc("bytes", anyModern(r), []byte("abc"+ident(r))), vc("nil", v4, nil)}
	}},
	{name: "datacodec.Varchar", codec: datacodec.Varchar, gen: func(r *mon.Rand) []valCase {
		return []valCase{vc("string", anyModern(r), text(r, 10+r.Intn(200))), vc("*string", anyModern(r), ptr(text(r, 10))), vc("empty", v4, "")}
	}},
	{name: "datacodec.Bigint", codec: datacodec.Bigint, gen: func(r *mon.Rand) []valCase {
		return []valCase{vc("int64", anyModern(r), int64(r.Uint64())), vc("int", anyModern(r), r.Intn(1<<40)), vc("*big.Int", anyModern(r), big.NewInt(int64(r.Uint64()>>1))), vc("string", v4, fmt.Sprint(int64(r.Uint64())))}
	}},
	{name: "datacodec.Counter", codec: datacodec.Counter, gen: func(r *mon.Rand) []valCase {
		return []valCase{vc("int64", anyModern(r), int64(r.Uint64())), vc("uint32", anyModern(r), uint32(r.Uint64()))}
	}},
	{name: "datacodec.Blob", codec: datacodec.Blob, gen: func(r *mon.Rand) []valCase {
		return []valCase{vc("[]byte", anyModern(r), r.Bytes(r.Intn(300))), vc("string", anyModern(r), text(r, 30)), vc("nil-slice", v4, []byte(nil))}
	}},
	{name: "datacodec.Boolean", codec: datacodec.Boolean, gen: func(r *mon.Rand) []valCase {
		return []valCase{vc("bool", anyModern(r), r.Bool()), vc("*bool", anyModern(r), ptr(r.Bool())), vc("int", v4, r.Intn(2))}
	}},
	{name: "datacodec.Date", codec: datacodec.Date, gen: func(r *mon.Rand) []valCase {
		d := time.Date(1900+r.Intn(300), time.Month(1+r.Intn(12)), 1+r.Intn(28), 0, 0, 0, 0, time.UTC)
		return []valCase{vc("time.Time", pick(r, v4, v5, dse1, dse2), d), vc("string", v4, d.Format("2006-01-02")), vc("int32", v5, int32(r.Intn(1<<20)))}
	}},
	{name: "datacodec.Decimal", codec: datacodec.Decimal, gen: func(r *mon.Rand) []valCase {
		return []valCase{vc("CqlDecimal", anyModern(r), datacodec.CqlDecimal{Unscaled: bigFrom(r), Scale: int32(r.Intn(40) - 20)}),
			vc("*CqlDecimal", anyModern(r), &datacodec.CqlDecimal{Unscaled: bigFrom(r), Scale: int32(r.Intn(40))})}
	}},
	{name: "datacodec.Double", codec: datacodec.Double, gen: func(r *mon.Rand) []valCase {
		return []valCase{vc("float64", anyModern(r), float64(int64(r.Uint64()))/7.0), vc("float32", anyModern(r), float32(r.Intn(1<<20))/3), vc("*big.Float", v4, big.NewFloat(float64(r.Intn(1<<30))/9))}
	}},
	{name: "datacodec.Duration", codec: datacodec.Duration, gen: func(r *mon.Rand) []valCase {
		return []valCase{vc("CqlDuration", pick(r, v5, dse1, dse2), datacodec.CqlDuration{Months: int32(r.Intn(1000)), Days: int32(r.Intn(1000)), Nanos: time.Duration(r.Intn(1 << 40))}),
			vc("CqlDuration/neg", v5, datacodec.CqlDuration{Months: -int32(r.Intn(1000)), Days: -int32(r.Intn(1000)), Nanos: -time.Duration(r.Intn(1 << 40))})}
	}},
	{name: "datacodec.Float", codec: datacodec.Float, gen: func(r *mon.Rand) []valCase {
		return []valCase{vc("float32", anyModern(r), float32(int32(r.Uint64()))/7.0), vc("*float32", anyModern(r), ptr(float32(r.Intn(1000))/3))}
	}},
	{name: "datacodec.Inet", codec: datacodec.Inet, gen: func(r *mon.Rand) []valCase {
		return []valCase{vc("net.IP/4", anyModern(r), net.IP(r.Bytes(4))), vc("net.IP/16", anyModern(r), net.IP(append([]byte{0x20, 0x01}, r.Bytes(14)...))), vc("string", v4, fmt.Sprintf("10.%d.%d.%d", r.Intn(256), r.Intn(256), r.Intn(256)))}
	}},
	{name: "datacodec.Int", codec: datacodec.Int, gen: func(r *mon.Rand) []valCase {
		return []valCase{vc("int32", anyModern(r), int32(r.Uint64())), vc("int", anyModern(r), r.Intn(1<<31)), vc("int64", anyModern(r), int64(r.Intn(1<<31))), vc("string", v4, fmt.Sprint(int32(r.Uint64())))}
	}},
	{name: "datacodec.Smallint", codec: datacodec.Smallint, gen: func(r *mon.Rand) []valCase {
		return []valCase{vc("int16", pick(r, v4, v5, dse1, dse2), int16(r.Uint64())), vc("int", v4, r.Intn(1<<15))}
	}},
	{name: "datacodec.Tinyint", codec: datacodec.Tinyint, gen: func(r *mon.Rand) []valCase {
		return []valCase{vc("int8", pick(r, v4, v5, dse1, dse2), int8(r.Uint64())), vc("int", v4, r.Intn(1<<7))}
	}},
	{name: "datacodec.Time", codec: datacodec.Time, gen: func(r *mon.Rand) []valCase {
		ns := time.Duration(r.Uint64() % uint64(24*time.Hour))
		return []valCase{vc("time.Duration", pick(r, v4, v5, dse1, dse2), ns), vc("int64", v4, int64(ns)), vc("time.Time", v5, time.Date(1970, 1, 1, r.Intn(24), r.Intn(60), r.Intn(60), r.Intn(1e9), time.UTC))}
	}},
	{name: "datacodec.Timestamp", codec: datacodec.Timestamp, gen: func(r *mon.Rand) []valCase {
		t := time.UnixMilli(int64(r.Uint64() % (1 << 42))).UTC()
		return []valCase{vc("time.Time", anyModern(r), t), vc("int64", anyModern(r), t.UnixMilli()), vc("string", v4, t.Format(datacodec.TimestampLayoutDefault))}
	}},
	{name: "datacodec.NewTimestamp(RFC3339,-05:00)", codec: timestampNYCodec, gen: func(r *mon.Rand) []valCase {
		t := time.UnixMilli(int64(r.Uint64() % (1 << 42))).UTC()
		return []valCase{vc("time.Time", anyModern(r), t), vc("string", v4, t.Format(time.RFC3339))}
	}},
	{name: "datacodec.Timeuuid", codec: datacodec.Timeuuid, gen: func(r *mon.Rand) []valCase {
		var u primitive.UUID
		copy(u[:], r.Bytes(16))
		return []valCase{vc("UUID", anyModern(r), u), vc("[]byte", anyModern(r), r.Bytes(16))}
	}},
	{name: "datacodec.Uuid", codec: datacodec.Uuid, gen: func(r *mon.Rand) []valCase {
		var u primitive.UUID
		copy(u[:], r.Bytes(16))
		return []valCase{vc("UUID", anyModern(r), u), vc("*UUID", anyModern(r), &u), vc("string", v4, u.String())}
	}},
	{name: "datacodec.Varint", codec: datacodec.Varint, gen: func(r *mon.Rand) []valCase {
		return []valCase{vc("*big.Int", anyModern(r), bigFrom(r)), vc("int64", anyModern(r), int64(r.Uint64())), vc("string", v4, bigFrom(r).String())}
	}},
	{name: "datacodec.NewCustom", codec: customCodec, gen: func(r *mon.Rand) []valCase {
		return []valCase{vc("[]byte", anyModern(r), r.Bytes(r.Intn(100)))}
	}},
	{name: "datacodec.NewList(list<int>)", codec: listIntCodec, gen: func(r *mon.Rand) []valCase {
		n := r.Intn(40)
		a, b := make([]int32, n), make([]interface{}, n)
		for i := range a {
			a[i] = int32(r.Uint64())
			b[i] = int32(r.Uint64())
		}
		return []valCase{vc("[]int32", anyModern(r), a), vc("[]interface{}", anyModern(r), b), vc("[3]int", v2, [3]int{r.Intn(100), 2, 3})}
	}},
	{name: "datacodec.NewSet(set<varchar>)", codec: setTextCodec, gen: func(r *mon.Rand) []valCase {
		return []valCase{vc("[]string", anyModern(r), []string{ident(r), text(r, 20), ""}), vc("[]*string", v2, []*string{ptr(ident(r)), ptr(ident(r))})}
	}},
	{name: "datacodec.NewMap(map<varchar,list<bigint>>)", codec: mapCodec, gen: func(r *mon.Rand) []valCase {
		one := map[string][]int64{ident(r): {int64(r.Uint64()), int64(r.Uint64())}}
		three := map[string][]int64{"a" + ident(r): {1, int64(r.Uint64())}, "b" + ident(r): {}, "c" + ident(r): {int64(r.Uint64()), 2, 3}}
		return []valCase{vc("map1", anyModern(r), one), vc("map3", anyModern(r), three), vc("map1/v2", v2, one)}
	}, unordered: func(kind string) bool { return kind == "map3" }},
	{name: "datacodec.NewTuple(tuple<int,varchar>)", codec: tupleCodec, gen: func(r *mon.Rand) []valCase {
		return []valCase{vc("[]interface{}", anyModern(r), []interface{}{int32(r.Uint64()), text(r, 10)}),
			vc("struct", anyModern(r), struct {
				A int32
				B string
			}{int32(r.Uint64()), ident(r)}),
			vc("[]interface{}/null", v4, []interface{}{nil, ident(r)})}
	}},
	{name: "datacodec.NewUserDefined(address)", codec: udtCodec, gen: func(r *mon.Rand) []valCase {
		return []valCase{vc("struct", anyModern(r), address{Street: text(r, 20), Zip: int32(r.Intn(99999)), Phones: []string{ident(r), ident(r)}}),
			vc("map[string]interface{}", anyModern(r), map[string]interface{}{"street": text(r, 10), "zip": int32(r.Intn(99999)), "phones": []string{ident(r)}}),
			vc("[]interface{}", v3, []interface{}{ident(r), int32(7), []string{}})}
	}},
	{name: "datacodec.NewCodec(map<uuid,tuple<timestamp,set<inet>,varint>>)", codec: nestedCodec, gen: func(r *mon.Rand) []valCase {
		var u primitive.UUID
		copy(u[:], r.Bytes(16))
		t := time.UnixMilli(int64(r.Uint64() % (1 << 42))).UTC()
		m := map[primitive.UUID][]interface{}{u: {t, []net.IP{net.IP(r.Bytes(4)), net.IP(r.Bytes(16))}, bigFrom(r)}}
		return []valCase{vc("map1", anyModern(r), m)}
	}},
}
