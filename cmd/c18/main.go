// C18 — codecs can be shared by concurrent goroutines.
//
// Supervisor (normal build) → children:
//
//	normal build child:  phase 1 (sequential reference results) + phase 2 (M goroutines, barrier,
//	                     R rounds, every result compared) at full speed
//	-race build child:   the same with smaller counts, GORACE="halt_on_error=0 log_path=<scratch>/race";
//	                     the supervisor parses the race logs afterwards
//
// Children are separate processes because a `fatal error: concurrent map writes` inside the
// library cannot be recovered and must not take the verdict down with it.
package main

import (
	"encoding/json"
	"fmt"
	"io"
	"os"
	"path/filepath"
	"regexp"
	"runtime"
	"sort"
	"strconv"
	"strings"
	"sync"
	"time"

	"verif/internal/mon"
)

func main() { mon.Main("C18", run) }

var goroutineCounts = []int{4, 16, 64}

const maxGoroutines = 64

// Budgets are call counts per (child, M), never durations. Measured on the 16-core box while it was
// shared with a dozen other jobs (load average ≈ 90): normal child ≈ 1.5·10^6 calls in 15–20 s,
// -race child ≈ 1.0·10^5 calls in 45–60 s (≈ 65 CPU-s and ≈ 100 CPU-s: about 25 s wall in total on an idle box).
// A call under -race costs 10–20× the normal build, an LZ4 compression ≈ 1000× (see heavyBytes).
const (
	quickNormalPerM = 500_000 // ×3 values of M = 1.5·10^6 calls
	quickRacePerM   = 60_000  // ×3              ≈ 0.2·10^6 calls (M=64 always gets at least one full round)
)

func run(c *mon.Ctx) {
	c.Rule = "a case is one call (shared codec instance, operation, goroutine-private input) made by one of M∈{4,16,64} goroutines " +
		"released together by a barrier, R rounds each in PRNG order, on inputs that are a pure function of (seed, goroutine); " +
		"its result (bytes of an encode, deep value + unread byte count of a decode, or the error text) is compared with the result " +
		"the same call gave sequentially beforehand. distinct_nontrivial counts different (codec, operation, input kind) signatures, " +
		"input kind = message/segment/value class + protocol version + frame options"
	if c.Replay != "" {
		var d struct {
			Seed int64  `json:"seed"`
			Tier string `json:"tier"`
		}
		if err := c.ReplayDetail(&d); err == nil && d.Seed != 0 {
			c.Seed = d.Seed
			if d.Tier == "quick" || d.Tier == "thorough" {
				c.Tier = d.Tier
			}
		}
		c.Note("replay of a schedule-dependent finding: the whole stress is re-run with seed %d (same inputs, same call order per goroutine; the interleaving is up to the scheduler)", c.Seed)
	}
	if len(c.Args) > 0 && c.Args[0] == "worker" {
		worker(c)
		return
	}
	supervise(c)
}

// ---------------------------------------------------------------------------------------------
// worker (runs in both builds)

var canary int

//go:noinline
func raceCanaryWrite(v int) { canary = v }

// raceCanary makes one deliberate, harness-only data race so that the supervisor can verify that
// the detector is live and that its reports reach the log it parses (a monitor that cannot fire
// must not be mistaken for a silent one).
func raceCanary() {
	var wg sync.WaitGroup
	for i := 0; i < 2; i++ {
		wg.Add(1)
		go func(i int) {
			defer wg.Done()
			raceCanaryWrite(i)
		}(i)
	}
	wg.Wait()
}

func worker(c *mon.Ctx) {
	label := "worker"
	perM := 10000
	if len(c.Args) > 1 {
		label = c.Args[1]
	}
	if len(c.Args) > 2 {
		if v, err := strconv.Atoi(c.Args[2]); err == nil {
			perM = v
		}
	}
	t0 := time.Now()
	if raceEnabled {
		raceCanary()
	}
	// cold-start phase: before anything else in this process has used a codec (see cold.go)
	coldInfo := coldStart(c, label)
	coldInfo["wall_s"] = round3(time.Since(t0).Seconds())
	sets := make([][]*call, maxGoroutines)
	ncalls := 0
	for g := range sets {
		sets[g] = buildCalls(c.Seed, g)
		if raceEnabled && g >= 16 {
			// -race costs 10–20× per call: the goroutines that only take part in the M=64 runs make a third of
			// their calls there (every third call of the same list as in the normal build)
			kept := sets[g][:0]
			for j, cl := range sets[g] {
				if (j+g)%3 == 0 {
					kept = append(kept, cl)
				}
			}
			sets[g] = kept
		}
		ncalls += len(sets[g])
	}
	// sequential reference: every call once, plus a second time in the normal build to make sure that the
	// sequential result itself is reproducible (the -race child has the same inputs: pure function of the seed)
	reps := 2
	if raceEnabled {
		reps = 1
	}
	seqTotal, unstable, seqErrors := phase1(c, sets, reps)
	c.Count("sequential_calls", int64(seqTotal))
	tSeq := time.Since(t0)

	heavyEvery := 1
	if raceEnabled {
		heavyEvery = 4
	}
	st := newStats()
	perMInfo := []map[string]interface{}{}
	for _, M := range goroutineCounts {
		k := 0
		for g := 0; g < M; g++ {
			k += len(sets[g])
		}
		rounds := perM / k
		if rounds < 1 {
			rounds = 1
		}
		before := st.n
		t := time.Now()
		stress(c, label, sets, M, rounds, heavyEvery, st)
		perMInfo = append(perMInfo, map[string]interface{}{"M": M, "rounds": rounds, "calls": st.n - before, "wall_s": round3(time.Since(t).Seconds())})
	}
	// big-input phase (inputs > 64 KiB, see buildBigCalls): every child runs it, nothing is thinned
	tBig := time.Now()
	bigSets := make([][]*call, bigGoroutines)
	for g := range bigSets {
		bigSets[g] = buildBigCalls(c.Seed, g)
	}
	bigSeq, bigUnstable, bigErrs := phase1(c, bigSets, reps)
	c.Count("sequential_calls", int64(bigSeq))
	bigRounds := c.Pick(25, 250)
	if raceEnabled {
		bigRounds = c.Pick(2, 20) // a big LZ4 compression costs 10–50 ms under -race
	}
	if runtime.GOMAXPROCS(0) < 8 {
		bigRounds = (bigRounds + 3) / 4
	}
	generalCalls := st.n
	stress(c, label, bigSets, bigGoroutines, bigRounds, 1, st)
	bigInfo := map[string]interface{}{
		"goroutines": bigGoroutines, "rounds": bigRounds, "calls": st.n - generalCalls, "calls_per_goroutine_round": len(bigSets[0]),
		"sequential_results_that_are_errors": bigErrs, "sequential_not_reproducible": bigUnstable,
		"max_simultaneous_lz4_compressions_of_more_than_64KiB": st.bigMax, "wall_s": round3(time.Since(tBig).Seconds()),
	}
	c.Max("max_overlap_big_lz4_compressions", int64(st.bigMax))
	largeRounds := c.Pick(10, 100)
	if raceEnabled {
		largeRounds = c.Pick(1, 10)
	}
	tLarge := time.Now()
	largeInfo := snappyLargePhase(c, label, largeRounds)
	largeInfo["wall_s"] = round3(time.Since(tLarge).Seconds())
	c.Eval(int(st.n))
	var globalMax int32
	noOverlap := []string{}
	for i, sh := range sharedList {
		c.Count("calls_"+sh.name, st.calls[i])
		c.Max("max_overlap_"+sh.name, int64(st.maxOv[i]))
		if !ownRequirement(i) && i < idBigLz4c && st.maxOv[i] > globalMax { // the big-input phase has its own requirement
			globalMax = st.maxOv[i]
		}
		if st.maxOv[i] < 2 && !ownRequirement(i) { // the cold-start phase has its own counter and requirement
			noOverlap = append(noOverlap, sh.name)
		}
	}
	c.Count("mismatches", st.bad)
	c.Set("child_"+label, map[string]interface{}{
		"race_build": raceEnabled, "gomaxprocs": runtime.GOMAXPROCS(0), "shared_codecs": len(sharedList), "big_input_phase": bigInfo, "cold_start_phase": coldInfo, "snappy_large_body_phase": largeInfo,
		"calls_per_goroutine_round_avg": ncalls / maxGoroutines, "sequential_calls": seqTotal, "sequential_results_that_are_errors": seqErrors,
		"sequential_not_reproducible": unstable, "concurrent_calls": st.n, "mismatches": st.bad,
		"max_overlap_any_codec": globalMax, "codecs_never_overlapped": noOverlap, "per_M": perMInfo,
		"phase1_wall_s": round3(tSeq.Seconds()), "wall_s": round3(time.Since(t0).Seconds()), "overlap_counter": counterKind,
	})
}

// ownRequirement: shared-codec entries of the cold-start and snappy large-body phases, which have their own
// overlap counters and requirements (init order of the files does not matter here).
func ownRequirement(i int) bool {
	return i == idColdUdt || i == idColdMap || i == idColdTuple || i == idColdFresh || i == idLargeSnappy
}

func round3(f float64) float64 { return float64(int64(f*1000)) / 1000 }

// ---------------------------------------------------------------------------------------------
// supervisor

type childSpec struct {
	label      string
	race       bool
	gomaxprocs int
	perM       int
}

type childReport struct {
	Extra map[string]json.RawMessage `json:"extra"`
}

var fatalMapRe = regexp.MustCompile(`fatal error: (concurrent map [a-z ]+)`)

func supervise(c *mon.Ctx) {
	c.Assume("the Go race detector reports only real races (no false positives); its absence of a report is not a proof")
	c.Assume("'same results' means: byte equality for encodes; for decodes equality of a canonical form of the returned value (pointers followed, map entries sorted, " +
		"big.Int and time.Time by value, plus the number of unread source bytes), compared through a 64-bit digest; same error text where the sequential call failed. " +
		"For inputs holding a Go map with more than one entry the encoding order is not deterministic even sequentially, so those encodes are compared as byte multisets")
	c.Assume("the sequential reference run (single goroutine, before any stress goroutine exists) is correct by definition: C18 does not judge what a codec returns, only that sharing does not change it")
	c.Assume("a race report counts against the library only if one of its two access stacks contains a frame of frame/segment/message/datacodec/compression/primitive/datatype/crc")

	mult := c.Pick(1, 10)
	var children []childSpec
	if c.Thorough() {
		children = []childSpec{
			{"normal-p16", false, 16, quickNormalPerM * mult},
			{"normal-p2", false, 2, quickNormalPerM * mult / 4},
			{"race-p16", true, 16, quickRacePerM * mult},
			{"race-p2", true, 2, quickRacePerM * mult / 8},
		}
	} else {
		children = []childSpec{
			{"normal-p16", false, 16, quickNormalPerM},
			{"race-p16", true, 16, quickRacePerM},
		}
	}

	scratch := filepath.Join(mon.Root(), ".build", fmt.Sprintf("c18-scratch-%d", os.Getpid()))
	if err := os.MkdirAll(scratch, 0o755); err != nil {
		c.Fatal("scratch: %v", err)
	}
	defer os.RemoveAll(scratch)

	raceBin := mon.RaceSelf()
	if _, err := os.Stat(raceBin); err != nil {
		os.RemoveAll(scratch)
		c.Fatal("no -race build of this check at %s (run through ./check)", raceBin)
	}

	var total, inLib, inHarness, canaries int
	raceSeen := map[string]int{}
	exercised := true
	var notExercised []string
	for _, ch := range children {
		dir := filepath.Join(scratch, ch.label)
		os.MkdirAll(dir, 0o755)
		out := filepath.Join(dir, "result.json")
		bin := mon.Self()
		if ch.race {
			bin = raceBin
		}
		cmd := mon.WorkerCmd(bin, out, "--tier", c.Tier, "--seed", strconv.FormatInt(c.Seed, 10), "worker", ch.label, strconv.Itoa(ch.perM))
		cmd.Env = append(cmd.Env, "GOMAXPROCS="+strconv.Itoa(ch.gomaxprocs))
		if ch.race {
			cmd.Env = append(cmd.Env, "GORACE=halt_on_error=0 log_path="+filepath.Join(dir, "race")+" history_size=3")
		}
		stderrPath := filepath.Join(dir, "stderr.txt")
		ef, err := os.Create(stderrPath)
		if err != nil {
			c.Fatal("stderr file: %v", err)
		}
		cmd.Stderr = ef
		cmd.Stdout = ef
		t0 := time.Now()
		if err := cmd.Start(); err != nil {
			os.RemoveAll(scratch)
			c.Fatal("cannot start %s: %v", bin, err)
		}
		done := make(chan error, 1)
		go func() { done <- cmd.Wait() }()
		limit := time.Duration(c.Pick(170, 840)) * time.Second // watchdog only: its firing is inconclusive, never a verdict
		var werr error
		timedOut := false
		select {
		case werr = <-done:
		case <-time.After(limit):
			cmd.Process.Kill()
			werr = <-done
			timedOut = true
		}
		ef.Close()
		wall := time.Since(t0).Seconds()
		stderrText := readCapped(stderrPath, 4<<20)

		merged := false
		var rep childReport
		if b, err := os.ReadFile(out); err == nil {
			json.Unmarshal(b, &rep)
			merged = c.Merge(out)
		}
		switch {
		case timedOut:
			c.Inconclusive("child-watchdog/" + ch.label)
		case !merged:
			// the child died: a runtime-detected concurrent map access inside the library is a finding,
			// anything else is a harness problem and is reported as inconclusive with the stderr tail
			if m := fatalMapRe.FindStringSubmatch(stderrText); m != nil {
				fn := "-"
				for _, l := range strings.Split(stderrText[strings.Index(stderrText, m[0]):], "\n") {
					l = strings.TrimSpace(l)
					if k := strings.LastIndex(l, "("); k > 0 {
						if isLibraryFunc(l[:k]) {
							fn = shortFunc(l[:k])
							break
						}
					}
				}
				c.Violation("fatal/"+strings.ReplaceAll(m[1], " ", "-")+"/"+fn, map[string]interface{}{
					"build": ch.label, "seed": c.Seed, "tier": c.Tier, "stderr_tail": tail(stderrText, 4000)})
			} else {
				c.Inconclusive("child-died/" + ch.label)
				c.Note("child %s died (%v); stderr tail: %s", ch.label, werr, tail(stderrText, 1500))
			}
		}
		if merged {
			var info struct {
				Race       bool  `json:"race_build"`
				MaxOverlap int32 `json:"max_overlap_any_codec"`
				Big        struct {
					Max int32 `json:"max_simultaneous_lz4_compressions_of_more_than_64KiB"`
				} `json:"big_input_phase"`
				Large struct {
					Max int32 `json:"max_simultaneous_calls"`
				} `json:"snappy_large_body_phase"`
				Cold struct {
					Max int32 `json:"max_simultaneous_cold_calls"`
				} `json:"cold_start_phase"`
			}
			if raw, ok := rep.Extra["child_"+ch.label]; ok {
				json.Unmarshal(raw, &info)
			}
			if info.Race != ch.race {
				os.RemoveAll(scratch)
				c.Fatal("child %s: race_build=%v, expected %v (wrong binary at %s?)", ch.label, info.Race, ch.race, bin)
			}
			if info.MaxOverlap < 2 {
				exercised = false
				notExercised = append(notExercised, ch.label)
			}
			if info.Cold.Max < 2 {
				exercised = false
				notExercised = append(notExercised, ch.label+"(cold-start phase: never two cold calls at once)")
			}
			if info.Large.Max < 2 {
				exercised = false
				notExercised = append(notExercised, ch.label+"(snappy large-body phase: never two calls at once)")
			}
			if info.Big.Max < 2 {
				exercised = false
				notExercised = append(notExercised, ch.label+"(big-input phase: never two LZ4 compressions of >64 KiB at once)")
			}
		}
		c.Set("supervisor_wall_s_"+ch.label, round3(wall))

		if ch.race {
			logs, _ := filepath.Glob(filepath.Join(dir, "race.*"))
			text := stderrText
			for _, p := range logs {
				text += "\n" + readCapped(p, 32<<20)
			}
			blocks := parseRaceLog(text)
			sawCanary := false
			for i := range blocks {
				b := &blocks[i]
				total++
				class, pair := b.classify()
				switch class {
				case classCanary:
					canaries++
					sawCanary = true
				case classHarness:
					inHarness++
					c.Inconclusive("race-inside-harness-only")
					c.Note("race report with no library frame (harness bug, not a verdict):\n%s", head(b.Raw, 3000))
				case classLibrary:
					inLib++
					raceSeen[pair]++
					stacks := map[string]interface{}{}
					for k := range b.Stacks {
						stacks[fmt.Sprintf("stack%d", k+1)] = map[string]interface{}{"access": b.Headers[k], "functions": b.Stacks[k]}
					}
					c.Violation("race/"+pair, map[string]interface{}{
						"build": ch.label, "seed": c.Seed, "tier": c.Tier, "pair": pair, "stacks": stacks, "report": head(b.Raw, 8000)})
				}
			}
			if merged && !sawCanary {
				os.RemoveAll(scratch)
				c.Fatal("child %s: the deliberate canary race was not found in the race logs (%d blocks parsed, logs %v): the race monitor is not live", ch.label, len(blocks), logs)
			}
		}
	}
	c.Count("race_blocks_total", int64(total))
	c.Count("race_blocks_in_library", int64(inLib))
	c.Count("race_blocks_in_harness_only", int64(inHarness))
	c.Count("race_blocks_canary", int64(canaries))
	pairs := []string{}
	for p, n := range raceSeen {
		pairs = append(pairs, fmt.Sprintf("%s x%d", p, n))
	}
	sort.Strings(pairs)
	c.Set("race_pairs_in_library", pairs)
	c.Set("goroutine_counts", goroutineCounts)

	for i, sh := range sharedList {
		if !ownRequirement(i) && c.Counter("max_overlap_"+sh.name) < 2 {
			c.Inconclusive("never-two-calls-at-once/" + sh.name)
		}
	}
	if !exercised && c.ViolationCount() == 0 {
		os.RemoveAll(scratch)
		c.Fatal("the run did not exercise the property (no two calls inside a shared codec at the same time) in %v", notExercised)
	}
}

func readCapped(path string, max int64) string {
	f, err := os.Open(path)
	if err != nil {
		return ""
	}
	defer f.Close()
	b, _ := io.ReadAll(io.LimitReader(f, max))
	return string(b)
}

func head(s string, n int) string {
	if len(s) > n {
		return s[:n] + "…"
	}
	return s
}

func tail(s string, n int) string {
	if len(s) > n {
		return "…" + s[len(s)-n:]
	}
	return s
}
