//go:build amd64

package main

// xadd32 atomically adds d to *p and returns the new value (see xadd_amd64.s).
func xadd32(p *int32, d int32) int32

const counterKind = "asm LOCK XADD (invisible to the race detector: no happens-before edges added by the harness)"
