//go:build !amd64

package main

import "sync/atomic"

// Fallback: sync/atomic. Under -race this orders calls that do not overlap in real time and
// therefore lowers the sensitivity of the race detector; the evidence says which one was used.
func xadd32(p *int32, d int32) int32 { return atomic.AddInt32(p, d) }

const counterKind = "sync/atomic (adds happens-before edges under -race)"
