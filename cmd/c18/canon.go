package main

// canon: a canonical, order-independent text form of a decoded value, used to compare the result
// of a concurrent decode with the result of the same decode made sequentially. reflect.DeepEqual
// is not usable for everything the library returns: CQL maps decode into Go maps with POINTER keys
// (map[*string][]*int64), which DeepEqual compares by address. canon follows pointers, sorts map
// entries by their canonical key, and prints big.Int and time.Time by value.

import (
	"encoding/hex"
	"fmt"
	"hash/maphash"
	"math/big"
	"reflect"
	"sort"
	"strconv"
	"strings"
	"time"
)

var (
	typeBigInt = reflect.TypeOf(big.Int{})
	typeTime   = reflect.TypeOf(time.Time{})
)

// sink is what canonValue writes to: a strings.Builder (text, for reports) or a maphash.Hash
// (64-bit digest, for the hot comparison path: no allocation proportional to the value).
type sink interface {
	WriteString(string) (int, error)
	WriteByte(byte) error
	Write([]byte) (int, error)
}

func canon(v interface{}) string {
	var sb strings.Builder
	canonValue(&sb, reflect.ValueOf(v), 0, true)
	return sb.String()
}

var hashSeed = maphash.MakeSeed()

// canonHash is the digest of the canonical form (byte strings are fed raw instead of hex).
func canonHash(v interface{}) uint64 {
	var h maphash.Hash
	h.SetSeed(hashSeed)
	canonValue(&h, reflect.ValueOf(v), 0, false)
	return h.Sum64()
}

func canonValue(sb sink, v reflect.Value, depth int, text bool) {
	if depth > 64 {
		sb.WriteString("<deep>")
		return
	}
	if !v.IsValid() {
		sb.WriteString("nil")
		return
	}
	switch v.Type() {
	case typeBigInt:
		if v.CanAddr() && v.Addr().CanInterface() {
			sb.WriteString("big(" + v.Addr().Interface().(*big.Int).String() + ")")
			return
		}
		if v.CanInterface() {
			b := v.Interface().(big.Int)
			sb.WriteString("big(" + b.String() + ")")
			return
		}
	case typeTime:
		if v.CanInterface() {
			t := v.Interface().(time.Time)
			name, off := t.Zone()
			sb.WriteString("time(" + strconv.FormatInt(t.Unix(), 10) + "." + strconv.Itoa(t.Nanosecond()) + " " + name + " " + strconv.Itoa(off) + ")")
			return
		}
	}
	switch v.Kind() {
	case reflect.Bool:
		sb.WriteString(strconv.FormatBool(v.Bool()))
	case reflect.Int, reflect.Int8, reflect.Int16, reflect.Int32, reflect.Int64:
		sb.WriteString(strconv.FormatInt(v.Int(), 10))
	case reflect.Uint, reflect.Uint8, reflect.Uint16, reflect.Uint32, reflect.Uint64, reflect.Uintptr:
		sb.WriteString(strconv.FormatUint(v.Uint(), 10))
	case reflect.Float32, reflect.Float64:
		sb.WriteString(strconv.FormatFloat(v.Float(), 'b', -1, 64))
	case reflect.Complex64, reflect.Complex128:
		sb.WriteString(fmt.Sprint(v.Complex()))
	case reflect.String:
		sb.WriteString(strconv.Quote(v.String()))
	case reflect.Ptr:
		if v.IsNil() {
			sb.WriteString("nil")
			return
		}
		sb.WriteByte('&')
		canonValue(sb, v.Elem(), depth+1, text)
	case reflect.Interface:
		if v.IsNil() {
			sb.WriteString("nil")
			return
		}
		sb.WriteString(v.Elem().Type().String())
		sb.WriteByte(':')
		canonValue(sb, v.Elem(), depth+1, text)
	case reflect.Slice:
		if v.IsNil() {
			sb.WriteString("nil[]")
			return
		}
		fallthrough
	case reflect.Array:
		if v.Type().Elem().Kind() == reflect.Uint8 {
			var raw []byte
			if v.Kind() == reflect.Slice || v.CanAddr() {
				raw = v.Bytes()
			} else {
				raw = make([]byte, v.Len())
				for i := range raw {
					raw[i] = byte(v.Index(i).Uint())
				}
			}
			sb.WriteString("x'")
			if text {
				sb.WriteString(hex.EncodeToString(raw))
			} else {
				sb.WriteString(strconv.Itoa(len(raw)))
				sb.WriteByte(':')
				sb.Write(raw)
			}
			sb.WriteByte('\'')
			return
		}
		sb.WriteByte('[')
		for i := 0; i < v.Len(); i++ {
			if i > 0 {
				sb.WriteByte(',')
			}
			canonValue(sb, v.Index(i), depth+1, text)
		}
		sb.WriteByte(']')
	case reflect.Map:
		if v.IsNil() {
			sb.WriteString("nil{}")
			return
		}
		entries := make([]string, 0, v.Len())
		it := v.MapRange()
		for it.Next() {
			var e strings.Builder
			canonValue(&e, it.Key(), depth+1, text)
			e.WriteString("=>")
			canonValue(&e, it.Value(), depth+1, text)
			entries = append(entries, e.String())
		}
		sort.Strings(entries)
		sb.WriteString("{" + strings.Join(entries, ";") + "}")
	case reflect.Struct:
		sb.WriteString(v.Type().String())
		sb.WriteByte('{')
		for i := 0; i < v.NumField(); i++ {
			if i > 0 {
				sb.WriteByte(',')
			}
			sb.WriteString(v.Type().Field(i).Name)
			sb.WriteByte(':')
			canonValue(sb, v.Field(i), depth+1, text)
		}
		sb.WriteByte('}')
	default: // chan, func, unsafe pointer: never returned by a codec
		sb.WriteString("<" + v.Kind().String() + ">")
	}
}
