package main

// Cold-start phase. It runs FIRST in every child, before any sequential reference call and before
// any other use of a codec in the process: caches, memo tables and lazily initialised state inside
// the library are cold, and all goroutines hit them together for the first time. The sequential
// reference of each call is computed AFTERWARDS (the same closure, run again on the main goroutine)
// and compared with what the call returned when it ran cold and concurrently.
//
// A call here is a whole round trip (encode, then decode what was just encoded), because no
// encoded input can exist before the phase starts.
//
// Reserved inputs per goroutine:
//   - Go STRUCT types nobody has used before (reflect.StructOf, unique per goroutine): encoded by /
//     decoded into through UDT codecs (field lookup by name, plain and `cassandra:"…"`-tagged),
//     a map<varchar,int> codec and a tuple codec; also the declared type `address`
//   - first use of every datacodec singleton and generated container codec
//   - first use of every message codec, with several protocol versions
//   - frame / segment codecs constructed inside the call with each compressor, and the shared ones
//   - datacodec.NewCodec / PreferredGoType of container types built inside the call

import (
	"bytes"
	"fmt"
	"reflect"
	"sync"

	"github.com/datastax/go-cassandra-native-protocol/compression/lz4"
	"github.com/datastax/go-cassandra-native-protocol/compression/snappy"
	"github.com/datastax/go-cassandra-native-protocol/datacodec"
	"github.com/datastax/go-cassandra-native-protocol/datatype"
	"github.com/datastax/go-cassandra-native-protocol/frame"
	"github.com/datastax/go-cassandra-native-protocol/message"
	"github.com/datastax/go-cassandra-native-protocol/primitive"
	"github.com/datastax/go-cassandra-native-protocol/segment"

	"verif/internal/mon"
)

const coldGoroutines = 16

var (
	idColdUdt, idColdMap, idColdTuple, idColdFresh int
	coldInside                                     int32 // cold calls in progress (xadd32 only)
)

func init() {
	idColdUdt = reg("datacodec.NewUserDefined[Go struct]")
	idColdMap = reg("datacodec.NewMap[Go struct]")
	idColdTuple = reg("datacodec.NewTuple[Go struct]")
	idColdFresh = reg("codec constructed inside the call")
}

type roundTrip struct {
	Enc  []byte
	Dec  interface{}
	Rest int
}

var (
	mapTextIntCodec, _ = datacodec.NewMap(datatype.NewMap(datatype.Varchar, datatype.Int))
	tupleIntTextInt, _ = datacodec.NewTuple(datatype.NewTuple(datatype.Int, datatype.Varchar, datatype.Int))
)

// coldRefusing: shared codecs over fresh nested data types, only ever used by the refused calls of the
// cold-start phase.
var coldRefusing = func() (out []struct {
	codec datacodec.Codec
	bad   []byte
}) {
	u1, _ := datatype.NewUserDefined("ks9", "inner", []string{"a", "b"}, []datatype.DataType{datatype.Int, datatype.NewList(datatype.Varchar)})
	u2, _ := datatype.NewUserDefined("ks9", "outer", []string{"i", "m"}, []datatype.DataType{u1, datatype.NewMap(datatype.Varchar, u1)})
	for _, dt := range []datatype.DataType{u1, u2, datatype.NewList(u2), datatype.NewMap(datatype.Int, u1), datatype.NewTuple(datatype.Int, u2), datatype.NewSet(datatype.NewTuple(u1)), datatype.NewCustom("c.Refusing")} {
		if c, err := datacodec.NewCodec(dt); err == nil {
			out = append(out, struct {
				codec datacodec.Codec
				bad   []byte
			}{c, []byte{0, 0, 0, 9, 1}})
		}
	}
	return
}()

// structType k of goroutine g: a type no other goroutine and no other k has. tagged: the fields are
// found through `cassandra:"name"` tags instead of their names.
func coldStructType(g, k int, names []string, types []reflect.Type, tagged bool) reflect.Type {
	fields := make([]reflect.StructField, 0, len(names)+1)
	for i, n := range names {
		f := reflect.StructField{Type: types[i]}
		if tagged {
			f.Name = fmt.Sprintf("F%d", i)
			f.Tag = reflect.StructTag(fmt.Sprintf(`cassandra:"%s"`, n))
		} else {
			f.Name = "X" + n // exported; matched case-insensitively against the UDT field name "x<n>"
		}
		fields = append(fields, f)
	}
	// a marker field makes the type unique
	fields = append(fields, reflect.StructField{Name: fmt.Sprintf("Marker_g%d_k%d", g, k), Type: reflect.TypeOf(false)})
	return reflect.StructOf(fields)
}

func buildColdCalls(seed int64, g int) []*call {
	r := mon.NewRand(seed, uint64(0x300000+g))
	b := &builder{}
	ver := func() primitive.ProtocolVersion { return pick(r, v3, v4, v5, dse1, dse2) }

	// --- struct types through UDT / map / tuple codecs
	goTypes := []reflect.Type{reflect.TypeOf(""), reflect.TypeOf(int32(0)), reflect.TypeOf([]string(nil))}
	for k := 0; k < 6; k++ {
		tagged := k%2 == 1
		v := ver()
		street, zip, phones := text(r, 12), int32(r.Intn(99999)), []string{ident(r), ident(r)}
		var t reflect.Type
		var codec func() (datacodec.Codec, error)
		if tagged {
			// shared UDT codec (address: street, zip, phones), fields located through tags
			t = coldStructType(g, k, []string{"street", "zip", "phones"}, goTypes, true)
			codec = func() (datacodec.Codec, error) { return udtCodec, nil }
		} else {
			// a UDT type of its own, codec built inside the call, fields located by (case-insensitive) name
			names := []string{fmt.Sprintf("street_g%dk%d", g, k), fmt.Sprintf("zip_g%dk%d", g, k), fmt.Sprintf("phones_g%dk%d", g, k)}
			t = coldStructType(g, k, names, goTypes, false)
			udtNames := []string{"x" + names[0], "x" + names[1], "x" + names[2]}
			codec = func() (datacodec.Codec, error) {
				dt, err := datatype.NewUserDefined("ks", fmt.Sprintf("t_g%dk%d", g, k), udtNames, []datatype.DataType{datatype.Varchar, datatype.Int, datatype.NewList(datatype.Varchar)})
				if err != nil {
					return nil, err
				}
				return datacodec.NewUserDefined(dt)
			}
		}
		src := reflect.New(t).Elem()
		src.Field(0).SetString(street)
		src.Field(1).SetInt(int64(zip))
		src.Field(2).Set(reflect.ValueOf(phones))
		srcI := src.Interface()
		kind := fmt.Sprintf("struct#%d/tagged=%v/%s", k, tagged, vname(v))
		b.add(idColdUdt, "Encode+Decode", kind, false, func() (interface{}, error) {
			c, err := codec()
			if err != nil {
				return nil, err
			}
			enc, err := c.Encode(srcI, v)
			if err != nil {
				return nil, err
			}
			dest := reflect.New(t)
			wasNull, err := c.Decode(enc, dest.Interface(), v)
			rest := 0
			if wasNull {
				rest = 1
			}
			return roundTrip{enc, dest.Elem().Interface(), rest}, err
		})
	}
	{
		// map<varchar,int> from / into a struct whose fields are all int32
		t := reflect.StructOf([]reflect.StructField{
			{Name: "Alpha", Type: reflect.TypeOf(int32(0))}, {Name: "Beta", Type: reflect.TypeOf(int32(0))},
			{Name: fmt.Sprintf("Gamma_g%d", g), Type: reflect.TypeOf(int32(0))}})
		src := reflect.New(t).Elem()
		for i := 0; i < 3; i++ {
			src.Field(i).SetInt(int64(r.Intn(1 << 30)))
		}
		srcI, v := src.Interface(), ver()
		b.add(idColdMap, "Encode+Decode", "struct/"+vname(v), false, func() (interface{}, error) {
			enc, err := mapTextIntCodec.Encode(srcI, v)
			if err != nil {
				return nil, err
			}
			dest := reflect.New(t)
			_, err = mapTextIntCodec.Decode(enc, dest.Interface(), v)
			return roundTrip{enc, dest.Elem().Interface(), 0}, err
		})
		// tuple<int,varchar,int> from / into a struct (fields by position)
		tt := reflect.StructOf([]reflect.StructField{
			{Name: "A", Type: reflect.TypeOf(int32(0))}, {Name: "B", Type: reflect.TypeOf("")},
			{Name: fmt.Sprintf("C_g%d", g), Type: reflect.TypeOf(int32(0))}})
		ts := reflect.New(tt).Elem()
		ts.Field(0).SetInt(int64(r.Intn(1 << 30)))
		ts.Field(1).SetString(ident(r))
		ts.Field(2).SetInt(int64(r.Intn(1 << 30)))
		tsI, v2 := ts.Interface(), ver()
		b.add(idColdTuple, "Encode+Decode", "struct/"+vname(v2), false, func() (interface{}, error) {
			enc, err := tupleIntTextInt.Encode(tsI, v2)
			if err != nil {
				return nil, err
			}
			dest := reflect.New(tt)
			_, err = tupleIntTextInt.Decode(enc, dest.Interface(), v2)
			return roundTrip{enc, dest.Elem().Interface(), 0}, err
		})
		// the declared struct type used later by the general phase
		a := address{Street: text(r, 10), Zip: int32(r.Intn(99999)), Phones: []string{ident(r)}}
		v3x := ver()
		b.add(idColdUdt, "Encode+Decode", "declared-struct/"+vname(v3x), false, func() (interface{}, error) {
			enc, err := udtCodec.Encode(a, v3x)
			if err != nil {
				return nil, err
			}
			var dest address
			_, err = udtCodec.Decode(enc, &dest, v3x)
			return roundTrip{enc, dest, 0}, err
		})
	}

	// --- refused calls on shared codecs: the codecs render their type (AsCql / String of the shared
	// data-type objects) only when they build an error, so the first refusals of a process happen here,
	// concurrently, on types and codecs no earlier call has touched
	for ci, cc := range coldRefusing {
		codec, v := cc.codec, ver()
		bad := cc.bad
		b.add(idColdUdt, "Encode+Decode refused", fmt.Sprintf("refusing-%d/%s", ci, vname(v)), false, func() (interface{}, error) {
			var out []string
			if _, err := codec.Encode(make(chan int), v); err != nil {
				out = append(out, err.Error())
			}
			var dest interface{}
			if _, err := codec.Decode(bad, &dest, v); err != nil {
				out = append(out, err.Error())
			}
			var wrong chan int
			if _, err := codec.Decode(nil, &wrong, v); err != nil {
				out = append(out, err.Error())
			}
			out = append(out, codec.DataType().AsCql(), fmt.Sprint(codec.DataType()))
			return out, nil
		})
	}

	// --- first use of every CQL value codec
	for i := range dataCodecs {
		d := &dataCodecs[i]
		for _, c := range d.gen(r) {
			if d.unordered != nil && d.unordered(c.kind) {
				continue
			}
			codec, src, v := d.codec, c.src, c.v
			b.add(idData[i], "Encode+Decode", c.kind+"/"+vname(v), false, func() (interface{}, error) {
				enc, err := codec.Encode(src, v)
				if err != nil {
					return nil, err
				}
				var dest interface{}
				wasNull, err := codec.Decode(enc, &dest, v)
				rest := 0
				if wasNull {
					rest = 1
				}
				return roundTrip{enc, dest, rest}, err
			})
			break // one value per codec
		}
	}

	// --- first use of every message codec (by opcode) with a random version, directly and through frame codecs
	byOp := map[primitive.OpCode]message.Codec{}
	for _, mc := range message.DefaultMessageCodecs {
		byOp[mc.GetOpCode()] = mc
	}
	idByOp := map[primitive.OpCode]int{}
	for i, mc := range message.DefaultMessageCodecs {
		idByOp[mc.GetOpCode()] = idMsg[i]
	}
	for i := range msgGens {
		mc := genMsg(r, &msgGens[i])
		if mc.unordered {
			continue
		}
		codec, v, m1 := byOp[mc.msg.GetOpCode()], mc.v, mc.msg
		b.add(idByOp[mc.msg.GetOpCode()], "Encode+EncodedLength+Decode", mc.kind, false, func() (interface{}, error) {
			var buf bytes.Buffer
			if err := codec.Encode(m1, &buf, v); err != nil {
				return nil, err
			}
			n, err := codec.EncodedLength(m1, v)
			if err != nil {
				return nil, err
			}
			src := bytes.NewReader(buf.Bytes())
			m, err := codec.Decode(src, v)
			return roundTrip{buf.Bytes(), m, src.Len() + 1000*n}, err
		})
		if (i+g)%3 != 0 {
			continue
		}
		// the same message in a frame, through a shared frame codec and through one constructed inside the call
		type mk struct {
			id       int
			name     string
			make     func() frame.RawCodec
			compress bool
		}
		mks := []mk{
			{idRaw, "shared", func() frame.RawCodec { return fcRaw }, false},
			{idLz4, "shared", func() frame.RawCodec { return fcLz4 }, true},
			{idSnappy, "shared", func() frame.RawCodec { return fcSnappy }, true},
			{idColdFresh, "frame.NewRawCodec()", func() frame.RawCodec { return frame.NewRawCodec() }, false},
			{idColdFresh, "frame.NewRawCodecWithCompression(lz4)", func() frame.RawCodec { return frame.NewRawCodecWithCompression(lz4.Compressor{}) }, true},
			{idColdFresh, "frame.NewRawCodecWithCompression(snappy)", func() frame.RawCodec { return frame.NewRawCodecWithCompression(snappy.Compressor{}) }, true},
		}
		m := mks[(i/3+g)%len(mks)]
		f := frame.NewFrame(mc.v, int16(r.Intn(100)), mc.msg.DeepCopyMessage())
		if m.compress {
			f.SetCompress(true)
		}
		b.add(m.id, "EncodeFrame+DecodeFrame", m.name+"/"+mc.kind, false, func() (interface{}, error) {
			c := m.make()
			var buf bytes.Buffer
			if err := c.EncodeFrame(f, &buf); err != nil {
				return nil, err
			}
			src := bytes.NewReader(buf.Bytes())
			df, err := c.DecodeFrame(src)
			return roundTrip{buf.Bytes(), df, src.Len()}, err
		})
	}

	// --- segments: shared and freshly constructed codecs, payloads that really compress, with different ratios
	for k := 0; k < 4; k++ {
		var data []byte
		var kind string
		switch (k + g) % 4 {
		case 0:
			data, kind = []byte(text(r, 600+r.Intn(600))), "text"
		case 1:
			data, kind = bytes.Repeat([]byte(ident(r)), 40+r.Intn(100)), "repeat" // ratio well above 8
		case 2:
			data, kind = semi(r, 1000+r.Intn(2000)), "semi"
		default:
			data, kind = append(bytes.Repeat([]byte{byte(r.Intn(256))}, 3000), r.Bytes(200)...), "run+random"
		}
		fresh := k%2 == 1
		id, name := idSegLz4, "shared"
		if fresh {
			id, name = idColdFresh, "segment.NewCodecWithCompression(lz4)"
		}
		seg := &segment.Segment{Header: &segment.Header{IsSelfContained: true}, Payload: &segment.Payload{UncompressedData: data}}
		b.add(id, "EncodeSegment+DecodeSegment", name+"/"+kind, false, func() (interface{}, error) {
			c := scLz4
			if fresh {
				c = segment.NewCodecWithCompression(lz4.Compressor{})
			}
			var buf bytes.Buffer
			if err := c.EncodeSegment(seg, &buf); err != nil {
				return nil, err
			}
			src := bytes.NewReader(buf.Bytes())
			ds, err := c.DecodeSegment(src)
			return roundTrip{buf.Bytes(), ds, src.Len()}, err
		})
	}

	// --- container types and their codecs built inside the call
	for k := 0; k < 3; k++ {
		v := ver()
		elem := pick[datatype.DataType](r, datatype.Int, datatype.Varchar, datatype.Bigint, datatype.Uuid, datatype.Timestamp)
		key := pick[datatype.DataType](r, datatype.Varchar, datatype.Int, datatype.Uuid)
		shape := (k + g) % 3
		b.add(idColdFresh, "NewCodec+PreferredGoType+Encode(nil)", fmt.Sprintf("container#%d/%s", shape, vname(v)), false, func() (interface{}, error) {
			var dt datatype.DataType
			switch shape {
			case 0:
				dt = datatype.NewList(datatype.NewSet(elem))
			case 1:
				dt = datatype.NewMap(key, datatype.NewList(elem))
			default:
				dt = datatype.NewTuple(key, datatype.NewMap(key, elem), elem)
			}
			c, err := datacodec.NewCodec(dt)
			if err != nil {
				return nil, err
			}
			t, err := datacodec.PreferredGoType(dt)
			if err != nil {
				return nil, err
			}
			enc, err := c.Encode(nil, v)
			return roundTrip{enc, t.String() + " " + c.DataType().AsCql(), 0}, err
		})
	}
	return b.calls
}

type coldResult struct {
	res  interface{}
	errs string
}

// coldStart runs the phase and returns its evidence.
func coldStart(c *mon.Ctx, label string) map[string]interface{} {
	sets := make([][]*call, coldGoroutines)
	total := 0
	for g := range sets {
		sets[g] = buildColdCalls(c.Seed, g) // builds values and closures only: no codec is used here
		total += len(sets[g])
	}
	results := make([][]coldResult, coldGoroutines)
	maxOv := make([]int32, coldGoroutines)
	start := make(chan struct{})
	var wg sync.WaitGroup
	for g := 0; g < coldGoroutines; g++ {
		wg.Add(1)
		go func(g int) {
			defer wg.Done()
			cs := sets[g]
			out := make([]coldResult, len(cs))
			r := mon.NewRand(c.Seed, uint64(0x400000+g))
			order := make([]int, len(cs))
			for i := range order {
				order[i] = i
			}
			for i := len(order) - 1; i > 0; i-- {
				j := r.Intn(i + 1)
				order[i], order[j] = order[j], order[i]
			}
			<-start
			for _, i := range order {
				ov := xadd32(&coldInside, 1)
				if ov > maxOv[g] {
					maxOv[g] = ov
				}
				res, errs := guarded(cs[i].fn)
				xadd32(&coldInside, -1)
				out[i] = coldResult{res, errs}
			}
			results[g] = out
		}(g)
	}
	close(start)
	wg.Wait()

	// sequential reference, afterwards
	bad, errsN := 0, 0
	for g, cs := range sets {
		for i, cl := range cs {
			res, errs, _, _ := cl.exec()
			cl.setWant(res, errs)
			if errs != "" {
				errsN++
			}
			c.Distinct("cold|" + cl.sig())
			got := results[g][i]
			if !cl.same(got.res, got.errs) {
				bad++
				name := sharedList[cl.codec].name
				c.Violation("mismatch/"+name+"/"+cl.op, map[string]interface{}{
					"phase": "cold-start (concurrent first use, sequential reference computed afterwards)", "build": label, "race_build": raceEnabled,
					"seed": c.Seed, "tier": c.Tier, "M": coldGoroutines, "goroutine": g, "call": i, "codec": name, "op": cl.op, "input_kind": cl.kind,
					"sequential": show(cl.want), "sequential_err": cl.wantErr, "concurrent": show(got.res), "concurrent_err": got.errs,
				})
			}
		}
	}
	var mx int32
	for _, v := range maxOv {
		if v > mx {
			mx = v
		}
	}
	c.Eval(total)
	c.Count("cold_start_calls", int64(total))
	c.Count("mismatches", int64(bad))
	c.Max("max_overlap_cold_start", int64(mx))
	return map[string]interface{}{"goroutines": coldGoroutines, "calls": total, "max_simultaneous_cold_calls": mx,
		"mismatches": bad, "sequential_results_that_are_errors": errsN}
}
