package main

import (
	"bytes"
	"encoding/hex"
	"fmt"
	"io"
	"reflect"
	"strconv"
	"strings"
	"sync"

	"github.com/datastax/go-cassandra-native-protocol/compression/lz4"
	"github.com/datastax/go-cassandra-native-protocol/compression/snappy"
	"github.com/datastax/go-cassandra-native-protocol/datacodec"
	"github.com/datastax/go-cassandra-native-protocol/frame"
	"github.com/datastax/go-cassandra-native-protocol/message"
	"github.com/datastax/go-cassandra-native-protocol/primitive"
	"github.com/datastax/go-cassandra-native-protocol/segment"

	"verif/internal/mon"
	"verif/internal/scribble"
)

// ---------------------------------------------------------------------------------------------
// shared codec instances (the ONLY objects the stress goroutines have in common)

type shared struct {
	name   string
	inside int32 // calls currently inside this codec (xadd32 only)
	_      [15]int32
}

var sharedList []*shared

func reg(name string) int {
	sharedList = append(sharedList, &shared{name: name})
	return len(sharedList) - 1
}

var (
	fcPlain  = frame.NewCodec()
	fcRaw    = frame.NewRawCodec()
	fcLz4    = frame.NewRawCodecWithCompression(lz4.Compressor{})
	fcSnappy = frame.NewRawCodecWithCompression(snappy.Compressor{})
	scPlain  = segment.NewCodec()
	scLz4    = segment.NewCodecWithCompression(lz4.Compressor{})
	lz4c     = lz4.Compressor{}
	snappyc  = snappy.Compressor{}

	idPlain, idRaw, idLz4, idSnappy int
	idSegPlain, idSegLz4            int
	idLz4c, idSnappyc               int
	// the same four LZ4 users (and snappy) again, counted separately for the big-input phase (inputs > 64 KiB)
	idBigLz4c, idBigSnappyc, idBigFrameLz4, idBigSegLz4 int
	idMsg                                               []int // parallel to message.DefaultMessageCodecs
	idData                                              []int // parallel to dataCodecs
)

func init() {
	idPlain = reg("frame.NewCodec()")
	idRaw = reg("frame.NewRawCodec()")
	idLz4 = reg("frame.NewRawCodecWithCompression(lz4)")
	idSnappy = reg("frame.NewRawCodecWithCompression(snappy)")
	idSegPlain = reg("segment.NewCodec()")
	idSegLz4 = reg("segment.NewCodecWithCompression(lz4)")
	idLz4c = reg("lz4.Compressor")
	idSnappyc = reg("snappy.Compressor")
	for _, mc := range message.DefaultMessageCodecs {
		idMsg = append(idMsg, reg("message."+strings.TrimPrefix(fmt.Sprintf("%T", mc), "*message.")))
	}
	for _, d := range dataCodecs {
		idData = append(idData, reg(d.name))
	}
	idBigLz4c = reg("lz4.Compressor[>64KiB]")
	idBigSnappyc = reg("snappy.Compressor[>64KiB]")
	idBigFrameLz4 = reg("frame.NewRawCodecWithCompression(lz4)[>64KiB]")
	idBigSegLz4 = reg("segment.NewCodecWithCompression(lz4)[>64KiB]")
}

// bigLz4Inside counts the LZ4 COMPRESSIONS of inputs longer than 64 KiB that are in progress, over all
// four paths (Compressor.CompressWithLength, Compressor.Compress, frame body, segment payload).
var bigLz4Inside int32

// ---------------------------------------------------------------------------------------------
// calls

type decoded struct {
	V    interface{}
	Rest int // unread bytes left in the source / wasNull flag for CQL values
}

type call struct {
	codec     int
	op        string
	kind      string
	unordered bool // result bytes depend on Go map iteration order: compare byte histograms
	heavy     bool // see heavyBytes
	edit      bool // after the comparison, edit the decoded frame in place (see editResult)
	retain    bool // keep the returned value and compare it AGAIN later (before the next run of this call and at the end of the phase)
	bigLz4    bool // an LZ4 compression of more than 64 KiB: also counted in bigLz4Inside
	fn        func() (interface{}, error)

	want     interface{}
	wantHash uint64 // digest of the canonical form of want when it is not []byte (see canon.go)
	wantErr  string
	hasWant  bool
	skip     bool // sequential result not reproducible: excluded (reported as inconclusive)
}

func (cl *call) sig() string { return sharedList[cl.codec].name + "|" + cl.op + "|" + cl.kind }

func guarded(fn func() (interface{}, error)) (res interface{}, errs string) {
	defer func() {
		if p := recover(); p != nil {
			res, errs = nil, "PANIC: "+fmt.Sprint(p)
		}
	}()
	r, err := fn()
	if err != nil {
		return r, "error: " + err.Error()
	}
	return r, ""
}

// exec runs the call inside the overlap counter of its shared codec and returns the overlap seen
// on entry.
func (cl *call) exec() (res interface{}, errs string, overlap, bigOverlap int32) {
	sh := sharedList[cl.codec]
	overlap = xadd32(&sh.inside, 1)
	if cl.bigLz4 {
		bigOverlap = xadd32(&bigLz4Inside, 1)
	}
	res, errs = guarded(cl.fn)
	if cl.bigLz4 {
		xadd32(&bigLz4Inside, -1)
	}
	xadd32(&sh.inside, -1)
	return
}

func histEqual(a, b []byte) bool {
	if len(a) != len(b) {
		return false
	}
	var h [256]int
	for _, x := range a {
		h[x]++
	}
	for _, x := range b {
		h[x]--
	}
	for _, n := range h {
		if n != 0 {
			return false
		}
	}
	return true
}

func (cl *call) same(res interface{}, errs string) bool {
	if cl.unordered {
		if (errs == "") != (cl.wantErr == "") {
			return false
		}
	} else if errs != cl.wantErr {
		return false
	}
	if wb, ok := cl.want.([]byte); ok {
		gb, ok := res.([]byte)
		if !ok {
			return false
		}
		if cl.unordered {
			return histEqual(wb, gb)
		}
		return bytes.Equal(wb, gb)
	}
	if _, isBytes := res.([]byte); isBytes {
		return false
	}
	return cl.wantHash == canonHash(res)
}

func show(v interface{}) string {
	var s string
	switch x := v.(type) {
	case nil:
		return "<nil>"
	case []byte:
		s = fmt.Sprintf("(%d bytes) %s", len(x), hex.EncodeToString(x[:min(len(x), 192)]))
	default:
		s = canon(x)
	}
	if len(s) > 600 {
		s = s[:600] + "…"
	}
	return s
}

func firstDiff(a, b interface{}) int {
	x, ok1 := a.([]byte)
	y, ok2 := b.([]byte)
	if !ok1 || !ok2 {
		return -1
	}
	for i := 0; i < len(x) && i < len(y); i++ {
		if x[i] != y[i] {
			return i
		}
	}
	if len(x) != len(y) {
		return min(len(x), len(y))
	}
	return -1
}

// ---------------------------------------------------------------------------------------------
// building the private call set of one goroutine

type builder struct {
	calls []*call
	heavy bool // applies to the calls added while it is set
}

func (b *builder) add(codec int, op, kind string, unordered bool, fn func() (interface{}, error)) *call {
	cl := &call{codec: codec, op: op, kind: kind, unordered: unordered, heavy: b.heavy, fn: fn}
	b.calls = append(b.calls, cl)
	return cl
}

// addRun adds an encode call and makes its sequential reference run right away (the builder runs
// on the main goroutine before any stress goroutine exists, so this IS the phase-1 run of that
// call); the bytes it produced are the input of the decode calls that follow.
func (b *builder) addRun(codec int, op, kind string, unordered bool, fn func() (interface{}, error)) ([]byte, bool) {
	cl := b.add(codec, op, kind, unordered, fn)
	res, errs, _, _ := cl.exec()
	cl.setWant(res, errs)
	out, _ := res.([]byte)
	return cp(out), errs == ""
}

func (cl *call) setWant(res interface{}, errs string) {
	cl.want, cl.wantErr, cl.hasWant = res, errs, true
	if bs, isBytes := res.([]byte); isBytes {
		cl.want = cp(bs)
	} else {
		cl.wantHash = canonHash(res)
	}
}

func cp(b []byte) []byte { return append([]byte(nil), b...) }

func headerCopy(h *frame.Header) *frame.Header { c := *h; return &c }

// Calls are "heavy" when they compress with LZ4 or move more than 16 KiB: under -race each of them
// costs milliseconds (pierrec/lz4 takes a 128 KiB hash table from a sync.Pool that the race
// runtime empties on purpose; large allocations map fresh shadow memory). The -race child runs
// heavy calls in the first round and then in one round out of four; the normal child always runs them.
const heavyBytes = 16 << 10

func (b *builder) frameOps(id int, codec frame.Codec, fc frameCase) {
	k, un := fc.kind, fc.unordered
	compressed := fc.f.Header.Flags.Contains(primitive.HeaderFlagCompressed)
	lz4Compress := compressed && id == idLz4
	defer func() { b.heavy = false }()

	f1 := fc.f.DeepCopy()
	b.heavy = lz4Compress
	enc, ok := b.addRun(id, "EncodeFrame", k, un, func() (interface{}, error) {
		var buf bytes.Buffer
		err := codec.EncodeFrame(f1, &buf)
		return buf.Bytes(), err
	})
	b.heavy = false
	if !ok {
		return
	}
	b.add(id, "DecodeFrame", k, false, func() (interface{}, error) {
		src := bytes.NewReader(enc)
		f, err := codec.DecodeFrame(src)
		return decoded{f, src.Len()}, err
	}).edit = true
	raw, isRaw := codec.(frame.RawCodec)
	if !isRaw || id == idPlain {
		return
	}
	hl := fc.f.Header.Version.FrameHeaderLengthInBytes()
	if len(enc) < hl {
		return
	}
	f2 := fc.f.DeepCopy()
	b.heavy = lz4Compress
	b.add(id, "ConvertToRawFrame", k, un, func() (interface{}, error) {
		rf, err := raw.ConvertToRawFrame(f2)
		if err != nil {
			return nil, err
		}
		return append([]byte(rf.Header.String()+"|"), rf.Body...), nil
	})
	b.heavy = false
	refHeader, err := raw.DecodeHeader(bytes.NewReader(enc))
	if err != nil {
		return
	}
	rf1 := &frame.RawFrame{Header: headerCopy(refHeader), Body: cp(enc[hl:])}
	b.add(id, "EncodeRawFrame", k, false, func() (interface{}, error) {
		var buf bytes.Buffer
		err := raw.EncodeRawFrame(rf1, &buf)
		return buf.Bytes(), err
	})
	b.add(id, "DecodeRawFrame", k, false, func() (interface{}, error) {
		src := bytes.NewReader(enc)
		rf, err := raw.DecodeRawFrame(src)
		return decoded{rf, src.Len()}, err
	}).retain = true
	rf2 := &frame.RawFrame{Header: headerCopy(refHeader), Body: cp(enc[hl:])}
	b.add(id, "ConvertFromRawFrame", k, false, func() (interface{}, error) {
		f, err := raw.ConvertFromRawFrame(rf2)
		return f, err
	}).edit = true
	h3 := headerCopy(refHeader)
	body3 := fc.f.Body.DeepCopy()
	b.heavy = lz4Compress
	b.add(id, "EncodeHeader+EncodeBody", k, un, func() (interface{}, error) {
		var buf bytes.Buffer
		if err := raw.EncodeHeader(h3, &buf); err != nil {
			return buf.Bytes(), err
		}
		err := raw.EncodeBody(h3, body3, &buf)
		return buf.Bytes(), err
	})
	b.heavy = false
	b.add(id, "DecodeHeader+DecodeBody", k, false, func() (interface{}, error) {
		src := bytes.NewReader(enc)
		h, err := raw.DecodeHeader(src)
		if err != nil {
			return nil, err
		}
		body, err := raw.DecodeBody(h, src)
		return decoded{[]interface{}{h, body}, src.Len()}, err
	}).edit = true
	b.add(id, "DecodeHeader+DecodeRawBody", k, false, func() (interface{}, error) {
		src := bytes.NewBuffer(cp(enc)) // a *bytes.Buffer source this time
		h, err := raw.DecodeHeader(src)
		if err != nil {
			return nil, err
		}
		body, err := raw.DecodeRawBody(h, src)
		return decoded{[]interface{}{h, body}, src.Len()}, err
	}).retain = true
	b.add(id, "DecodeHeader+DiscardBody", k, false, func() (interface{}, error) {
		src := bytes.NewReader(enc)
		h, err := raw.DecodeHeader(src)
		if err != nil {
			return nil, err
		}
		err = raw.DiscardBody(h, src)
		return decoded{h, src.Len()}, err
	})
}

// segDump: the header fields EncodeSegment computes. strconv, not fmt: fmt takes its printer from a
// sync.Pool, which under -race adds happens-before edges between the goroutines that use it.
func segDump(s *segment.Segment) string {
	b := make([]byte, 0, 64)
	b = strconv.AppendBool(b, s.Header.IsSelfContained)
	for _, v := range []int64{int64(s.Header.UncompressedPayloadLength), int64(s.Header.CompressedPayloadLength), int64(s.Header.Crc24), int64(s.Payload.Crc32)} {
		b = append(b, '/')
		b = strconv.AppendInt(b, v, 10)
	}
	return string(b)
}

func (b *builder) segmentOps(id int, codec segment.Codec, sc segCase) {
	big := len(sc.s.Payload.UncompressedData) > heavyBytes
	defer func() { b.heavy = false }()
	s1 := sc.s.DeepCopy()
	b.heavy = big || id == idSegLz4
	res, ok := b.addRun(id, "EncodeSegment", sc.kind, false, func() (interface{}, error) {
		var buf bytes.Buffer
		err := codec.EncodeSegment(s1, &buf)
		// the header fields computed by the codec are results too
		buf.WriteString("|" + segDump(s1))
		return buf.Bytes(), err
	})
	if !ok {
		return
	}
	enc := res[:bytes.LastIndexByte(res, '|')]
	b.heavy = big
	b.add(id, "DecodeSegment", sc.kind, false, func() (interface{}, error) {
		src := bytes.NewReader(enc)
		s, err := codec.DecodeSegment(src)
		return decoded{s, src.Len()}, err
	}).retain = true
	// two segments back to back in one stream, as on a connection
	enc2 := append(cp(enc), enc...)
	b.add(id, "DecodeSegment×2", sc.kind, false, func() (interface{}, error) {
		src := bytes.NewReader(enc2)
		a, err := codec.DecodeSegment(src)
		if err != nil {
			return nil, err
		}
		bb, err := codec.DecodeSegment(src)
		return decoded{[]interface{}{a, bb}, src.Len()}, err
	})
}

func (b *builder) messageOps(id int, codec message.Codec, mc msgCase) {
	v := mc.v
	m1 := mc.msg.DeepCopyMessage()
	enc, ok := b.addRun(id, "Encode", mc.kind, mc.unordered, func() (interface{}, error) {
		var buf bytes.Buffer
		err := codec.Encode(m1, &buf, v)
		return buf.Bytes(), err
	})
	m2 := mc.msg.DeepCopyMessage()
	b.add(id, "EncodedLength", mc.kind, false, func() (interface{}, error) {
		n, err := codec.EncodedLength(m2, v)
		return n, err
	})
	if !ok {
		return
	}
	b.add(id, "Decode", mc.kind, false, func() (interface{}, error) {
		src := bytes.NewReader(enc)
		m, err := codec.Decode(src, v)
		return decoded{m, src.Len()}, err
	})
}

func (b *builder) dataOps(id int, d *dataCodecDef, c valCase) {
	codec := d.codec
	v := c.v
	kind := c.kind + "/" + vname(v)
	un := d.unordered != nil && d.unordered(c.kind)
	src := c.src
	enc, ok := b.addRun(id, "Encode", kind, un, func() (interface{}, error) {
		out, err := codec.Encode(src, v)
		return out, err
	})
	if !ok {
		return
	}
	if t, err := datacodec.PreferredGoType(codec.DataType()); err == nil {
		if t.Kind() == reflect.Ptr {
			t = t.Elem() // *big.Int: decode into a big.Int
		}
		b.add(id, "Decode", kind+"→"+t.String(), false, func() (interface{}, error) {
			dest := reflect.New(t)
			wasNull, err := codec.Decode(enc, dest.Interface(), v)
			rest := 0
			if wasNull {
				rest = 1
			}
			return decoded{dest.Elem().Interface(), rest}, err
		})
	}
	b.add(id, "Decode", kind+"→interface{}", false, func() (interface{}, error) {
		var dest interface{}
		wasNull, err := codec.Decode(enc, &dest, v)
		rest := 0
		if wasNull {
			rest = 1
		}
		return decoded{dest, rest}, err
	})
}

// invalidOps: headers that must be REJECTED (unsupported protocol versions, unknown opcodes, opcodes of
// the wrong direction). Their sequential reference is the error; they run next to goroutines that use
// valid versions, so anything that remembers "the last version checked" gets both kinds interleaved.
func (b *builder) invalidOps(r *mon.Rand) {
	hdr := func(versionByte, flags byte, opcode byte, v3plus bool) []byte {
		h := []byte{versionByte, flags}
		if v3plus {
			h = append(h, 0, byte(r.Intn(100)))
		} else {
			h = append(h, byte(r.Intn(100)))
		}
		h = append(h, opcode, 0, 0, 0, 0)
		return append(h, r.Bytes(8)...) // a few trailing bytes that must not be consumed as a body
	}
	cases := []struct {
		kind string
		raw  []byte
	}{
		{"INVALID/version7/request", hdr(7, 0, byte(primitive.OpCodeOptions), true)},
		{"INVALID/version7/response", hdr(0x87, 0, byte(primitive.OpCodeReady), true)},
		{"INVALID/version1/request", hdr(1, 0, byte(primitive.OpCodeOptions), false)},
		{"INVALID/version6/request", hdr(6, 0, byte(primitive.OpCodeQuery), true)},
		{"INVALID/dse3/request", hdr(0b1000011, 0, byte(primitive.OpCodeOptions), true)},
		{"INVALID/version0/response", hdr(0x80, 0, byte(primitive.OpCodeReady), true)},
		{"INVALID/v4/opcode0x1f", hdr(4, 0, 0x1f, true)},
		{"INVALID/v4/response-opcode-in-request", hdr(4, 0, byte(primitive.OpCodeReady), true)},
		{"INVALID/v3/request-opcode-in-response", hdr(0x83, 0, byte(primitive.OpCodeQuery), true)},
		{"INVALID/v5/no-beta-flag", hdr(5, 0, byte(primitive.OpCodeOptions), true)},
	}
	for _, cs := range cases {
		raw, kind := cs.raw, cs.kind
		b.add(idPlain, "DecodeFrame", kind, false, func() (interface{}, error) {
			src := bytes.NewReader(raw)
			f, err := fcPlain.DecodeFrame(src)
			return decoded{f, src.Len()}, err
		})
		b.add(idRaw, "DecodeRawFrame", kind, false, func() (interface{}, error) {
			src := bytes.NewReader(raw)
			f, err := fcRaw.DecodeRawFrame(src)
			return decoded{f, src.Len()}, err
		})
		b.add(idLz4, "DecodeHeader", kind, false, func() (interface{}, error) {
			src := bytes.NewReader(raw)
			h, err := fcLz4.DecodeHeader(src)
			return decoded{h, src.Len()}, err
		})
	}
	for _, v := range []primitive.ProtocolVersion{7, 1, 6, 0b1000011, 0} {
		v := v
		f := frame.NewFrame(v4, int16(r.Intn(100)), &message.Options{})
		f.Header.Version = v
		kind := fmt.Sprintf("INVALID/encode-version-%d", v)
		b.add(idSnappy, "EncodeFrame", kind, false, func() (interface{}, error) {
			var buf bytes.Buffer
			err := fcSnappy.EncodeFrame(f, &buf)
			return buf.Bytes(), err
		})
		rf := &frame.RawFrame{Header: &frame.Header{Version: v, OpCode: primitive.OpCodeOptions, StreamId: 1}, Body: []byte{}}
		b.add(idRaw, "EncodeRawFrame", kind, false, func() (interface{}, error) {
			var buf bytes.Buffer
			err := fcRaw.EncodeRawFrame(rf, &buf)
			return buf.Bytes(), err
		})
	}
}

// failingWriter fails on its n-th Write (1-based) and accepts the others.
type failingWriter struct {
	n, seen int
	buf     bytes.Buffer
}

func (w *failingWriter) Write(p []byte) (int, error) {
	w.seen++
	if w.seen == w.n {
		return 0, fmt.Errorf("failingWriter: write #%d refused", w.n)
	}
	return w.buf.Write(p)
}

// poisonOps: compressed EncodeFrame calls that FAIL AFTER the body was encoded and compressed (the header is
// rejected: unsupported version with the COMPRESSED flag set by hand; or the destination refuses a write),
// interleaved in every goroutine's list with the valid compressed encodes. Their reference is the error
// (plus whatever reached the writer). Error paths are where scratch buffers get released twice or not at all.
func (b *builder) poisonOps(r *mon.Rand) {
	type fc struct {
		id    int
		codec frame.RawCodec
		name  string
	}
	for _, c := range []fc{{idLz4, fcLz4, "lz4"}, {idSnappy, fcSnappy, "snappy"}} {
		c := c
		// (1) unsupported protocol version, COMPRESSED flag, body encodes fine
		var msg message.Message = &message.Options{}
		if r.Bool() {
			msg = &message.AuthResponse{Token: r.Bytes(1 + r.Intn(40))}
		}
		f := frame.NewFrame(v4, int16(r.Intn(1000)), msg)
		f.Header.Version = pick(r, primitive.ProtocolVersion(6), primitive.ProtocolVersion(7), primitive.ProtocolVersion(1))
		f.Header.Flags = f.Header.Flags.Add(primitive.HeaderFlagCompressed)
		b.add(c.id, "EncodeFrame", fmt.Sprintf("POISON/compressed+version%d", f.Header.Version), false, func() (interface{}, error) {
			var buf bytes.Buffer
			err := c.codec.EncodeFrame(f, &buf)
			return buf.Bytes(), err
		})
		// (2) a valid compressed frame into a writer that refuses its n-th write (1..5: inside the header; 6: the body)
		q := &message.Query{Query: text(r, 40+r.Intn(200)), Options: &message.QueryOptions{Consistency: primitive.ConsistencyLevelOne}}
		f2 := frame.NewFrame(pick(r, v3, v4, dse1), int16(r.Intn(1000)), q)
		f2.SetCompress(true)
		n := pick(r, 1, 2, 3, 5, 6)
		b.add(c.id, "EncodeFrame", fmt.Sprintf("POISON/compressed+writer-fails-at-%d", n), false, func() (interface{}, error) {
			w := &failingWriter{n: n}
			err := c.codec.EncodeFrame(f2, w)
			return w.buf.Bytes(), err
		})
	}
}

// editResult: what a decoded frame's owner is entitled to do with it. Once the result has been compared,
// the frame is edited in place: custom payload, tracing id and warnings are set on its body, and every byte,
// number and string reachable from it is overwritten (scribble never replaces pointers). If the codec handed
// out something it shares with other callers, the next decode differs from the reference and -race sees the write.
func editResult(res interface{}) {
	edit := func(body *frame.Body, hdr *frame.Header) {
		if body == nil {
			return
		}
		body.TracingId = &primitive.UUID{0x5c, 0x21, 0xbb}
		body.CustomPayload = map[string][]byte{"scribbled": {1, 2, 3}}
		body.Warnings = []string{"scribbled"}
		scribble.Over(body)
		if hdr != nil {
			scribble.Over(hdr)
		}
	}
	switch v := res.(type) {
	case decoded:
		switch x := v.V.(type) {
		case *frame.Frame:
			if x != nil {
				edit(x.Body, x.Header)
			}
		case []interface{}:
			var h *frame.Header
			var bd *frame.Body
			for _, e := range x {
				switch y := e.(type) {
				case *frame.Header:
					h = y
				case *frame.Body:
					bd = y
				}
			}
			edit(bd, h)
		}
	case *frame.Frame: // ConvertFromRawFrame: the header is the caller's own input, only the body is new
		if v != nil {
			edit(v.Body, nil)
		}
	}
}

type bodyCompressor interface {
	CompressWithLength(source io.Reader, dest io.Writer) error
	DecompressWithLength(source io.Reader, dest io.Writer) error
}

func (b *builder) compressorOps(id int, c bodyCompressor, kind string, data []byte) {
	l, isLz4 := c.(lz4.Compressor)
	defer func() { b.heavy = false }()
	b.heavy = isLz4
	enc, ok := b.addRun(id, "CompressWithLength", kind+"/Buffer", false, func() (interface{}, error) {
		var out bytes.Buffer
		err := c.CompressWithLength(bytes.NewBuffer(data), &out) // data is private and only read
		return out.Bytes(), err
	})
	if !isLz4 {
		b.add(id, "CompressWithLength", kind+"/Reader", false, func() (interface{}, error) {
			var out bytes.Buffer
			err := c.CompressWithLength(bytes.NewReader(data), &out)
			return out.Bytes(), err
		})
	}
	b.heavy = false
	if ok {
		b.add(id, "DecompressWithLength", kind+"/Buffer", false, func() (interface{}, error) {
			var out bytes.Buffer
			err := c.DecompressWithLength(bytes.NewBuffer(enc), &out)
			return out.Bytes(), err
		})
		b.add(id, "DecompressWithLength", kind+"/Reader", false, func() (interface{}, error) {
			var out bytes.Buffer
			err := c.DecompressWithLength(bytes.NewReader(enc), &out)
			return out.Bytes(), err
		})
	}
	if isLz4 {
		b.heavy = true
		enc2, ok2 := b.addRun(id, "Compress", kind+"/Reader", false, func() (interface{}, error) {
			var out bytes.Buffer
			err := l.Compress(bytes.NewReader(data), &out)
			return out.Bytes(), err
		})
		b.heavy = false
		if ok2 {
			b.add(id, "Decompress", kind, false, func() (interface{}, error) {
				var out bytes.Buffer
				err := l.Decompress(bytes.NewReader(enc2), &out)
				return out.Bytes(), err
			})
		}
	}
}

// opcode → indices into msgGens (computed once from one sample per generator)
var gensByOpcode = func() map[primitive.OpCode][]int {
	m := map[primitive.OpCode][]int{}
	r := mon.NewRand(0, 0)
	for i := range msgGens {
		mc := genMsg(r, &msgGens[i])
		m[mc.msg.GetOpCode()] = append(m[mc.msg.GetOpCode()], i)
	}
	return m
}()

// buildCalls generates the private inputs of goroutine g and the calls it will make. Pure
// function of (seed, g).
func buildCalls(seed int64, g int) []*call {
	r := mon.NewRand(seed, uint64(0x100000+g))
	b := &builder{}
	type fcodec struct {
		id       int
		codec    frame.Codec
		compress bool
	}
	fcodecs := []fcodec{{idPlain, fcPlain, false}, {idRaw, fcRaw, false}, {idLz4, fcLz4, true}, {idSnappy, fcSnappy, true}}
	// In the -race build the goroutines that only take part in the M=64 runs (g ≥ 16) get a quarter of the
	// LZ4-compressing calls of the others (see heavyBytes); the PRNG stream is consumed identically in both
	// builds, so all other inputs are the same.
	thin := raceEnabled && g >= 16
	keep := func(i int) bool { return !thin || (i+g)%4 == 0 }
	for i := range msgGens {
		// each goroutine takes every other message kind; over the goroutines every (kind, codec) pair occurs
		if (i+g)%2 != 0 {
			continue
		}
		fcd := fcodecs[((i+g)/2)%len(fcodecs)]
		compress := fcd.compress && r.Intn(3) > 0
		if fcd.id == idLz4 && !keep(i/2) {
			compress = false
		}
		b.frameOps(fcd.id, fcd.codec, genFrame(r, &msgGens[i], compress))
	}
	for i := 0; i < 6; i++ {
		b.segmentOps(idSegPlain, scPlain, genSegment(r, i, g))
		sc := genSegment(r, i, g)
		if (i+g)%2 == 0 && keep(i/2+1) {
			b.segmentOps(idSegLz4, scLz4, sc)
		}
	}
	for i, mc := range message.DefaultMessageCodecs {
		gens := gensByOpcode[mc.GetOpCode()]
		for k := 0; k < 2 && len(gens) > 0; k++ {
			b.messageOps(idMsg[i], mc, genMsg(r, &msgGens[gens[r.Intn(len(gens))]]))
		}
	}
	for i := range dataCodecs {
		for _, c := range dataCodecs[i].gen(r) {
			b.dataOps(idData[i], &dataCodecs[i], c)
		}
	}
	if g%4 == 3 {
		b.invalidOps(r)
	}
	b.poisonOps(r)
	inputs := []struct {
		kind string
		data []byte
	}{
		{"random-40", r.Bytes(1 + r.Intn(40))},
		{"text-2k", []byte(text(r, 500+r.Intn(2000)))},
		{"semi-6k", semi(r, 1000+r.Intn(6000))},
		{"frame-body", []byte(text(r, 100) + string(r.Bytes(200)))},
	}
	for lvl := 0; lvl < 2; lvl++ { // inputs that compress a lot, with different ratios
		k, d := compressible(r, 400+r.Intn(3000), g+lvl)
		inputs = append(inputs, struct {
			kind string
			data []byte
		}{k, d})
	}
	for i, in := range inputs {
		if (i+g)%2 == 0 && keep(i/2+2) {
			b.compressorOps(idLz4c, lz4c, in.kind, in.data)
		}
		b.compressorOps(idSnappyc, snappyc, in.kind, in.data)
	}
	return b.calls
}

// ---------------------------------------------------------------------------------------------
// big-input phase: inputs longer than 64 KiB. The library compresses those through a different LZ4
// path (compressBlock → high-compression block compressor), which the general workload reaches
// too rarely to overlap two of them; here nothing else runs, so they overlap all the time.

const bigGoroutines = 8

// bigInput: n bytes of one of three shapes, all compressible.
func bigInput(r *mon.Rand, shape, n int) (string, []byte) {
	switch shape % 3 {
	case 0:
		return "text", []byte(text(r, n))[:n]
	case 1:
		// records with a period of exactly 64 KiB: matches at distance 65536, the edge of the LZ4 window
		rec := semi(r, 1<<16)
		out := make([]byte, 0, n)
		for len(out) < n {
			out = append(out, rec...)
			rec[r.Intn(len(rec))] ^= byte(1 + r.Intn(255))
		}
		return "period-64k", out[:n]
	default:
		out := r.Bytes(n)
		copy(out[n/2:], text(r, n-n/2))
		return "half-random", out
	}
}

func buildBigCalls(seed int64, g int) []*call {
	r := mon.NewRand(seed, uint64(0x200000+g))
	b := &builder{}
	mark := func(from int, op string) { // flag the LZ4 compressions added since `from`
		for _, cl := range b.calls[from:] {
			if cl.op == op {
				cl.bigLz4 = true
			}
		}
	}
	size := func(max int) int { return 70000 + r.Intn(max-70000+1) }

	// (a) lz4.Compressor CompressWithLength / DecompressWithLength
	kind, data := bigInput(r, g, size(140<<10))
	from := len(b.calls)
	enc, ok := b.addRun(idBigLz4c, "CompressWithLength", kind, false, func() (interface{}, error) {
		var out bytes.Buffer
		err := lz4c.CompressWithLength(bytes.NewBuffer(data), &out)
		return out.Bytes(), err
	})
	mark(from, "CompressWithLength")
	if ok {
		b.add(idBigLz4c, "DecompressWithLength", kind, false, func() (interface{}, error) {
			var out bytes.Buffer
			err := lz4c.DecompressWithLength(bytes.NewReader(enc), &out)
			return out.Bytes(), err
		})
	}
	// (b) lz4.Compressor Compress / Decompress (segment payload format: at most 131071 bytes)
	kind2, data2 := bigInput(r, g+1, size(segment.MaxPayloadLength))
	from = len(b.calls)
	enc2, ok2 := b.addRun(idBigLz4c, "Compress", kind2, false, func() (interface{}, error) {
		var out bytes.Buffer
		err := lz4c.Compress(bytes.NewReader(data2), &out)
		return out.Bytes(), err
	})
	mark(from, "Compress")
	if ok2 {
		b.add(idBigLz4c, "Decompress", kind2, false, func() (interface{}, error) {
			var out bytes.Buffer
			err := lz4c.Decompress(bytes.NewReader(enc2), &out)
			return out.Bytes(), err
		})
	}
	// (c) a compressed frame with a body longer than 64 KiB through the raw+lz4 frame codec
	kind3, data3 := bigInput(r, g+2, size(140<<10))
	q := &message.Query{Query: text(r, 100), Options: &message.QueryOptions{Consistency: primitive.ConsistencyLevelQuorum, PositionalValues: []*primitive.Value{primitive.NewValue(data3)}}}
	f := frame.NewFrame(pick(r, v3, v4, dse1), int16(r.Intn(1<<15)), q)
	f.SetCompress(true)
	fkind := "QUERY/" + kind3 + "/" + vname(f.Header.Version) + "+compressed"
	from = len(b.calls)
	enc3, ok3 := b.addRun(idBigFrameLz4, "EncodeFrame", fkind, false, func() (interface{}, error) {
		var buf bytes.Buffer
		err := fcLz4.EncodeFrame(f, &buf)
		return buf.Bytes(), err
	})
	mark(from, "EncodeFrame")
	if ok3 {
		b.add(idBigFrameLz4, "DecodeFrame", fkind, false, func() (interface{}, error) {
			src := bytes.NewReader(enc3)
			df, err := fcLz4.DecodeFrame(src)
			return decoded{df, src.Len()}, err
		}).retain = true
	}
	// (d) a segment with a payload of 70000..131071 bytes through the lz4 segment codec
	kind4, data4 := bigInput(r, g, size(segment.MaxPayloadLength))
	seg := &segment.Segment{Header: &segment.Header{IsSelfContained: true}, Payload: &segment.Payload{UncompressedData: data4}}
	from = len(b.calls)
	res4, ok4 := b.addRun(idBigSegLz4, "EncodeSegment", kind4, false, func() (interface{}, error) {
		var buf bytes.Buffer
		err := scLz4.EncodeSegment(seg, &buf)
		buf.WriteString("|" + segDump(seg))
		return buf.Bytes(), err
	})
	mark(from, "EncodeSegment")
	if ok4 {
		enc4 := res4[:bytes.LastIndexByte(res4, '|')]
		b.add(idBigSegLz4, "DecodeSegment", kind4, false, func() (interface{}, error) {
			src := bytes.NewReader(enc4)
			ds, err := scLz4.DecodeSegment(src)
			return decoded{ds, src.Len()}, err
		}).retain = true
	}
	// (f) incompressible payloads of 32 KiB and more through the lz4 segment codec: they are stored uncompressed
	// (header uncompressed-length = 0), a branch of its own in the decoder; the decoded value is retained
	for k := 0; k < 2; k++ {
		n := 32768 + r.Intn(32768)
		if k == 1 && g%2 == 1 {
			n = 65537 + r.Intn(segment.MaxPayloadLength-65537+1)
		}
		rseg := &segment.Segment{Header: &segment.Header{IsSelfContained: k == 0}, Payload: &segment.Payload{UncompressedData: r.Bytes(n)}}
		rkind := fmt.Sprintf("random-incompressible-%dk", n>>10)
		from = len(b.calls)
		resR, okR := b.addRun(idBigSegLz4, "EncodeSegment", rkind, false, func() (interface{}, error) {
			var buf bytes.Buffer
			err := scLz4.EncodeSegment(rseg, &buf)
			buf.WriteString("|" + segDump(rseg))
			return buf.Bytes(), err
		})
		if n > 1<<16 {
			mark(from, "EncodeSegment")
		}
		if okR {
			encR := resR[:bytes.LastIndexByte(resR, '|')]
			b.add(idBigSegLz4, "DecodeSegment", rkind, false, func() (interface{}, error) {
				src := bytes.NewReader(encR)
				ds, err := scLz4.DecodeSegment(src)
				return decoded{ds, src.Len()}, err
			}).retain = true
		}
	}
	// (e) snappy with the same kind of input, for symmetry
	kind5, data5 := bigInput(r, g+1, size(140<<10))
	enc5, ok5 := b.addRun(idBigSnappyc, "CompressWithLength", kind5, false, func() (interface{}, error) {
		var out bytes.Buffer
		err := snappyc.CompressWithLength(bytes.NewBuffer(data5), &out)
		return out.Bytes(), err
	})
	if ok5 {
		b.add(idBigSnappyc, "DecompressWithLength", kind5, false, func() (interface{}, error) {
			var out bytes.Buffer
			err := snappyc.DecompressWithLength(bytes.NewReader(enc5), &out)
			return out.Bytes(), err
		})
	}
	for _, cl := range b.calls {
		cl.heavy = false // nothing is thinned in this phase
	}
	return b.calls
}

// ---------------------------------------------------------------------------------------------
// phase 1: sequential reference results

func phase1(c *mon.Ctx, sets [][]*call, reps int) (total, unstable, seqErrors int) {
	errKinds := map[string]int{}
	for g, cs := range sets {
		for i, cl := range cs {
			total++ // the reference run (made by the builder for encode calls, here for the others)
			if !cl.hasWant {
				res, errs, _, _ := cl.exec()
				cl.setWant(res, errs)
			}
			if cl.wantErr != "" {
				seqErrors++
				errKinds[cl.sig()+" :: "+cl.wantErr]++
			}
			for k := 1; k < reps; k++ {
				r2, e2, _, _ := cl.exec()
				total++
				if !cl.same(r2, e2) {
					cl.skip = true
				}
			}
			if cl.skip {
				unstable++
				c.Inconclusive("sequential-result-not-reproducible/" + sharedList[cl.codec].name + "/" + cl.op)
				c.Note("sequential result not reproducible: %s", cl.sig())
				continue
			}
			c.Distinct(cl.sig())
			if cl.wantErr == "" && (g*131+i)%97 == 0 && c.WantSample() {
				c.Sample(map[string]interface{}{"goroutine": g, "call": i, "codec": sharedList[cl.codec].name, "op": cl.op, "input_kind": cl.kind, "sequential_result": show(cl.want)})
			}
		}
	}
	if len(errKinds) > 0 {
		// calls whose sequential result is an error are still compared (same error expected), but the
		// evidence says how many there are and shows a few
		ex := []string{}
		for k := range errKinds {
			if len(ex) < 6 {
				ex = append(ex, k)
			}
		}
		c.Set("sequential_error_examples", ex)
	}
	return
}

// ---------------------------------------------------------------------------------------------
// phase 2: M goroutines released together, R rounds each, every result compared

type local struct {
	calls  []int64
	maxOv  []int32
	n      int64
	bad    int64
	bigMax int32
}

type stressStats struct {
	calls  []int64
	maxOv  []int32
	n      int64
	bad    int64
	bigMax int32 // maximum number of simultaneous LZ4 compressions of > 64 KiB inputs
}

func newStats() *stressStats {
	return &stressStats{calls: make([]int64, len(sharedList)), maxOv: make([]int32, len(sharedList))}
}

// heavyEvery: heavy calls run in round 0 and then in one round out of heavyEvery (PRNG-chosen).
func stress(c *mon.Ctx, label string, sets [][]*call, M, rounds, heavyEvery int, st *stressStats) {
	locals := make([]*local, M)
	start := make(chan struct{})
	var wg sync.WaitGroup
	for g := 0; g < M; g++ {
		wg.Add(1)
		go func(g int) {
			defer wg.Done()
			lo := &local{calls: make([]int64, len(sharedList)), maxOv: make([]int32, len(sharedList))}
			cs := sets[g]
			r := mon.NewRand(c.Seed, uint64(M)<<32|uint64(g))
			order := make([]int, 0, len(cs))
			for i, cl := range cs {
				if !cl.skip {
					order = append(order, i)
				}
			}
			retained := make([]interface{}, len(cs))
			hasRetained := make([]bool, len(cs))
			recheck := func(i, round int, when string) {
				cl := cs[i]
				if !cl.same(retained[i], "") {
					lo.bad++
					name := sharedList[cl.codec].name
					c.Violation("mismatch/"+name+"/"+cl.op+"/retained-result", map[string]interface{}{
						"what":  "the value the call returned was equal to the sequential result when it returned and is not any more (" + when + "): it shares memory with something the codec reuses",
						"build": label, "race_build": raceEnabled, "seed": c.Seed, "tier": c.Tier, "M": M, "goroutine": g, "round": round, "call": i,
						"codec": name, "op": cl.op, "input_kind": cl.kind, "sequential": show(cl.want), "retained_now": show(retained[i]),
					})
				}
				hasRetained[i] = false
			}
			<-start // barrier: everybody starts together
			for round := 0; round < rounds; round++ {
				for i := len(order) - 1; i > 0; i-- {
					j := r.Intn(i + 1)
					order[i], order[j] = order[j], order[i]
				}
				for _, i := range order {
					cl := cs[i]
					if cl.heavy && heavyEvery > 1 && round > 0 && r.Intn(heavyEvery) != 0 {
						continue
					}
					if hasRetained[i] {
						recheck(i, round, "checked again one round later")
					}
					res, errs, ov, bigOv := cl.exec()
					if bigOv > lo.bigMax {
						lo.bigMax = bigOv
					}
					lo.n++
					lo.calls[cl.codec]++
					if ov > lo.maxOv[cl.codec] {
						lo.maxOv[cl.codec] = ov
					}
					if !cl.same(res, errs) {
						lo.bad++
						name := sharedList[cl.codec].name
						c.Violation("mismatch/"+name+"/"+cl.op, map[string]interface{}{
							"build": label, "race_build": raceEnabled, "seed": c.Seed, "tier": c.Tier, "M": M, "goroutine": g, "round": round, "call": i,
							"codec": name, "op": cl.op, "input_kind": cl.kind, "unordered_compare": cl.unordered,
							"sequential": show(cl.want), "sequential_err": cl.wantErr,
							"concurrent": show(res), "concurrent_err": errs, "first_diff_offset": firstDiff(cl.want, res),
							"overlap_at_entry": ov,
						})
					} else if cl.retain && errs == "" {
						retained[i], hasRetained[i] = res, true
					} else if cl.edit && errs == "" {
						editResult(res)
					}
				}
			}
			for i := range cs {
				if hasRetained[i] {
					recheck(i, rounds, "checked again at the end of the phase")
				}
			}
			locals[g] = lo
		}(g)
	}
	close(start)
	wg.Wait()
	for _, lo := range locals {
		st.n += lo.n
		st.bad += lo.bad
		if lo.bigMax > st.bigMax {
			st.bigMax = lo.bigMax
		}
		for i := range lo.calls {
			st.calls[i] += lo.calls[i]
			if lo.maxOv[i] > st.maxOv[i] {
				st.maxOv[i] = lo.maxOv[i]
			}
		}
	}
}
