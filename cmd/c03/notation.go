package main

import (
	"bytes"
	"fmt"
	"net"
	"strings"

	"github.com/datastax/go-cassandra-native-protocol/datatype"
	"github.com/datastax/go-cassandra-native-protocol/primitive"

	"verif/internal/bridge"
	"verif/internal/gen"
	"verif/internal/mon"
	"verif/internal/ref"
)

// monitor 3: every LengthOfX(x) == number of bytes WriteX(x) emits.

type notationCase struct {
	name, class string
	length      func() (int, error)
	write       func(*bytes.Buffer) error
}

func checkNotation(c *mon.Ctx, nc notationCase) {
	var buf bytes.Buffer
	c.Eval(1)
	errW := nc.write(&buf)
	n, errL := nc.length()
	if errW != nil && strings.HasPrefix(errW.Error(), "Write reported") {
		c.Violation("notation/"+nc.name+"/write-count/"+nc.class, map[string]interface{}{"notation": nc.name, "class": nc.class, "error": errW.Error(), "seed": c.Seed})
		return
	}
	if errW != nil || errL != nil {
		if (errW == nil) != (errL == nil) {
			c.Count("notation_write_and_length_disagree_on_error/"+nc.name, 1)
		}
		return
	}
	if n != buf.Len() {
		c.Violation("notation/"+nc.name+"/"+nc.class, map[string]interface{}{"notation": nc.name, "class": nc.class, "LengthOf": n,
			"bytes_written": buf.Len(), "bytes_hex": hexCap(buf.Bytes()), "seed": c.Seed})
		return
	}
	c.Count("notation_ok/"+nc.name, 1)
	c.Distinct("notation|" + nc.name + "|" + nc.class)
}

func vintValues(r *mon.Rand, fill int) []uint64 {
	var vs []uint64
	vs = append(vs, 0)
	for k := 0; k < 64; k++ {
		p := uint64(1) << uint(k)
		vs = append(vs, p-1, p, p+1)
	}
	vs = append(vs, ^uint64(0), ^uint64(0)-1)
	for i := 0; i < fill; i++ {
		vs = append(vs, r.Uint64()>>uint(r.Intn(64)))
	}
	return vs
}

func strs() map[string]string {
	return map[string]string{"empty": "", "1": "a", "2": "é", "255": strings.Repeat("x", 255), "256": strings.Repeat("y", 256),
		"65535": strings.Repeat("z", 65535), "nul": "a\x00b"}
}

func notation(c *mon.Ctx) {
	r := mon.NewRand(c.Seed, 0x907a710)
	// [unsigned vint] / [vint]: all magnitude classes
	for _, u := range vintValues(r, c.Pick(100000, 10000000)) {
		u := u
		cls := fmt.Sprintf("bits=%d", 64-leading(u))
		checkNotation(c, notationCase{"unsigned-vint", cls, func() (int, error) { return primitive.LengthOfUnsignedVint(u), nil },
			func(b *bytes.Buffer) error { n, err := primitive.WriteUnsignedVint(u, b); return lenErr(n, b, err) }})
		s := int64(u)
		checkNotation(c, notationCase{"vint", cls + signOf(s), func() (int, error) { return primitive.LengthOfVint(s), nil },
			func(b *bytes.Buffer) error { n, err := primitive.WriteVint(s, b); return lenErr(n, b, err) }})
		s = -int64(u >> 1)
		checkNotation(c, notationCase{"vint", cls + signOf(s), func() (int, error) { return primitive.LengthOfVint(s), nil },
			func(b *bytes.Buffer) error { n, err := primitive.WriteVint(s, b); return lenErr(n, b, err) }})
	}
	for cls, s := range strs() {
		s := s
		checkNotation(c, notationCase{"string", cls, func() (int, error) { return primitive.LengthOfString(s), nil },
			func(b *bytes.Buffer) error { return primitive.WriteString(s, b) }})
		checkNotation(c, notationCase{"long-string", cls, func() (int, error) { return primitive.LengthOfLongString(s), nil },
			func(b *bytes.Buffer) error { return primitive.WriteLongString(s, b) }})
		for _, n := range []int{0, 1, 3} {
			l := []string{}
			for i := 0; i < n; i++ {
				l = append(l, s)
			}
			if n == 0 && cls == "empty" {
				l = nil
			}
			checkNotation(c, notationCase{"string-list", fmt.Sprintf("%s x%d", cls, n), func() (int, error) { return primitive.LengthOfStringList(l), nil },
				func(b *bytes.Buffer) error { return primitive.WriteStringList(l, b) }})
			sm := map[string]string{}
			mm := map[string][]string{}
			bm := map[string][]byte{}
			for i := 0; i < n; i++ {
				k := fmt.Sprintf("k%d", i)
				sm[k], mm[k], bm[k] = s, l, []byte(s)
				if i == 1 {
					bm[k] = nil
				}
			}
			checkNotation(c, notationCase{"string-map", fmt.Sprintf("%s x%d", cls, n), func() (int, error) { return primitive.LengthOfStringMap(sm), nil },
				func(b *bytes.Buffer) error { return primitive.WriteStringMap(sm, b) }})
			checkNotation(c, notationCase{"string-multimap", fmt.Sprintf("%s x%d", cls, n), func() (int, error) { return primitive.LengthOfStringMultiMap(mm), nil },
				func(b *bytes.Buffer) error { return primitive.WriteStringMultiMap(mm, b) }})
			checkNotation(c, notationCase{"bytes-map", fmt.Sprintf("%s x%d", cls, n), func() (int, error) { return primitive.LengthOfBytesMap(bm), nil },
				func(b *bytes.Buffer) error { return primitive.WriteBytesMap(bm, b) }})
		}
	}
	blobs := map[string][]byte{"nil": nil, "empty": {}, "1": {7}, "255": make([]byte, 255), "65535": make([]byte, 65535), "65536": make([]byte, 65536), "1MiB": make([]byte, 1<<20)}
	for cls, bb := range blobs {
		bb := bb
		checkNotation(c, notationCase{"bytes", cls, func() (int, error) { return primitive.LengthOfBytes(bb), nil },
			func(b *bytes.Buffer) error { return primitive.WriteBytes(bb, b) }})
		if len(bb) <= 65535 {
			checkNotation(c, notationCase{"short-bytes", cls, func() (int, error) { return primitive.LengthOfShortBytes(bb), nil },
				func(b *bytes.Buffer) error { return primitive.WriteShortBytes(bb, b) }})
		}
		for _, val := range []*primitive.Value{primitive.NewValue(bb), {Type: primitive.ValueTypeRegular, Contents: bb}, primitive.NewNullValue(), primitive.NewUnsetValue()} {
			val := val
			for _, v := range []primitive.ProtocolVersion{3, 4, 5} {
				v := v
				checkNotation(c, notationCase{"value", fmt.Sprintf("%s type=%d v%d", cls, val.Type, v), func() (int, error) { return primitive.LengthOfValue(val) },
					func(b *bytes.Buffer) error { return primitive.WriteValue(val, b, v) }})
				pv := []*primitive.Value{val, val}
				checkNotation(c, notationCase{"positional-values", fmt.Sprintf("%s type=%d v%d", cls, val.Type, v), func() (int, error) { return primitive.LengthOfPositionalValues(pv) },
					func(b *bytes.Buffer) error { return primitive.WritePositionalValues(pv, b, v) }})
				nv := map[string]*primitive.Value{"a": val, "bb": val}
				checkNotation(c, notationCase{"named-values", fmt.Sprintf("%s type=%d v%d", cls, val.Type, v), func() (int, error) { return primitive.LengthOfNamedValues(nv) },
					func(b *bytes.Buffer) error { return primitive.WriteNamedValues(nv, b, v) }})
			}
		}
	}
	ips := map[string]net.IP{"v4": net.IP{1, 2, 3, 4}, "v4in16": net.IPv4(1, 2, 3, 4), "v6": net.ParseIP("2001:db8::1"), "v6zero": net.IPv6zero, "nil": nil, "bad-len": net.IP{1, 2, 3}}
	for cls, ip := range ips {
		ip := ip
		checkNotation(c, notationCase{"inetaddr", cls, func() (int, error) { return primitive.LengthOfInetAddr(ip) },
			func(b *bytes.Buffer) error { return primitive.WriteInetAddr(ip, b) }})
		in := &primitive.Inet{Addr: ip, Port: 9042}
		checkNotation(c, notationCase{"inet", cls, func() (int, error) { return primitive.LengthOfInet(in) },
			func(b *bytes.Buffer) error { return primitive.WriteInet(in, b) }})
		if ip != nil && len(ip) != 3 {
			for n := 0; n < 4; n++ {
				var rm []*primitive.FailureReason
				for i := 0; i < n; i++ {
					rm = append(rm, &primitive.FailureReason{Endpoint: ip, Code: primitive.FailureCode(i)})
				}
				checkNotation(c, notationCase{"reason-map", fmt.Sprintf("%s x%d", cls, n), func() (int, error) { return primitive.LengthOfReasonMap(rm) },
					func(b *bytes.Buffer) error { return primitive.WriteReasonMap(rm, b) }})
			}
		}
	}
	u := primitive.UUID{1, 2, 3}
	checkNotation(c, notationCase{"uuid", "any", func() (int, error) { return primitive.LengthOfUuid, nil },
		func(b *bytes.Buffer) error { return primitive.WriteUuid(&u, b) }})
	// [option] type descriptors, nested
	for i := 0; i < c.Pick(20000, 500000); i++ {
		rr := mon.NewRand(c.Seed, 0x7e9e<<32|uint64(i))
		v := ref.Versions[rr.Intn(len(ref.Versions))]
		g := &gen.Gen{R: rr, C: gen.NewRandChooser(rr), V: v, Big: c.Thorough()}
		depth := 1 + rr.Intn(5)
		t := g.Type(depth)
		lt := bridge.TypeToLib(&t)
		pv := primitive.ProtocolVersion(v)
		checkNotation(c, notationCase{"data-type", fmt.Sprintf("code=%#04x depth<=%d %s", t.Code, depth, g.Classes()), func() (int, error) { return datatype.LengthOfDataType(lt, pv) },
			func(b *bytes.Buffer) error { return datatype.WriteDataType(lt, b, pv) }})
	}
}

func lenErr(n int, b *bytes.Buffer, err error) error {
	if err == nil && n != b.Len() {
		return fmt.Errorf("Write reported %d bytes, wrote %d", n, b.Len())
	}
	return err
}

func leading(u uint64) int {
	n := 0
	for i := 63; i >= 0 && u&(1<<uint(i)) == 0; i-- {
		n++
	}
	return n
}

func signOf(s int64) string {
	if s < 0 {
		return " neg"
	}
	return " pos"
}
