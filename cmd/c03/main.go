// C03 — declared lengths equal emitted bytes; back-to-back frames decode in sequence
// (DESIGN.md §4 C03). Four monitors: frame, message, notation, stream.
package main

import (
	"bytes"
	"encoding/binary"
	"encoding/hex"
	"fmt"
	"io"

	"github.com/datastax/go-cassandra-native-protocol/compression/lz4"
	"github.com/datastax/go-cassandra-native-protocol/compression/snappy"
	"github.com/datastax/go-cassandra-native-protocol/frame"
	"github.com/datastax/go-cassandra-native-protocol/message"
	"github.com/datastax/go-cassandra-native-protocol/primitive"

	"verif/internal/bridge"
	"verif/internal/cases"
	"verif/internal/gen"
	"verif/internal/mon"
	"verif/internal/ref"
)

func main() { mon.Main("C03", run) }

var comps = []string{"none", "lz4", "snappy"}
var codecs = map[string]frame.RawCodec{
	"none":   frame.NewRawCodec(),
	"lz4":    frame.NewRawCodecWithCompression(lz4.Compressor{}),
	"snappy": frame.NewRawCodecWithCompression(snappy.Compressor{}),
}
var msgCodecs = map[primitive.OpCode]message.Codec{}

func init() {
	for _, mc := range message.DefaultMessageCodecs {
		msgCodecs[mc.GetOpCode()] = mc
	}
}

type lazyFrame struct{ f *ref.Frame }

func (l lazyFrame) MarshalJSON() ([]byte, error) { return ref.JSON(l.f), nil }

func hexCap(b []byte) string {
	if len(b) > 1024 {
		return hex.EncodeToString(b[:1024]) + fmt.Sprintf("...(%d bytes)", len(b))
	}
	return hex.EncodeToString(b)
}

func hash(s string) uint64 {
	var h uint64 = 14695981039346656037
	for i := 0; i < len(s); i++ {
		h ^= uint64(s[i])
		h *= 1099511628211
	}
	return h
}

// compressible: any frame but STARTUP may carry the COMPRESSED flag once compression is agreed (v4 §5: "a
// STARTUP message must never be compressed"); OPTIONS and READY have empty bodies, and the library's own server
// does compress READY.
func compressible(op byte) bool {
	return op != ref.OpStartup
}

func run(c *mon.Ctx) {
	c.Rule = "frame/message monitors over the C01 case list (exhaustive shapes x draws, all frame-flag combinations, PRNG frames) x {none, LZ4, Snappy}; notation monitor over every LengthOf*/Write* pair by value class (all 65 magnitude classes of vints: 2^k-1, 2^k, 2^k+1 and PRNG fill-ins; strings/bytes by length class; nil vs empty; maps; lists; inet v4/v6; values; reason maps; nested type descriptors); stream monitor over PRNG sequences of 1..16 frames; distinct = distinct (monitor, kind/notation, version, shape or value class)"
	c.Assume("the generator's version gates (internal/ref) and internal/bridge ToLib")
	if c.Replay != "" {
		var d struct {
			ID string `json:"id"`
		}
		if err := c.ReplayDetail(&d); err != nil {
			c.Fatal("replay: %v", err)
		}
		if cs, ok := cases.ByID(c.Seed, d.ID, c.Thorough()); ok {
			frameAndMessage(c, cs, d.ID)
		} else {
			notation(c)
			streams(c, c.Pick(20000, 1000000))
		}
		c.Distinct("replay-a")
		c.Distinct("replay-b")
		return
	}
	plan := cases.Plan{Seed: c.Seed, Draws: c.Pick(2, 6), Random: c.Pick(100000, 2000000), Big: c.Thorough()}
	st := cases.ForEach(plan, func(cs gen.Case, id string) { frameAndMessage(c, cs, id) })
	c.Set("shapes_enumerated", st.Shapes)
	c.Set("random_cases", st.Random)
	notation(c)
	streams(c, c.Pick(20000, 1000000))
}

// ---- monitors 1 and 2 ---------------------------------------------------------------------------

func frameAndMessage(c *mon.Ctx, cs gen.Case, id string) {
	if c.Saturated() {
		return // the verdict is decided; see mon.Saturated
	}
	a := cs.Frame
	v := primitive.ProtocolVersion(a.Version)
	hl := a.Version.HeaderLen()
	for ci, comp := range comps {
		flag := comp != "none" && a.Version != ref.V5 && compressible(a.Msg.Opcode())
		if comp != "none" && !flag {
			continue // same bytes as "none"
		}
		f := bridge.ToLib(a, flag, bridge.NewVariant(mon.NewRand(c.Seed, hash(id)^uint64(ci))))
		var buf bytes.Buffer
		c.Eval(1)
		if err := codecs[comp].EncodeFrame(f, &buf); err != nil {
			continue // C01's business
		}
		b := buf.Bytes()
		var declared int32
		if len(b) >= hl {
			declared = int32(binary.BigEndian.Uint32(b[hl-4 : hl]))
		}
		if len(b) < hl || int(declared) != len(b)-hl || f.Header.BodyLength != declared {
			c.Violation(fmt.Sprintf("frame/%s/%s/compression=%s/flags=%#02x/declared-length", dirName(a), cs.Kind, comp, a.Flags()),
				map[string]interface{}{"id": id, "frame": lazyFrame{a}, "bytes_hex": hexCap(b), "declared_in_header_bytes": declared,
					"Header.BodyLength_after_encode": f.Header.BodyLength, "body_bytes_emitted": len(b) - hl, "seed": c.Seed})
			continue
		}
		c.Count("frame_ok/"+comp, 1)
		c.Distinct("frame|" + cs.Sig + "|" + comp)
		// the raw route: a raw frame whose Header.BodyLength is stale when EncodeRawFrame is called (a hand-built
		// raw frame, a replaced body) must still go out with the length of the body it carries
		if raw, err := codecs[comp].ConvertToRawFrame(bridge.ToLib(a, flag, bridge.NewVariant(mon.NewRand(c.Seed, hash(id)^uint64(ci))))); err == nil {
			stale := []int32{0, raw.Header.BodyLength + 7, raw.Header.BodyLength - 1}[hash(id)%3]
			raw.Header.BodyLength = stale
			var rb bytes.Buffer
			c.Eval(1)
			if err := codecs[comp].EncodeRawFrame(raw, &rb); err == nil {
				x := rb.Bytes()
				if len(x) < hl || int(int32(binary.BigEndian.Uint32(x[hl-4:hl]))) != len(x)-hl || int(raw.Header.BodyLength) != len(x)-hl {
					c.Violation(fmt.Sprintf("rawframe/%s/%s/compression=%s/stale-BodyLength/declared-length", dirName(a), cs.Kind, comp),
						map[string]interface{}{"id": id, "frame": lazyFrame{a}, "Header.BodyLength_before_EncodeRawFrame": stale, "bytes_hex": hexCap(x),
							"Header.BodyLength_after": raw.Header.BodyLength, "body_bytes_emitted": len(x) - hl, "seed": c.Seed})
				} else {
					c.Count("rawframe_stale_length_ok", 1)
				}
			}
		}
	}
	strayFlags(c, cs, id)
	// message level: EncodedLength == bytes written by Encode
	m := bridge.MsgToLib(a.Version, a.Msg, bridge.NewVariant(mon.NewRand(c.Seed, hash(id)^77)))
	mc := msgCodecs[m.GetOpCode()]
	if mc == nil {
		return
	}
	var mb bytes.Buffer
	c.Eval(1)
	errE := mc.Encode(m, &mb, v)
	n, errL := mc.EncodedLength(m, v)
	if errE != nil || errL != nil {
		if (errE == nil) != (errL == nil) {
			c.Count("message_encode_and_length_disagree_on_error", 1)
		}
		return
	}
	if n != mb.Len() {
		c.Violation(fmt.Sprintf("message/%s/%v/EncodedLength", cs.Kind, a.Version),
			map[string]interface{}{"id": id, "frame": lazyFrame{a}, "EncodedLength": n, "bytes_written": mb.Len(), "bytes_hex": hexCap(mb.Bytes()), "seed": c.Seed})
		return
	}
	c.Count("message_ok", 1)
	c.Distinct("msg|" + cs.Sig)
	if c.WantSample() && mb.Len() < 120 {
		c.Sample(map[string]interface{}{"monitor": "message", "id": id, "kind": cs.Kind, "version": a.Version.String(), "EncodedLength": n, "bytes": hex.EncodeToString(mb.Bytes())})
	}
}

// strayFlags: header flags are a public field, and nothing stops a caller (or a proxy forwarding a decoded
// frame) from setting TRACING, CUSTOM_PAYLOAD, WARNING or USE_BETA on a frame whose body has nothing to go with
// them, or on a request. Whatever the encoder then decides to emit (it may also refuse), the length it declares
// must be the number of body bytes it writes.
func strayFlags(c *mon.Ctx, cs gen.Case, id string) {
	a := cs.Frame
	hl := a.Version.HeaderLen()
	r := mon.NewRand(c.Seed, hash(id)^0x5747)
	all := []primitive.HeaderFlag{primitive.HeaderFlagTracing, primitive.HeaderFlagCustomPayload, primitive.HeaderFlagWarning, primitive.HeaderFlagUseBeta}
	for round := 0; round < 2; round++ {
		f := bridge.ToLib(a, false, bridge.NewVariant(mon.NewRand(c.Seed, hash(id)^uint64(0x5748+round))))
		var added primitive.HeaderFlag
		for _, fl := range all {
			if r.Intn(3) == 0 {
				added |= fl
			}
		}
		if added == 0 {
			added = all[r.Intn(len(all))]
		}
		f.Header.Flags = f.Header.Flags.Add(added)
		fill := r.Bool()
		if fill && f.Body != nil {
			if added.Contains(primitive.HeaderFlagWarning) && f.Body.Warnings == nil {
				f.Body.Warnings = []string{"stray warning", ""}
			}
			if added.Contains(primitive.HeaderFlagCustomPayload) && f.Body.CustomPayload == nil {
				f.Body.CustomPayload = map[string][]byte{"stray": {1, 2, 3}}
			}
			if added.Contains(primitive.HeaderFlagTracing) && f.Body.TracingId == nil {
				f.Body.TracingId = &primitive.UUID{1, 2, 3, 4, 5, 6, 7, 8, 9, 10, 11, 12, 13, 14, 15, 16}
			}
		}
		var buf bytes.Buffer
		c.Eval(1)
		if err := codecs["none"].EncodeFrame(f, &buf); err != nil {
			c.Count("stray_flags_refused", 1)
			continue
		}
		b := buf.Bytes()
		var declared int32
		if len(b) >= hl {
			declared = int32(binary.BigEndian.Uint32(b[hl-4 : hl]))
		}
		if len(b) < hl || int(declared) != len(b)-hl || f.Header.BodyLength != declared {
			c.Violation(fmt.Sprintf("frame/%s/%s/stray-flags=%#02x/fields-filled=%v/declared-length", dirName(a), cs.Kind, uint8(added), fill),
				map[string]interface{}{"id": id, "frame": lazyFrame{a}, "added_flags": uint8(added), "fields_filled": fill, "bytes_hex": hexCap(b),
					"declared_in_header_bytes": declared, "Header.BodyLength_after_encode": f.Header.BodyLength, "body_bytes_emitted": len(b) - hl, "seed": c.Seed})
			continue
		}
		c.Count("stray_flags_ok", 1)
		c.Distinct(fmt.Sprintf("stray|%s|%#02x|%v", cs.Kind, uint8(added), fill))
	}
}

func dirName(a *ref.Frame) string {
	if a.Response {
		return "response"
	}
	return "request"
}

// ---- monitor 4: streams -------------------------------------------------------------------------

// poison runs an encode that is expected to FAIL after part of the body was produced (a QUERY whose serial
// consistency is not a serial level: the length computation accepts it, the encoder refuses it after writing the
// query string, consistency, flags and values). A codec must not carry anything over from a failed call into the
// next one: the valid frame encoded right afterwards on the same goroutine must still round-trip.
func poison(codec frame.RawCodec, v ref.Version, compressed bool, c *mon.Ctx) {
	one := primitive.ConsistencyLevelOne
	q := &message.Query{Query: "INSERT INTO poison.t (a, b) VALUES (?, ?) /* left over from a failed encode */",
		Options: &message.QueryOptions{PositionalValues: []*primitive.Value{primitive.NewValue([]byte("stale")), primitive.NewNullValue()}, SerialConsistency: &one}}
	f := frame.NewFrame(primitive.ProtocolVersion(v), 1, q)
	if compressed {
		f.Header.Flags = f.Header.Flags.Add(primitive.HeaderFlagCompressed)
	}
	if err := codec.EncodeFrame(f, io.Discard); err == nil {
		c.Count("poison_encode_unexpectedly_succeeded", 1)
	} else {
		c.Count("poison_encodes_refused", 1)
	}
}

// chunkReader returns at most n bytes per Read.
type chunkReader struct {
	r io.Reader
	n int
}

func (c *chunkReader) Read(p []byte) (int, error) {
	if len(p) > c.n {
		p = p[:c.n]
	}
	return c.r.Read(p)
}

type countingReader struct {
	r io.Reader
	n int
}

func (c *countingReader) Read(p []byte) (int, error) {
	n, err := c.r.Read(p)
	c.n += n
	return n, err
}

func streams(c *mon.Ctx, count int) {
	mon.Parallel(count, func(i int) {
		r := mon.NewRand(c.Seed, 0x5712<<32|uint64(i))
		comp := comps[r.Intn(3)]
		codec := codecs[comp]
		v := ref.Versions[r.Intn(len(ref.Versions))]
		k := 1 + r.Intn(16)
		var stream bytes.Buffer
		var want []*ref.Frame
		var lens []int
		for j := 0; j < k; j++ {
			var cs gen.Case
			for {
				kd := &gen.Kinds[r.Intn(len(gen.Kinds))]
				if kd.Defined(v) {
					cs = gen.Frame(kd, v, gen.NewRandChooser(r), r, false, -1)
					break
				}
			}
			a := cs.Frame
			flag := comp != "none" && v != ref.V5 && compressible(a.Msg.Opcode()) && r.Bool() // mixed compression
			f := bridge.ToLib(a, flag, bridge.NewVariant(r))
			before := stream.Len()
			if r.Intn(3) == 0 {
				poison(codec, v, flag, c)
			}
			if err := codec.EncodeFrame(f, &stream); err != nil {
				return
			}
			want = append(want, a)
			lens = append(lens, stream.Len()-before)
		}
		all := stream.Bytes()
		c.Eval(1)
		det := func(what string, j int) map[string]interface{} {
			return map[string]interface{}{"stream_index": i, "seed": c.Seed, "frames": k, "failed_at": j, "what": what, "compression": comp,
				"version": v.String(), "frame_lengths": lens, "stream_hex": hexCap(all)}
		}
		// walk 1: DecodeFrame
		cr := &countingReader{r: bytes.NewReader(all)}
		off := 0
		for j := 0; j < k; j++ {
			f2, err := codec.DecodeFrame(cr)
			if err != nil {
				c.Violation("stream/DecodeFrame/error", det(err.Error(), j))
				return
			}
			off += lens[j]
			if cr.n != off {
				c.Violation("stream/DecodeFrame/consumed", det(fmt.Sprintf("consumed %d bytes after frame %d, frames end at %d", cr.n, j, off), j))
				return
			}
			a2, _, err := bridge.FromLib(f2)
			if err != nil || !ref.Equal(want[j], a2) {
				c.Violation("stream/DecodeFrame/frame-differs", det(fmt.Sprintf("%v %s", err, ref.Diff(want[j], a2)), j))
				return
			}
		}
		if _, err := codec.DecodeFrame(cr); err == nil {
			c.Violation("stream/DecodeFrame/frame-after-end", det("a frame was decoded after the last one", k))
			return
		}
		// walk 2: DecodeHeader + DiscardBody ; walk 3: DecodeRawFrame — both must consume exactly the declared length
		for _, mode := range []string{"DiscardBody", "DecodeRawFrame", "DiscardBody-nonseekable", "DecodeRawFrame-chunked", "DecodeFrame-chunked"} {
			var src io.Reader = bytes.NewReader(all)
			if mode == "DiscardBody-nonseekable" {
				src = struct{ io.Reader }{src}
			}
			if mode == "DecodeRawFrame-chunked" || mode == "DecodeFrame-chunked" {
				src = &chunkReader{r: src, n: 1 + r.Intn(9)} // short reads, as a socket delivers them
			}
			cr := &countingReader{r: src}
			off := 0
			for j := 0; j < k; j++ {
				var err error
				if mode == "DecodeRawFrame" || mode == "DecodeRawFrame-chunked" {
					var raw *frame.RawFrame
					if raw, err = codec.DecodeRawFrame(cr); err == nil {
						if f3, err3 := codec.ConvertFromRawFrame(raw); err3 != nil {
							err = err3
						} else if a3, _, err3 := bridge.FromLib(f3); err3 != nil || !ref.Equal(want[j], a3) {
							c.Violation("stream/"+mode+"/frame-differs", det(fmt.Sprintf("%v %s", err3, ref.Diff(want[j], a3)), j))
							return
						}
					}
				} else if mode == "DecodeFrame-chunked" {
					var f3 *frame.Frame
					if f3, err = codec.DecodeFrame(cr); err == nil {
						if a3, _, err3 := bridge.FromLib(f3); err3 != nil || !ref.Equal(want[j], a3) {
							c.Violation("stream/"+mode+"/frame-differs", det(fmt.Sprintf("%v %s", err3, ref.Diff(want[j], a3)), j))
							return
						}
					}
				} else {
					var h *frame.Header
					if h, err = codec.DecodeHeader(cr); err == nil {
						if mode == "DiscardBody" {
							// a seekable source: hand the codec the underlying reader so that Seek is used
							br := bytes.NewReader(all[cr.n:])
							err = codec.DiscardBody(h, br)
							cr.n += len(all[cr.n:]) - br.Len()
							cr.r = bytes.NewReader(all[cr.n:])
						} else {
							err = codec.DiscardBody(h, cr)
						}
					}
				}
				if err != nil {
					c.Violation("stream/"+mode+"/error", det(err.Error(), j))
					return
				}
				off += lens[j]
				if cr.n != off {
					c.Violation("stream/"+mode+"/consumed", det(fmt.Sprintf("consumed %d bytes after frame %d, frames end at %d", cr.n, j, off), j))
					return
				}
			}
		}
		// walk 4: the whole stream sits in a *bytes.Buffer handed to the codec as it is (the source type the
		// compressors special-case); after each frame the buffer must hold exactly the frames not yet read
		{
			bb := bytes.NewBuffer(append(make([]byte, 0, len(all)+8), all...))
			off := 0
			for j := 0; j < k; j++ {
				f4, err := codec.DecodeFrame(bb)
				if err != nil {
					c.Violation("stream/DecodeFrame-bytes.Buffer/error", det(err.Error(), j))
					return
				}
				off += lens[j]
				if len(all)-bb.Len() != off {
					c.Violation("stream/DecodeFrame-bytes.Buffer/consumed", det(fmt.Sprintf("consumed %d bytes after frame %d, frames end at %d", len(all)-bb.Len(), j, off), j))
					return
				}
				if a4, _, err4 := bridge.FromLib(f4); err4 != nil || !ref.Equal(want[j], a4) {
					c.Violation("stream/DecodeFrame-bytes.Buffer/frame-differs", det(fmt.Sprintf("%v %s", err4, ref.Diff(want[j], a4)), j))
					return
				}
			}
		}
		c.Count("streams_ok", 1)
		c.Count("stream_frames", int64(k))
		c.Distinct(fmt.Sprintf("stream|%v|%s|%d", v, comp, k))
	})
}
