// C14 — NULL is preserved and distinguishable in CQL value codecs.
//
// Runtime monitoring of the real datacodec package: the check builds Go sources / destinations with
// reflect for every accepted representation, calls Codec.Encode / Codec.Decode and judges what comes
// back: (a) nil sources encode to a nil []byte without error; (b) a null decodes into every accepted,
// pre-filled destination with wasNull == true, no error and a zeroed destination; (c) nulls at every
// element position of collections / tuples / UDTs are -1 lengths at exactly that position on the wire
// (own wire walker) and come back as nil (or the zero value in non-nillable slots) with all neighbours
// intact; (d) protocol v2 collections refuse null elements.
package main

import (
	"fmt"
	"runtime/debug"
	"sync"

	"verif/internal/mon"

	"github.com/datastax/go-cassandra-native-protocol/primitive"
)

type replayDetail struct {
	Seed  int64  `json:"seed"`
	Tier  string `json:"tier"`
	Phase string `json:"phase"` // scalar | container
	Case  int    `json:"case"`

	Type    string `json:"type,omitempty"`
	Widths  []int  `json:"widths,omitempty"`
	Nulls   string `json:"nulls,omitempty"`
	Version string `json:"version,omitempty"`
	Src     string `json:"src,omitempty"`
	Dst     string `json:"dst,omitempty"`
	Input   string `json:"input,omitempty"`
	Bytes   string `json:"bytes_hex,omitempty"`
	Got     string `json:"got,omitempty"`
	Err     string `json:"err,omitempty"`
	Want    string `json:"want,omitempty"`
}

type harness struct {
	c       *mon.Ctx
	scalars []*scalar
	byName  map[string]*scalar

	mu         sync.Mutex
	brokenLeaf map[string]bool // scalar|GoType whose typed nil does not encode to null (reported once, at scalar level)
}

func main() { mon.Main("C14", run) }

func verName(v primitive.ProtocolVersion) string {
	switch v {
	case primitive.ProtocolVersionDse1:
		return "dse1"
	case primitive.ProtocolVersionDse2:
		return "dse2"
	}
	return fmt.Sprintf("v%d", int(v))
}

func run(c *mon.Ctx) {
	c.Rule = "cases are enumerated, not drawn: (1) scalar phase: every scalar codec (21 CQL scalars + custom) x every nil-able Go " +
		"type of a fixed universe (pointer to every Go type doc.go mentions, nil-able slice types, a few pointer-to-pointer types) " +
		"x versions {2,3,4,5}; a type counts as accepted only if a non-nil value of it encodes (resp. a non-null value decodes into it); " +
		"(2) container phase: case i = one generated container type (list/set/map/tuple/udt over every scalar, nested one level over a " +
		"subset, depth 3 in the thorough tier) at fixed widths; inside a case: null plan (every single value position, all-null, two " +
		"PRNG multi-null plans) x version x every source representation (slice/array/map/struct/tagged struct, slots direct/pointer/" +
		"interface{}/typed-nil-in-interface, alternative leaf Go types) and every decoded byte string x every destination representation, " +
		"fresh and re-used. A case is distinct by (type, clause, source/destination representation, version, null-depth); the seed moves " +
		"sample values and which representations are sampled for nested types. Cases with no null are baselines and not counted as distinct."
	c.Assume("datatype constructors and datacodec.NewCodec return the codec for the requested type (C11 judges values)")
	c.Assume("a Go type is 'accepted' by a codec iff a non-nil value of that type encodes / a non-null value decodes into it without error")
	c.Assume("wire layout of collections/tuples/UDTs as in specs/native_protocol_v2..v5.spec section 6 (own walker, no library code)")
	c.Assume("a null element decoded into a non-nillable slot ([]int32) is documented to become the zero value; only staleness is judged there")

	debug.SetGCPercent(400) // allocation-heavy (reflect), small live heap
	h := &harness{c: c, brokenLeaf: map[string]bool{}}
	var rd *replayDetail
	if c.Replay != "" {
		rd = &replayDetail{}
		if err := c.ReplayDetail(rd); err != nil {
			c.Fatal("replay file: %v", err)
		}
		c.Seed = rd.Seed
		if rd.Tier != "" {
			c.Tier = rd.Tier
		}
	}
	h.scalars = buildScalars()
	h.byName = map[string]*scalar{}
	for _, s := range h.scalars {
		h.byName[s.name] = s
	}

	// the scalar phase always runs: it is cheap and the container phase consults brokenLeaf
	switch {
	case rd == nil:
		h.scalarPhase("", false)
	case rd.Phase == "scalar":
		h.scalarPhase(rd.Type, false)
	default:
		h.scalarPhase("", true)
	}

	cases := h.buildCases()
	c.Set("container_cases", len(cases))
	if rd != nil {
		if rd.Phase == "container" {
			if rd.Case < 0 || rd.Case >= len(cases) {
				c.Fatal("replay: case %d out of range", rd.Case)
			}
			h.runCase(cases[rd.Case], rd.Case)
		}
		return
	}
	mon.Parallel(len(cases), func(i int) { h.runCase(cases[i], i) })

	// a run that did not exercise the property must say so
	for _, k := range []string{"a_scalar_typed_nil", "b_scalar_null_decodes", "c_encodes_with_null", "c_decodes_with_null", "d_v2_null_encodes"} {
		if c.Counter(k) == 0 {
			c.Inconclusive("clause-not-exercised:" + k)
		}
	}
}

// ------------------------------------------------------------------------------------------------
// guarded library calls

func (h *harness) enc(codec encoder, src interface{}, ver primitive.ProtocolVersion) (b []byte, err error, pan string) {
	p, pv := mon.Guard(func() { b, err = codec.Encode(src, ver) })
	if p {
		return nil, nil, "panic: " + pv
	}
	return b, err, ""
}

func (h *harness) dec(codec decoder, b []byte, dest interface{}, ver primitive.ProtocolVersion) (wasNull bool, err error, pan string) {
	p, pv := mon.Guard(func() { wasNull, err = codec.Decode(b, dest, ver) })
	if p {
		return false, nil, "panic: " + pv
	}
	return wasNull, err, ""
}

type encoder interface {
	Encode(source interface{}, version primitive.ProtocolVersion) ([]byte, error)
}
type decoder interface {
	Decode(source []byte, dest interface{}, version primitive.ProtocolVersion) (bool, error)
}

func errStr(err error) string {
	if err == nil {
		return ""
	}
	s := err.Error()
	if len(s) > 300 {
		s = s[:300] + "..."
	}
	return s
}
