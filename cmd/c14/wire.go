package main

import (
	"bytes"
	"encoding/binary"
	"errors"
	"fmt"
)

// wnode is what the check's own wire walker sees in encoded bytes. Written from
// specs/native_protocol_v{2,3}.spec section 6: collections are a count followed by elements, each a
// length-prefixed value; counts and lengths are unsigned [short]s in v2 and [int]s from v3, where a
// negative length is a null; tuples and UDTs are a sequence of [int]-prefixed fields.
type wnode struct {
	null bool
	raw  []byte
	kids []*wnode
	keys [][]byte
}

type wreader struct {
	b  []byte
	v2 bool
}

func (r *wreader) count() (int, error) {
	if r.v2 {
		if len(r.b) < 2 {
			return 0, errors.New("short count")
		}
		n := int(binary.BigEndian.Uint16(r.b))
		r.b = r.b[2:]
		return n, nil
	}
	if len(r.b) < 4 {
		return 0, errors.New("short count")
	}
	n := int(int32(binary.BigEndian.Uint32(r.b)))
	r.b = r.b[4:]
	if n < 0 {
		return 0, errors.New("negative count")
	}
	return n, nil
}

// elem reads one length-prefixed element; short selects the v2 collection element form.
func (r *wreader) elem(short bool) (data []byte, null bool, err error) {
	var n int
	if short {
		if len(r.b) < 2 {
			return nil, false, errors.New("short length")
		}
		n = int(binary.BigEndian.Uint16(r.b))
		r.b = r.b[2:]
	} else {
		if len(r.b) < 4 {
			return nil, false, errors.New("short length")
		}
		n = int(int32(binary.BigEndian.Uint32(r.b)))
		r.b = r.b[4:]
		if n < 0 {
			return nil, true, nil
		}
	}
	if len(r.b) < n {
		return nil, false, errors.New("element overruns value")
	}
	data = r.b[:n]
	r.b = r.b[n:]
	return data, false, nil
}

func walkWire(t *cqlT, b []byte, v2 bool) (*wnode, error) {
	n := &wnode{raw: b}
	if t.kind == "scalar" {
		return n, nil
	}
	r := &wreader{b: b, v2: v2}
	sub := func(kt *cqlT, short bool) (*wnode, error) {
		data, null, err := r.elem(short)
		if err != nil {
			return nil, err
		}
		if null {
			return &wnode{null: true}, nil
		}
		return walkWire(kt, data, v2)
	}
	switch t.kind {
	case "list", "set":
		c, err := r.count()
		if err != nil {
			return nil, err
		}
		for i := 0; i < c; i++ {
			k, err := sub(t.kids[0], v2)
			if err != nil {
				return nil, fmt.Errorf("element %d: %w", i, err)
			}
			n.kids = append(n.kids, k)
		}
	case "map":
		c, err := r.count()
		if err != nil {
			return nil, err
		}
		for i := 0; i < c; i++ {
			kd, knull, err := r.elem(v2)
			if err != nil {
				return nil, fmt.Errorf("key %d: %w", i, err)
			}
			if knull {
				kd = nil
			}
			n.keys = append(n.keys, kd)
			k, err := sub(t.kids[1], v2)
			if err != nil {
				return nil, fmt.Errorf("value %d: %w", i, err)
			}
			n.kids = append(n.kids, k)
		}
	case "tuple", "udt":
		for i := range t.kids {
			k, err := sub(t.kids[i], false)
			if err != nil {
				return nil, fmt.Errorf("field %d: %w", i, err)
			}
			n.kids = append(n.kids, k)
		}
	}
	if len(r.b) != 0 {
		return nil, fmt.Errorf("%d trailing bytes", len(r.b))
	}
	return n, nil
}

// keyWire is the independent encoding of a map key sample (keys are int, bigint or varchar only).
func keyWire(t *cqlT, k int) []byte {
	switch t.sc.name {
	case "int":
		return be(4, uint64(k))
	case "bigint":
		return be(8, uint64(k))
	case "varchar":
		return []byte(keyText(k))
	case "blob":
		return []byte{byte(k), 0xAB, 0x01}
	}
	return nil
}

// cmpWire compares the null shape of the encoded bytes with the abstract value: a null exactly where
// the value has one, present values elsewhere, expected element counts, and (where the check has an
// independent encoding of the sample) the expected bytes in every non-null leaf.
func cmpWire(t *cqlT, v *val, w *wnode, probs *probset) {
	if v.null != w.null {
		if v.null {
			probs.add("wire-null-missing")
		} else {
			probs.add("wire-null-extra")
		}
		return
	}
	if v.null {
		return
	}
	switch t.kind {
	case "scalar":
		if t.sc.wire != nil && !bytes.Equal(t.sc.wire(v.k), w.raw) {
			probs.add("wire-neighbour-bytes")
		}
	case "list", "set", "tuple", "udt":
		if len(w.kids) != len(v.kids) {
			probs.add("wire-count")
			return
		}
		for i := range v.kids {
			cmpWire(t.valueKid(i), v.kids[i], w.kids[i], probs)
		}
	case "map":
		if len(w.kids) != len(v.kids) {
			probs.add("wire-count")
			return
		}
		for i := range v.kids {
			want := keyWire(t.kids[0], v.keys[i].k)
			found := -1
			for j, kb := range w.keys {
				if bytes.Equal(kb, want) {
					found = j
					break
				}
			}
			if found < 0 {
				probs.add("wire-key-missing")
				continue
			}
			cmpWire(t.kids[1], v.kids[i], w.kids[found], probs)
		}
	}
}

// shortUdt re-serialises a walked value (protocol v3+) keeping only the first k fields of every UDT
// node that has more than k fields: a legal "short" UDT value (specs section 6: a UDT value "is
// allowed to have less values than the type has fields"; the missing trailing fields are null).
func shortUdt(t *cqlT, w *wnode, k int) []byte {
	if t.kind == "scalar" {
		return w.raw
	}
	var out []byte
	elem := func(kt *cqlT, kw *wnode) {
		if kw.null {
			out = append(out, 0xff, 0xff, 0xff, 0xff)
			return
		}
		b := shortUdt(kt, kw, k)
		out = append(out, be(4, uint64(len(b)))...)
		out = append(out, b...)
	}
	switch t.kind {
	case "list", "set":
		out = append(out, be(4, uint64(len(w.kids)))...)
		for _, kw := range w.kids {
			elem(t.kids[0], kw)
		}
	case "map":
		out = append(out, be(4, uint64(len(w.kids)))...)
		for i, kw := range w.kids {
			out = append(out, be(4, uint64(len(w.keys[i])))...)
			out = append(out, w.keys[i]...)
			elem(t.kids[1], kw)
		}
	case "tuple":
		for i, kw := range w.kids {
			elem(t.kids[i], kw)
		}
	case "udt":
		n := len(w.kids)
		if n > k {
			n = k
		}
		for i := 0; i < n; i++ {
			elem(t.kids[i], w.kids[i])
		}
	}
	return out
}

// markShort returns v with the fields k.. of every (reachable) UDT node set to null: what a short
// UDT value means.
func markShort(t *cqlT, v *val, k int) *val {
	c := v.clone()
	var rec func(t *cqlT, v *val)
	rec = func(t *cqlT, v *val) {
		if v.null {
			return
		}
		for i := range v.kids {
			if t.kind == "udt" && i >= k {
				v.kids[i].null = true
			}
			rec(t.valueKid(i), v.kids[i])
		}
	}
	rec(t, c)
	return c
}

func maxUdtFields(t *cqlT) int {
	m := 0
	t.walk(func(n *cqlT) {
		if n.kind == "udt" && len(n.kids) > m {
			m = len(n.kids)
		}
	})
	return m
}
