package main

import (
	"encoding/binary"
	"encoding/hex"
	"fmt"
	"math/big"
	"net"
	"reflect"
	"strconv"
	"time"

	"github.com/datastax/go-cassandra-native-protocol/datacodec"
	"github.com/datastax/go-cassandra-native-protocol/datatype"
	"github.com/datastax/go-cassandra-native-protocol/primitive"
)

// family decides how a decoded Go value is normalised for comparison with the sample it came from.
type family int

const (
	famInt family = iota
	famText
	famBytes
	famBool
	famFloat
	famIP
	famUUID
	famDate
	famTime
	famTimestamp
	famDecimal
	famDuration
)

// altRep is an alternative accepted Go type for a scalar and the conversion of sample k into it.
type altRep struct {
	typ  reflect.Type
	conv func(k int) interface{}
}

type scalar struct {
	name        string
	dt          datatype.DataType
	codec       datacodec.Codec
	pref        reflect.Type
	fam         family
	sample      func(k int) interface{} // k >= 1: distinct, non-zero values of the preferred type
	emptyIsNull bool                    // Decode treats a zero-length value as NULL (see each readXxx)
	alts        []altRep
	wire        func(k int) []byte // independent encoding of sample k, nil when not provided
}

var (
	tInt      = reflect.TypeOf(int(0))
	tInt64    = reflect.TypeOf(int64(0))
	tInt32    = reflect.TypeOf(int32(0))
	tInt16    = reflect.TypeOf(int16(0))
	tInt8     = reflect.TypeOf(int8(0))
	tUint     = reflect.TypeOf(uint(0))
	tUint64   = reflect.TypeOf(uint64(0))
	tUint32   = reflect.TypeOf(uint32(0))
	tUint16   = reflect.TypeOf(uint16(0))
	tUint8    = reflect.TypeOf(uint8(0))
	tString   = reflect.TypeOf("")
	tBool     = reflect.TypeOf(false)
	tFloat32  = reflect.TypeOf(float32(0))
	tFloat64  = reflect.TypeOf(float64(0))
	tBigInt   = reflect.TypeOf(big.Int{})
	tBigFloat = reflect.TypeOf(big.Float{})
	tBytes    = reflect.TypeOf([]byte(nil))
	tRunes    = reflect.TypeOf([]rune(nil))
	tIP       = reflect.TypeOf(net.IP(nil))
	tTime     = reflect.TypeOf(time.Time{})
	tDur      = reflect.TypeOf(time.Duration(0))
	tUUID     = reflect.TypeOf(primitive.UUID{})
	tArr16    = reflect.TypeOf([16]byte{})
	tDecimal  = reflect.TypeOf(datacodec.CqlDecimal{})
	tCqlDur   = reflect.TypeOf(datacodec.CqlDuration{})
	tIface    = reflect.TypeOf((*interface{})(nil)).Elem()

	intKinds = []reflect.Type{tInt, tInt64, tInt32, tInt16, tInt8, tUint, tUint64, tUint32, tUint16, tUint8}
)

func intAlts(pref reflect.Type, withString bool) []altRep {
	var out []altRep
	for _, t := range intKinds {
		if t == pref {
			continue
		}
		t := t
		out = append(out, altRep{t, func(k int) interface{} { return reflect.ValueOf(int64(k)).Convert(t).Interface() }})
	}
	if withString {
		out = append(out, altRep{tString, func(k int) interface{} { return strconv.Itoa(k) }})
	}
	return out
}

func be(n int, v uint64) []byte {
	b := make([]byte, 8)
	binary.BigEndian.PutUint64(b, v)
	return b[8-n:]
}

func uuidOf(k int) primitive.UUID {
	var u primitive.UUID
	for i := range u {
		u[i] = byte(0x10 + i)
	}
	u[15] = byte(k)
	u[0] = byte(k)
	return u
}

// textOf: one leaf in seven is the empty string — a value, not a NULL (an empty [bytes] has length 0, a NULL -1).
func textOf(k int) string {
	if k%7 == 3 {
		return ""
	}
	return "s" + strconv.Itoa(k)
}

// keyText is the varchar sample used for map keys: it doubles as a struct field name (map<varchar,V>
// accepts structs, fields matched case-insensitively).
func keyText(k int) string { return "f" + strconv.Itoa(k) }

func buildScalars() []*scalar {
	mk := func(name string, dt datatype.DataType, pref reflect.Type, fam family, empty bool, sample func(int) interface{}) *scalar {
		codec, err := datacodec.NewCodec(dt)
		if err != nil {
			panic(fmt.Sprintf("NewCodec(%s): %v", name, err))
		}
		return &scalar{name: name, dt: dt, codec: codec, pref: pref, fam: fam, sample: sample, emptyIsNull: empty}
	}
	var out []*scalar
	add := func(s *scalar) *scalar { out = append(out, s); return s }

	for _, n := range []struct {
		name string
		dt   datatype.DataType
	}{{"ascii", datatype.Ascii}, {"varchar", datatype.Varchar}} {
		s := add(mk(n.name, n.dt, tString, famText, false, func(k int) interface{} { return textOf(k) }))
		s.alts = []altRep{
			{tBytes, func(k int) interface{} { return []byte(textOf(k)) }},
			{tRunes, func(k int) interface{} { return []rune(textOf(k)) }},
		}
		s.wire = func(k int) []byte { return []byte(textOf(k)) }
	}
	for _, n := range []struct {
		name string
		dt   datatype.DataType
	}{{"bigint", datatype.Bigint}, {"counter", datatype.Counter}} {
		s := add(mk(n.name, n.dt, tInt64, famInt, true, func(k int) interface{} { return int64(k) }))
		s.alts = intAlts(tInt64, true)
		s.wire = func(k int) []byte { return be(8, uint64(k)) }
	}
	blobSample := func(k int) interface{} {
		if k%7 == 3 {
			return []byte{} // empty, not NULL
		}
		return []byte{byte(k), 0xAA, 0x00}
	}
	{
		s := add(mk("blob", datatype.Blob, tBytes, famBytes, false, blobSample))
		s.alts = []altRep{{tString, func(k int) interface{} { return string(blobSample(k).([]byte)) }}}
		s.wire = func(k int) []byte { return blobSample(k).([]byte) }
		s = add(mk("custom", datatype.NewCustom("org.example.Foo"), tBytes, famBytes, false, blobSample))
		s.name = "custom"
		s.wire = func(k int) []byte { return blobSample(k).([]byte) }
	}
	{
		s := add(mk("boolean", datatype.Boolean, tBool, famBool, true, func(k int) interface{} { return k%2 == 1 }))
		s.wire = func(k int) []byte { return []byte{byte(k % 2)} }
	}
	add(mk("date", datatype.Date, tTime, famDate, true, func(k int) interface{} { return time.Unix(int64(k)*86400, 0).UTC() }))
	add(mk("decimal", datatype.Decimal, tDecimal, famDecimal, true, func(k int) interface{} {
		return datacodec.CqlDecimal{Unscaled: big.NewInt(int64(k)), Scale: int32(k)}
	}))
	{
		s := add(mk("double", datatype.Double, tFloat64, famFloat, true, func(k int) interface{} { return float64(k) + 0.5 }))
		s.alts = []altRep{{tFloat32, func(k int) interface{} { return float32(k) + 0.5 }}}
		s = add(mk("float", datatype.Float, tFloat32, famFloat, true, func(k int) interface{} { return float32(k) + 0.5 }))
		s.alts = []altRep{{tFloat64, func(k int) interface{} { return float64(k) + 0.5 }}}
	}
	add(mk("duration", datatype.Duration, tCqlDur, famDuration, true, func(k int) interface{} {
		return datacodec.CqlDuration{Months: int32(k), Days: int32(k + 1), Nanos: time.Duration(k + 2)}
	}))
	{
		s := add(mk("inet", datatype.Inet, tIP, famIP, true, func(k int) interface{} { return net.IP{10, 0, 0, byte(k)} }))
		s.alts = []altRep{{tBytes, func(k int) interface{} { return []byte{10, 0, 0, byte(k)} }}}
		s.wire = func(k int) []byte { return []byte{10, 0, 0, byte(k)} }
	}
	{
		s := add(mk("int", datatype.Int, tInt32, famInt, true, func(k int) interface{} { return int32(k) }))
		s.alts = intAlts(tInt32, true)
		s.wire = func(k int) []byte { return be(4, uint64(k)) }
		s = add(mk("smallint", datatype.Smallint, tInt16, famInt, true, func(k int) interface{} { return int16(k) }))
		s.alts = intAlts(tInt16, true)
		s.wire = func(k int) []byte { return be(2, uint64(k)) }
		s = add(mk("tinyint", datatype.Tinyint, tInt8, famInt, true, func(k int) interface{} { return int8(k) }))
		s.alts = intAlts(tInt8, true)
		s.wire = func(k int) []byte { return be(1, uint64(k)) }
	}
	add(mk("time", datatype.Time, tDur, famTime, true, func(k int) interface{} { return time.Duration(k) * time.Second }))
	add(mk("timestamp", datatype.Timestamp, tTime, famTimestamp, true, func(k int) interface{} { return time.Unix(int64(k), 0).UTC() }))
	for _, n := range []struct {
		name string
		dt   datatype.DataType
	}{{"timeuuid", datatype.Timeuuid}, {"uuid", datatype.Uuid}} {
		s := add(mk(n.name, n.dt, tUUID, famUUID, true, func(k int) interface{} { return uuidOf(k) }))
		s.alts = []altRep{
			{tBytes, func(k int) interface{} { u := uuidOf(k); return u[:] }},
			{tArr16, func(k int) interface{} { return [16]byte(uuidOf(k)) }},
		}
		s.wire = func(k int) []byte { u := uuidOf(k); return u[:] }
	}
	{
		// non-zero positive values below 128 only: varint encoding of zero / high-bit values is
		// defect D5, judged by C11/C12.
		s := add(mk("varint", datatype.Varint, reflect.PtrTo(tBigInt), famInt, true, func(k int) interface{} { return big.NewInt(int64(k)) }))
		s.alts = intAlts(nil, true)
		s.wire = func(k int) []byte { return []byte{byte(k)} }
	}
	return out
}

// norm renders a decoded (or sample) Go value in a representation-independent way. Pointers and
// interfaces have been unwrapped by the caller.
func norm(f family, x interface{}) string {
	switch f {
	case famInt:
		switch v := x.(type) {
		case string:
			return v
		case big.Int:
			return v.String()
		case *big.Int:
			return v.String()
		}
		rv := reflect.ValueOf(x)
		switch rv.Kind() {
		case reflect.Int, reflect.Int64, reflect.Int32, reflect.Int16, reflect.Int8:
			return strconv.FormatInt(rv.Int(), 10)
		case reflect.Uint, reflect.Uint64, reflect.Uint32, reflect.Uint16, reflect.Uint8:
			return strconv.FormatUint(rv.Uint(), 10)
		}
	case famText:
		switch v := x.(type) {
		case string:
			return v
		case []byte:
			return string(v)
		case []rune:
			return string(v)
		}
	case famBytes:
		switch v := x.(type) {
		case string:
			return hex.EncodeToString([]byte(v))
		case []byte:
			return hex.EncodeToString(v)
		}
	case famBool:
		if v, ok := x.(bool); ok {
			return strconv.FormatBool(v)
		}
	case famFloat:
		switch v := x.(type) {
		case float32:
			return strconv.FormatFloat(float64(v), 'g', -1, 64)
		case float64:
			return strconv.FormatFloat(v, 'g', -1, 64)
		}
	case famIP:
		switch v := x.(type) {
		case net.IP:
			return hex.EncodeToString(v.To16())
		case []byte:
			return hex.EncodeToString(net.IP(v).To16())
		}
	case famUUID:
		switch v := x.(type) {
		case primitive.UUID:
			return hex.EncodeToString(v[:])
		case [16]byte:
			return hex.EncodeToString(v[:])
		case []byte:
			return hex.EncodeToString(v)
		}
	case famDate, famTimestamp:
		if v, ok := x.(time.Time); ok {
			return strconv.FormatInt(v.UnixNano(), 10)
		}
	case famTime:
		if v, ok := x.(time.Duration); ok {
			return strconv.FormatInt(int64(v), 10)
		}
	case famDecimal:
		if v, ok := x.(datacodec.CqlDecimal); ok {
			if v.Unscaled == nil {
				return "nil/" + strconv.Itoa(int(v.Scale))
			}
			return v.Unscaled.String() + "/" + strconv.Itoa(int(v.Scale))
		}
	case famDuration:
		if v, ok := x.(datacodec.CqlDuration); ok {
			return fmt.Sprintf("%d/%d/%d", v.Months, v.Days, int64(v.Nanos))
		}
	}
	return fmt.Sprintf("?%T", x)
}

// ------------------------------------------------------------------------------------------------
// universe of Go types tried as nil-able sources / destinations of scalar codecs. Whether a codec
// accepts a type is decided by observation (a non-nil value of that type encodes / a non-null value
// decodes into it), never assumed.

var baseTypes = []reflect.Type{
	tInt, tInt64, tInt32, tInt16, tInt8, tUint, tUint64, tUint32, tUint16, tUint8,
	tString, tBool, tFloat32, tFloat64, tBigInt, tBigFloat, tBytes, tRunes, tIP, tTime, tDur,
	tUUID, tArr16, tDecimal, tCqlDur,
}

// baseCandidates returns non-zero values of type t, at least one of which should be a valid value for
// each codec that accepts t.
func baseCandidates(t reflect.Type) []reflect.Value {
	var xs []interface{}
	switch t {
	case tString:
		xs = []interface{}{"1", "1970-01-02", "00:00:01", "1970-01-01T00:00:01+00:00", "10.0.0.1",
			"00000001-0203-0405-0607-08090a0b0c0d", "a"}
	case tBool:
		xs = []interface{}{true}
	case tFloat32:
		xs = []interface{}{float32(1.5)}
	case tFloat64:
		xs = []interface{}{float64(1.5)}
	case tBigInt:
		xs = []interface{}{*big.NewInt(1)}
	case tBigFloat:
		xs = []interface{}{*big.NewFloat(1.5)}
	case tBytes:
		u := uuidOf(1)
		xs = []interface{}{[]byte{10, 0, 0, 1}, u[:], []byte("a")}
	case tRunes:
		xs = []interface{}{[]rune("a")}
	case tIP:
		xs = []interface{}{net.IP{10, 0, 0, 1}}
	case tTime:
		xs = []interface{}{time.Unix(86400+1, 0).UTC()}
	case tDur:
		xs = []interface{}{time.Second}
	case tUUID:
		xs = []interface{}{uuidOf(1)}
	case tArr16:
		xs = []interface{}{[16]byte(uuidOf(1))}
	case tDecimal:
		xs = []interface{}{datacodec.CqlDecimal{Unscaled: big.NewInt(1), Scale: 1}}
	case tCqlDur:
		xs = []interface{}{datacodec.CqlDuration{Months: 1, Days: 1, Nanos: 1}}
	default:
		for _, it := range intKinds {
			if it == t {
				xs = []interface{}{reflect.ValueOf(int64(1)).Convert(t).Interface()}
			}
		}
	}
	out := make([]reflect.Value, 0, len(xs))
	for _, x := range xs {
		v := reflect.New(t).Elem()
		v.Set(reflect.ValueOf(x))
		out = append(out, v)
	}
	return out
}

// nilableSourceTypes: pointer to every base type, the nil-able base types themselves, and a few
// pointer-to-pointer types (expected not to be accepted; observation decides).
func nilableSourceTypes() []reflect.Type {
	var out []reflect.Type
	for _, t := range baseTypes {
		out = append(out, reflect.PtrTo(t))
	}
	out = append(out, tBytes, tRunes, tIP)
	out = append(out, reflect.PtrTo(reflect.PtrTo(tInt64)), reflect.PtrTo(reflect.PtrTo(tBigInt)), reflect.PtrTo(reflect.PtrTo(tString)))
	return out
}

// candidates returns non-nil values of the nil-able type t.
func candidates(t reflect.Type) []reflect.Value {
	if t.Kind() == reflect.Ptr {
		var out []reflect.Value
		var inner []reflect.Value
		if t.Elem().Kind() == reflect.Ptr {
			inner = candidates(t.Elem())
		} else {
			inner = baseCandidates(t.Elem())
		}
		for _, c := range inner {
			p := reflect.New(t.Elem())
			p.Elem().Set(c)
			out = append(out, p)
		}
		return out
	}
	return baseCandidates(t)
}

// destElemTypes are the T of the *T destinations tried for scalar codecs.
func destElemTypes() []reflect.Type {
	out := append([]reflect.Type{}, baseTypes...)
	out = append(out, tIface, reflect.PtrTo(tInt64), reflect.PtrTo(tBigInt), reflect.PtrTo(tString))
	return out
}

// docNilable lists, per codec, the nil-able source types doc.go names as accepted. Used only to
// report (never to judge) whether observation agrees with the documentation.
func docNilable(name string) []reflect.Type {
	p := reflect.PtrTo
	ints := func() []reflect.Type {
		var o []reflect.Type
		for _, t := range intKinds {
			o = append(o, p(t))
		}
		return o
	}
	switch name {
	case "bigint", "counter":
		return append(ints(), p(tString), p(tBigInt))
	case "int", "smallint", "tinyint":
		return append(ints(), p(tString))
	case "varint":
		return append(ints(), p(tString), p(tBigInt))
	case "blob", "custom":
		return []reflect.Type{tBytes, p(tBytes), p(tString)}
	case "boolean":
		return append(ints(), p(tBool))
	case "date", "timestamp":
		return append(ints(), p(tString), p(tTime))
	case "time":
		return append(ints(), p(tString), p(tTime), p(tDur))
	case "decimal":
		return []reflect.Type{p(tDecimal)}
	case "duration":
		return []reflect.Type{p(tCqlDur)}
	case "double":
		return []reflect.Type{p(tFloat64), p(tFloat32), p(tBigFloat)}
	case "float":
		return []reflect.Type{p(tFloat64), p(tFloat32)}
	case "inet":
		return []reflect.Type{tIP, p(tIP), tBytes, p(tBytes), p(tString)}
	case "uuid", "timeuuid":
		return []reflect.Type{p(tUUID), tBytes, p(tString)}
	case "ascii", "varchar":
		return []reflect.Type{p(tString), tBytes, p(tBytes), tRunes, p(tRunes)}
	}
	return nil
}
