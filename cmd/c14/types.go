package main

import (
	"fmt"
	"strings"

	"github.com/datastax/go-cassandra-native-protocol/datacodec"
	"github.com/datastax/go-cassandra-native-protocol/datatype"
)

// cqlT is the check's own description of a CQL type (scalar or container).
type cqlT struct {
	kind  string // "scalar" "list" "set" "map" "tuple" "udt"
	sc    *scalar
	kids  []*cqlT  // list/set: element; map: key, value; tuple/udt: fields
	names []string // udt field names
	str   string
}

func tScalar(s *scalar) *cqlT { return &cqlT{kind: "scalar", sc: s, str: s.name} }
func tList(e *cqlT) *cqlT     { return &cqlT{kind: "list", kids: []*cqlT{e}, str: "list<" + e.str + ">"} }
func tSet(e *cqlT) *cqlT      { return &cqlT{kind: "set", kids: []*cqlT{e}, str: "set<" + e.str + ">"} }
func tMap(k, v *cqlT) *cqlT {
	return &cqlT{kind: "map", kids: []*cqlT{k, v}, str: "map<" + k.str + "," + v.str + ">"}
}
func tTuple(fs ...*cqlT) *cqlT {
	ss := make([]string, len(fs))
	for i, f := range fs {
		ss[i] = f.str
	}
	return &cqlT{kind: "tuple", kids: fs, str: "tuple<" + strings.Join(ss, ",") + ">"}
}
func tUdt(fs ...*cqlT) *cqlT {
	ss := make([]string, len(fs))
	names := make([]string, len(fs))
	for i, f := range fs {
		ss[i] = f.str
		names[i] = fmt.Sprintf("f%d", i)
	}
	return &cqlT{kind: "udt", kids: fs, names: names, str: "udt<" + strings.Join(ss, ",") + ">"}
}

func (t *cqlT) isContainer() bool { return t.kind != "scalar" }

// valueKids returns the child types that occupy value positions (everything but map keys).
func (t *cqlT) valueKid(i int) *cqlT {
	switch t.kind {
	case "list", "set":
		return t.kids[0]
	case "map":
		return t.kids[1]
	}
	return t.kids[i]
}

func (t *cqlT) dataType() datatype.DataType {
	switch t.kind {
	case "scalar":
		return t.sc.dt
	case "list":
		return datatype.NewList(t.kids[0].dataType())
	case "set":
		return datatype.NewSet(t.kids[0].dataType())
	case "map":
		return datatype.NewMap(t.kids[0].dataType(), t.kids[1].dataType())
	case "tuple":
		fs := make([]datatype.DataType, len(t.kids))
		for i, k := range t.kids {
			fs[i] = k.dataType()
		}
		return datatype.NewTuple(fs...)
	case "udt":
		fs := make([]datatype.DataType, len(t.kids))
		for i, k := range t.kids {
			fs[i] = k.dataType()
		}
		u, err := datatype.NewUserDefined("ks", "u", t.names, fs)
		if err != nil {
			panic(err)
		}
		return u
	}
	panic("bad kind")
}

func (t *cqlT) codec() (datacodec.Codec, error) { return datacodec.NewCodec(t.dataType()) }

// depth: scalar 0, list<scalar> 1, ...
func (t *cqlT) depth() int {
	if t.kind == "scalar" {
		return 0
	}
	d := 0
	for i, k := range t.kids {
		if t.kind == "map" && i == 0 {
			continue
		}
		if kd := k.depth(); kd > d {
			d = kd
		}
	}
	return d + 1
}

// v2ok: protocol v2 knows lists, sets and maps only.
func (t *cqlT) v2ok() bool {
	switch t.kind {
	case "scalar":
		n := t.sc.name
		// types that exist in v2 (date/time/smallint/tinyint/duration were added later)
		return n != "date" && n != "time" && n != "smallint" && n != "tinyint" && n != "duration"
	case "list", "set", "map":
		for _, k := range t.kids {
			if !k.v2ok() {
				return false
			}
		}
		return true
	}
	return false
}

func (t *cqlT) walk(f func(*cqlT)) {
	f(t)
	for _, k := range t.kids {
		k.walk(f)
	}
}

// ------------------------------------------------------------------------------------------------
// abstract values

type val struct {
	null bool
	k    int    // scalar: sample index
	kids []*val // list/set elements, map values, tuple/udt fields (kept even when null: they fix the shape)
	keys []*val // map keys (never null)
}

// mkVal builds a fully non-null value of type t; widths[d] is the number of elements of a
// list/set/map at depth d. Every leaf gets a fresh sample index.
func mkVal(t *cqlT, widths []int, depth int, next *int) *val {
	v := &val{}
	switch t.kind {
	case "scalar":
		*next++
		v.k = *next
	case "list", "set":
		w := widths[min(depth, len(widths)-1)]
		for i := 0; i < w; i++ {
			v.kids = append(v.kids, mkVal(t.kids[0], widths, depth+1, next))
		}
	case "map":
		w := widths[min(depth, len(widths)-1)]
		for i := 0; i < w; i++ {
			v.keys = append(v.keys, mkVal(t.kids[0], widths, depth+1, next))
			v.kids = append(v.kids, mkVal(t.kids[1], widths, depth+1, next))
		}
	case "tuple", "udt":
		for _, k := range t.kids {
			v.kids = append(v.kids, mkVal(k, widths, depth+1, next))
		}
	}
	return v
}

func (v *val) clone() *val {
	c := &val{null: v.null, k: v.k}
	for _, k := range v.kids {
		c.kids = append(c.kids, k.clone())
	}
	for _, k := range v.keys {
		c.keys = append(c.keys, k.clone())
	}
	return c
}

// paths enumerates every value position below the root (not the root itself, not map keys).
func (v *val) paths(prefix []int, out *[][]int) {
	for i, k := range v.kids {
		p := append(append([]int{}, prefix...), i)
		*out = append(*out, p)
		k.paths(p, out)
	}
}

func (v *val) at(path []int) *val {
	n := v
	for _, i := range path {
		n = n.kids[i]
	}
	return n
}

func (v *val) withNulls(paths ...[]int) *val {
	c := v.clone()
	for _, p := range paths {
		c.at(p).null = true
	}
	return c
}

// hasNullBelow reports whether some position below (not at) v is null and reachable (i.e. not
// hidden under a null ancestor).
func (v *val) hasNull() bool {
	for _, k := range v.kids {
		if k.null || k.hasNull() {
			return true
		}
	}
	return false
}

func pathStr(p []int) string {
	ss := make([]string, len(p))
	for i, x := range p {
		ss[i] = fmt.Sprint(x)
	}
	return strings.Join(ss, ".")
}
