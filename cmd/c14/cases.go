package main

import (
	"encoding/hex"
	"fmt"
	"hash/fnv"
	"reflect"
	"strings"

	"verif/internal/mon"

	"github.com/datastax/go-cassandra-native-protocol/datacodec"
	"github.com/datastax/go-cassandra-native-protocol/primitive"
)

type kase struct {
	t      *cqlT
	widths []int
}

func (h *harness) sc(name string) *cqlT { return tScalar(h.byName[name]) }

// fieldsOf: w field types starting with e, alternating with other scalars (heterogeneous).
func (h *harness) fieldsOf(e *cqlT, w int, hetero bool) []*cqlT {
	others := []string{"varchar", "int", "", "bigint", ""}
	fs := make([]*cqlT, w)
	for i := range fs {
		fs[i] = e
		if hetero && i > 0 {
			if o := others[(i-1)%len(others)]; o != "" {
				fs[i] = h.sc(o)
			}
		}
	}
	return fs
}

func (h *harness) buildCases() []*kase {
	c := h.c
	var out []*kase
	maxW := c.Pick(4, 6)
	add := func(t *cqlT, widths ...int) { out = append(out, &kase{t: t, widths: widths}) }

	keyNames := []string{"int", "varchar"}
	if c.Thorough() {
		keyNames = append(keyNames, "bigint")
	}
	// depth 1: every scalar as element
	for _, s := range h.scalars {
		e := tScalar(s)
		for w := 1; w <= maxW; w++ {
			add(tList(e), w)
			add(tSet(e), w)
			for _, k := range keyNames {
				add(tMap(h.sc(k), e), w)
			}
			add(tTuple(h.fieldsOf(e, w, true)...), w)
			add(tUdt(h.fieldsOf(e, w, true)...), w)
			if w >= 2 && w <= 3 {
				add(tTuple(h.fieldsOf(e, w, false)...), w)
				add(tUdt(h.fieldsOf(e, w, false)...), w)
			}
		}
	}
	// depth 2: nested one level
	sub := []string{"int", "varchar", "blob", "varint", "uuid", "boolean"}
	if c.Thorough() {
		sub = nil
		for _, s := range h.scalars {
			sub = append(sub, s.name)
		}
	}
	maxW2 := 3
	inners := func(e *cqlT, w int) []*cqlT {
		return []*cqlT{
			tList(e), tSet(e), tMap(h.sc("int"), e), tMap(h.sc("varchar"), e),
			tTuple(h.fieldsOf(e, w, true)...), tUdt(h.fieldsOf(e, w, true)...),
			// a key type without a comparable preferred Go type: such a map has no untyped destination of its
			// own, but a NULL one is still a legitimate field / element of an enclosing tuple, udt or list
			tMap(h.sc("blob"), e),
		}
	}
	outers := func(x *cqlT, w int) []*cqlT {
		alt := func() []*cqlT {
			fs := make([]*cqlT, w)
			for i := range fs {
				fs[i] = x
				if i%2 == 1 {
					fs[i] = h.sc("int")
				}
			}
			return fs
		}
		return []*cqlT{
			tList(x), tSet(x), tMap(h.sc("int"), x), tMap(h.sc("varchar"), x), tTuple(alt()...), tUdt(alt()...),
		}
	}
	for _, en := range sub {
		e := h.sc(en)
		for w2 := 1; w2 <= c.Pick(2, maxW2); w2++ {
			for _, in := range inners(e, w2) {
				for w1 := 1; w1 <= maxW2; w1++ {
					for _, o := range outers(in, w1) {
						add(o, w1, w2)
					}
				}
			}
		}
	}
	// depth 3 (thorough): PRNG-chosen shapes, a pure function of (seed, index)
	if c.Thorough() {
		n := 2000
		for i := 0; i < n; i++ {
			r := mon.NewRand(c.Seed, uint64(1_000_000+i))
			e := tScalar(h.scalars[r.Intn(len(h.scalars))])
			w3, w2, w1 := 1+r.Intn(2), 1+r.Intn(2), 1+r.Intn(3)
			l3 := inners(e, w3)[r.Intn(7)]
			l2 := outers(l3, w2)[r.Intn(6)]
			l1 := outers(l2, w1)[r.Intn(6)]
			add(l1, w1, w2, w3)
		}
	}
	return out
}

// ------------------------------------------------------------------------------------------------
// representation enumeration

type shapeInfo struct {
	hasList, hasMap, mapAllText, hasTuple, hasUdt bool
	depth, maxAlts                                int
}

func analyse(t *cqlT) shapeInfo {
	si := shapeInfo{mapAllText: true, depth: t.depth()}
	var rec func(n *cqlT, isKey bool)
	rec = func(n *cqlT, isKey bool) {
		switch n.kind {
		case "scalar":
			if !isKey && len(n.sc.alts) > si.maxAlts {
				si.maxAlts = len(n.sc.alts)
			}
		case "list", "set":
			si.hasList = true
			rec(n.kids[0], false)
		case "map":
			si.hasMap = true
			if n.kids[0].sc.fam != famText {
				si.mapAllText = false
			}
			rec(n.kids[1], false)
		case "tuple":
			si.hasTuple = true
			for _, k := range n.kids {
				rec(k, false)
			}
		case "udt":
			si.hasUdt = true
			for _, k := range n.kids {
				rec(k, false)
			}
		}
	}
	rec(t, false)
	return si
}

func enumSpecs(t *cqlT, asDest bool) []spec {
	si := analyse(t)
	one := []string{""}
	lists, maps, tuples, udts, inners := one, one, one, one, one
	if si.hasList {
		lists = []string{"slice", "array"}
	}
	if si.hasMap {
		maps = []string{"map"}
		if si.mapAllText {
			maps = append(maps, "struct")
		}
	}
	if si.hasTuple {
		tuples = []string{"slice", "array", "struct"}
	}
	if si.hasUdt {
		udts = []string{"map", "struct", "tagstruct", "slice", "array"}
		if !asDest {
			udts = append(udts, "mapmissing")
		}
	}
	tops := []string{"direct", "ptr"}
	leaves := []string{"ptr", "direct", "iface", "ifaceptr"}
	if si.depth >= 2 {
		inners = []string{"direct", "ptr", "iface", "ifaceptr"}
	}
	if asDest {
		tops = []string{"direct"}
		leaves = []string{"ptr", "direct", "iface"}
		if si.depth >= 2 {
			inners = []string{"direct", "ptr", "iface"}
		}
	}
	var out []spec
	for _, l := range lists {
		for _, m := range maps {
			for _, tu := range tuples {
				for _, u := range udts {
					for _, top := range tops {
						for _, in := range inners {
							for _, lf := range leaves {
								out = append(out, spec{list: l, mp: m, tuple: tu, udt: u, top: top, inner: in, leaf: lf})
							}
						}
					}
					// alternative leaf Go types: only with plain wrappings
					for a := 1; a <= si.maxAlts; a++ {
						for _, lf := range []string{"ptr", "direct"} {
							out = append(out, spec{list: l, mp: m, tuple: tu, udt: u, top: "direct", inner: inners[0], leaf: lf, alt: a})
						}
					}
				}
			}
		}
	}
	if asDest {
		out = append(out, spec{top: "iface"})
	}
	return out
}

// sampleSpecs keeps the first (canonical) spec and a PRNG selection of the others.
func sampleSpecs(all []spec, budget int, r *mon.Rand) []spec {
	if len(all) <= budget {
		return all
	}
	out := []spec{all[0]}
	rest := append([]spec{}, all[1:]...)
	for len(out) < budget && len(rest) > 0 {
		i := r.Intn(len(rest))
		out = append(out, rest[i])
		rest[i] = rest[len(rest)-1]
		rest = rest[:len(rest)-1]
	}
	return out
}

// nullLeafBroken: does this source hold a null leaf through a typed nil that the scalar phase already
// reported as not encoding to null? (reported once there, not again per container)
func (h *harness) nullLeafBroken(s spec, t *cqlT, v *val) bool {
	if v.null {
		if t.kind != "scalar" {
			return false
		}
		b, _ := s.leafBase(t.sc)
		var nt reflect.Type
		switch s.leaf {
		case "direct":
			nt = b
		case "ptr", "ifaceptr":
			nt = b
			if b.Kind() != reflect.Ptr {
				nt = reflect.PtrTo(b)
			}
		default:
			return false
		}
		return h.brokenLeaf[t.sc.name+"|"+nt.String()]
	}
	for i := range v.kids {
		if h.nullLeafBroken(s, t.valueKid(i), v.kids[i]) {
			return true
		}
	}
	return false
}

// ------------------------------------------------------------------------------------------------

type plan struct {
	name  string
	depth int // depth of the deepest null (0 = baseline)
	v     *val
}

type local struct {
	evals    int
	counters map[string]int64
	distinct map[uint64]struct{}
}

func (l *local) count(k string, n int64) { l.counters[k] += n }
func (l *local) sig(parts ...string) {
	hsh := fnv.New64a()
	for _, p := range parts {
		hsh.Write([]byte(p))
		hsh.Write([]byte{0})
	}
	l.distinct[hsh.Sum64()] = struct{}{}
}

func (h *harness) runCase(k *kase, index int) {
	c := h.c
	t := k.t
	lc := &local{counters: map[string]int64{}, distinct: map[uint64]struct{}{}}
	defer func() {
		c.Eval(lc.evals)
		for n, v := range lc.counters {
			if strings.HasPrefix(n, "max_") {
				c.Max(n, v)
			} else {
				c.Count(n, v)
			}
		}
		for d := range lc.distinct {
			c.DistinctHash(d)
		}
	}()
	r := mon.NewRand(c.Seed, uint64(index))
	codec, err := t.codec()
	if err != nil {
		c.Inconclusive("no-codec:" + t.str)
		return
	}
	_, perr := datacodec.PreferredGoType(t.dataType())
	untypedOK := perr == nil
	if !untypedOK {
		lc.count("c_untyped_skipped_no_preferred_type", 1)
	}
	next := r.Intn(12)
	full := mkVal(t, k.widths, 0, &next)
	if next > 120 {
		c.Inconclusive("case-too-wide")
		return
	}
	lc.counters["max_depth"] = int64(t.depth())
	for _, w := range k.widths {
		if int64(w) > lc.counters["max_width"] {
			lc.counters["max_width"] = int64(w)
		}
	}
	if len(full.kids) > int(lc.counters["max_width"]) {
		lc.counters["max_width"] = int64(len(full.kids))
	}

	// plans
	var paths [][]int
	full.paths(nil, &paths)
	plans := []plan{}
	for _, p := range paths {
		plans = append(plans, plan{name: pathStr(p), depth: len(p), v: full.withNulls(p)})
	}
	{
		var tops [][]int
		for i := range full.kids {
			tops = append(tops, []int{i})
		}
		if len(tops) > 1 {
			plans = append(plans, plan{name: "all", depth: 1, v: full.withNulls(tops...)})
		}
		for j := 0; j < 2 && len(paths) > 2; j++ {
			n := 2 + r.Intn(2)
			var ps [][]int
			var names []string
			maxd := 0
			for x := 0; x < n; x++ {
				p := paths[r.Intn(len(paths))]
				ps = append(ps, p)
				names = append(names, pathStr(p))
				if len(p) > maxd {
					maxd = len(p)
				}
			}
			plans = append(plans, plan{name: strings.Join(names, "+"), depth: maxd, v: full.withNulls(ps...)})
		}
	}

	// representations
	srcAll, dstAll := enumSpecs(t, false), enumSpecs(t, true)
	srcBudget, dstBudget := c.Pick(24, 64), c.Pick(16, 40)
	if t.depth() == 1 {
		srcBudget, dstBudget = 1<<30, 1<<30 // exhaustive
	}
	srcSpecs := sampleSpecs(srcAll, srcBudget, r)
	dstSpecs := sampleSpecs(dstAll, dstBudget, r)
	srcLabels := make([]string, len(srcSpecs))
	srcT := make([]*tnode, len(srcSpecs))
	for i, s := range srcSpecs {
		srcT[i] = s.types(t, full, s.top)
		srcLabels[i] = s.label(t, srcT[i], false)
	}
	dstLabels := make([]string, len(dstSpecs))
	dstT := make([]*tnode, len(dstSpecs))
	for i, s := range dstSpecs {
		dstT[i] = s.types(t, full, "direct")
		dstLabels[i] = s.label(t, dstT[i], true)
	}

	versions := []primitive.ProtocolVersion{primitive.ProtocolVersion3, primitive.ProtocolVersion4, primitive.ProtocolVersion5}
	if c.Thorough() {
		versions = append(versions, primitive.ProtocolVersionDse1, primitive.ProtocolVersionDse2)
	}
	if t.v2ok() {
		versions = append([]primitive.ProtocolVersion{primitive.ProtocolVersion2}, versions...)
	}

	nonV2 := []primitive.ProtocolVersion{primitive.ProtocolVersion3, primitive.ProtocolVersion4, primitive.ProtocolVersion5}
	fullDecodeVer := nonV2[index%len(nonV2)]
	if t.v2ok() && index%4 == 3 {
		fullDecodeVer = primitive.ProtocolVersion2
	}
	mkDetail := func(ver primitive.ProtocolVersion, p *plan) replayDetail {
		d := replayDetail{Seed: c.Seed, Tier: c.Tier, Phase: "container", Case: index, Type: t.str, Widths: k.widths, Version: verName(ver)}
		if p != nil {
			d.Nulls = p.name
		}
		return d
	}
	viol := func(clause, rep, what string, d replayDetail) {
		c.Violation(fmt.Sprintf("%s/%s/%s/%s", t.str, clause, rep, what), d)
	}

	for _, ver := range versions {
		v2 := ver == primitive.ProtocolVersion2
		vn := verName(ver)
		// codecs do not look at the version beyond "v2 or not": the thorough tier runs the whole
		// destination table for every version, the quick tier for one version per case (rotating)
		fullVer := c.Thorough() || ver == fullDecodeVer

		// ---- baseline: which representations does the codec accept (a full, non-null value goes through)?
		var fullBytes []byte
		srcOK := make([]bool, len(srcSpecs))
		for i, s := range srcSpecs {
			src, ok := s.source(t, full, srcT[i])
			if !ok {
				continue
			}
			b, err, pan := h.enc(codec, src, ver)
			if err != nil || pan != "" || b == nil {
				lc.count("src_rep_not_accepted", 1)
				continue
			}
			if w, werr := walkWire(t, b, v2); werr != nil {
				lc.count("baseline_wire_unreadable", 1)
				continue
			} else {
				var ps probset
				probs := &ps
				cmpWire(t, full, w, probs)
				if len(*probs) > 0 {
					lc.count("baseline_wire_differs", 1)
					continue
				}
			}
			srcOK[i] = true
			if fullBytes == nil {
				fullBytes = b
			}
		}
		if fullBytes == nil {
			c.Inconclusive("no-accepted-source-representation:" + t.kind)
			continue
		}
		dstOK := make([]bool, len(dstSpecs))
		for i, s := range dstSpecs {
			d := s.dest(dstT[i])
			wasNull, err, pan := h.dec(codec, fullBytes, d.Interface(), ver)
			if err != nil || pan != "" || wasNull {
				lc.count("dst_rep_not_accepted", 1)
				continue
			}
			var ps probset
			probs := &ps
			cmpValue(t, full, d.Elem(), false, false, probs)
			if len(*probs) > 0 {
				lc.count("baseline_roundtrip_differs", 1) // C11's business
				continue
			}
			dstOK[i] = true
		}

		// ---- clause (a): nil sources of the container codec
		{
			b, err, pan := h.enc(codec, nil, ver)
			lc.evals++
			lc.count("a_container_nil", 1)
			lc.sig("a", t.str, "nil", vn)
			if what := judgeNilEncode(b, err, pan); what != "" {
				d := mkDetail(ver, nil)
				d.Src, d.Input, d.Bytes, d.Err = "nil", "untyped nil", hex.EncodeToString(b), errStr(err)+pan
				viol("a", "nil", what, d)
			}
			seen := map[reflect.Type]bool{}
			for i := range srcSpecs {
				if !srcOK[i] {
					continue
				}
				T := srcT[i].slot
				if seen[T] || !(T.Kind() == reflect.Ptr || T.Kind() == reflect.Slice || T.Kind() == reflect.Map) {
					continue
				}
				seen[T] = true
				b, err, pan := h.enc(codec, reflect.Zero(T).Interface(), ver)
				lc.evals++
				lc.count("a_container_typed_nil", 1)
				lc.sig("a", t.str, typeLabel(T), vn)
				if what := judgeNilEncode(b, err, pan); what != "" {
					d := mkDetail(ver, nil)
					d.Src, d.Input, d.Bytes, d.Err = typeLabel(T), "typed nil", hex.EncodeToString(b), errStr(err)+pan
					viol("a", typeLabel(T), what, d)
				}
			}
		}

		// ---- clause (b): a null value into every accepted destination of the container codec
		for i, s := range dstSpecs {
			if !dstOK[i] {
				continue
			}
			for _, in := range []struct {
				name string
				b    []byte
			}{{"nil-input", nil}, {"empty-input", []byte{}}} {
				for _, prefilled := range []bool{true, false} {
					if !fullVer && !(prefilled && in.b == nil) {
						continue // quick tier: the whole table for one version per case, the stale-destination/nil-input row for the others
					}
					d := s.dest(dstT[i])
					if prefilled {
						h.dec(codec, fullBytes, d.Interface(), ver)
					}
					wasNull, err, pan := h.dec(codec, in.b, d.Interface(), ver)
					lc.evals++
					lc.count("b_container_null_decodes", 1)
					lc.sig("b", t.str, dstLabels[i], in.name, fmt.Sprint(prefilled))
					if what := judgeNullDecode(wasNull, err, pan, d); what != "" {
						dd := mkDetail(ver, nil)
						dd.Dst, dd.Input, dd.Err = dstLabels[i], in.name, errStr(err)+pan
						dd.Got = fmt.Sprintf("wasNull=%v dest=%s", wasNull, safeFmt(d.Elem()))
						viol("b", dstLabels[i], in.name+":"+what, dd)
					}
				}
			}
		}

		// ---- clauses (c) and (d): nulls inside
		for pi := range plans {
			p := &plans[pi]
			var encodings [][]byte
			for i, s := range srcSpecs {
				if !srcOK[i] {
					continue
				}
				if h.nullLeafBroken(s, t, p.v) {
					lc.count("c_skipped_leaf_nil_reported_at_scalar_level", 1)
					continue
				}
				src, ok := s.source(t, p.v, srcT[i])
				if !ok {
					lc.count("c_source_rep_cannot_hold_null", 1)
					continue
				}
				b, err, pan := h.enc(codec, src, ver)
				lc.evals++
				if v2 {
					// (d) v2 collections cannot express a null element: the encoder must refuse
					lc.count("d_v2_null_encodes", 1)
					lc.sig("d", t.str, srcLabels[i], fmt.Sprint(p.depth))
					if pan != "" {
						d := mkDetail(ver, p)
						d.Src, d.Err = srcLabels[i], pan
						viol("d", srcLabels[i], "panic", d)
					} else if err == nil {
						d := mkDetail(ver, p)
						d.Src, d.Bytes, d.Want = srcLabels[i], hex.EncodeToString(b), "an error: protocol v2 collections cannot hold null elements"
						viol("d", srcLabels[i], "v2-null-accepted", d)
					}
					continue
				}
				lc.count("c_encodes_with_null", 1)
				lc.sig("c-enc", t.str, srcLabels[i], fmt.Sprint(p.depth))
				what := ""
				switch {
				case pan != "":
					what = "panic"
				case err != nil:
					what = "encode-error"
				case b == nil:
					what = "encoded-as-null"
				default:
					w, werr := walkWire(t, b, false)
					if werr != nil {
						what = "wire-unreadable"
						err = werr
					} else {
						var ps probset
						probs := &ps
						cmpWire(t, p.v, w, probs)
						what = classify(*probs, "wire-")
					}
				}
				if what != "" {
					d := mkDetail(ver, p)
					d.Src, d.Bytes, d.Err = srcLabels[i], hex.EncodeToString(b), errStr(err)+pan
					d.Want = "a [bytes] of length -1 exactly at the null position(s) " + p.name
					viol("c", srcLabels[i], what, d)
					continue
				}
				dup := false
				for _, e := range encodings {
					if string(e) == string(b) {
						dup = true
					}
				}
				if !dup && len(encodings) < 2 {
					encodings = append(encodings, b)
				}
			}
			if v2 {
				continue
			}
			for _, b := range encodings {
				// untyped destination: the library picks every slot type (PreferredGoType); the null must
				// still be a nil there and must be a -1 length again when the untyped result is re-encoded
				if untypedOK && untypedFeasible(t, p.v) {
					d := reflect.New(tIface)
					wasNull, err, pan := h.dec(codec, b, d.Interface(), ver)
					lc.evals++
					lc.count("c_untyped_decodes_with_null", 1)
					lc.sig("c-untyped", t.str, fmt.Sprint(p.depth))
					what := ""
					var re []byte
					switch {
					case pan != "":
						what = "panic"
					case err != nil:
						what = "decode-error"
					case wasNull:
						what = "wasNull-true"
					default:
						var ps probset
						cmpValue(t, p.v, d.Elem(), false, true, &ps)
						what = classify(ps, "")
					}
					if what == "" {
						var rerr error
						var rpan string
						re, rerr, rpan = h.enc(codec, d.Elem().Interface(), ver)
						lc.evals++
						lc.count("c_untyped_reencodes", 1)
						switch {
						case rpan != "":
							what, pan = "reencode-panic", rpan
						case rerr != nil:
							what, err = "reencode-error", rerr
						case re == nil:
							what = "reencode-as-null"
						default:
							if w, werr := walkWire(t, re, false); werr != nil {
								what, err = "reencode-wire-unreadable", werr
							} else {
								var ps probset
								cmpWire(t, p.v, w, &ps)
								if cl := classify(ps, "wire-"); cl != "" {
									what = "reencode-" + cl
								}
							}
						}
					}
					if what != "" {
						dd := mkDetail(ver, p)
						dd.Dst, dd.Bytes, dd.Err = "*interface{}", hex.EncodeToString(b), errStr(err)+pan
						dd.Got = safeFmt(d.Elem())
						if re != nil {
							dd.Input = "re-encoded: " + hex.EncodeToString(re)
						}
						dd.Want = "nil at the null position(s) " + p.name + " of the untyped result, and a -1 length there when it is re-encoded"
						viol("c", "untyped", what, dd)
					}
				}
				first := true
				for i, s := range dstSpecs {
					if !dstOK[i] {
						continue
					}
					canonical := first
					first = false
					for _, reused := range []bool{false, true} {
						if !fullVer && !(canonical && !reused) {
							continue // quick tier: every destination for one version per case, the canonical one for the others
						}
						d := s.dest(dstT[i])
						if reused {
							h.dec(codec, fullBytes, d.Interface(), ver)
						}
						wasNull, err, pan := h.dec(codec, b, d.Interface(), ver)
						lc.evals++
						lc.count("c_decodes_with_null", 1)
						lc.sig("c-dec", t.str, dstLabels[i], fmt.Sprint(p.depth))
						what := ""
						switch {
						case pan != "":
							what = "panic"
						case err != nil:
							what = "decode-error"
						case wasNull:
							what = "wasNull-true"
						default:
							var ps probset
							probs := &ps
							cmpValue(t, p.v, d.Elem(), false, dstSpecs[i].top == "iface", probs)
							what = classify(*probs, "")
						}
						if what != "" {
							dd := mkDetail(ver, p)
							dd.Dst, dd.Bytes, dd.Err = dstLabels[i], hex.EncodeToString(b), errStr(err)+pan
							dd.Got = safeFmt(d.Elem())
							dd.Input = fmt.Sprintf("reused-destination=%v", reused)
							viol("c", dstLabels[i], what, dd)
						} else if p.name != "" && len(b) < 200 && (lc.evals%4001 == 0 || lc.evals < 3) && c.WantSample() {
							c.Sample(map[string]interface{}{"type": t.str, "nulls": p.name, "version": vn,
								"bytes_hex": hex.EncodeToString(b), "dest": dstLabels[i], "decoded": safeFmt(d.Elem())})
						}
					}
				}
			}
		}

		// ---- clause (b)/(c): short UDT values. A UDT value may legally stop after k < n fields; the
		// missing trailing fields are nulls and must come out exactly as explicit nulls do: nil in
		// nillable slots, zero otherwise (also in a destination that held something before), map
		// keys present with a nil value.
		if nf := maxUdtFields(t); nf >= 2 && !v2 && fullVer {
			fw, werr := walkWire(t, fullBytes, false)
			if werr != nil {
				c.Inconclusive("short-udt-baseline-unreadable")
				continue
			}
			for k := 1; k < nf; k++ {
				short := shortUdt(t, fw, k)
				want := markShort(t, full, k)
				judge := func(label string, d reflect.Value, prefilled, strict bool) {
					if prefilled {
						h.dec(codec, fullBytes, d.Interface(), ver)
					}
					wasNull, err, pan := h.dec(codec, short, d.Interface(), ver)
					lc.evals++
					lc.count("c_short_udt_decodes", 1)
					lc.sig("c-short", t.str, label, fmt.Sprint(prefilled))
					what := ""
					switch {
					case pan != "":
						what = "short-value-panic"
					case err != nil:
						what = "short-value-decode-error"
					case wasNull:
						what = "short-value-wasNull-true"
					default:
						var ps probset
						cmpValue(t, want, d.Elem(), false, strict, &ps)
						if ps["null-lost"] || ps["null-slot-not-zero"] || ps["null-key-absent"] {
							what = "short-value-missing-field-not-null"
						} else if cl := classify(ps, ""); cl != "" {
							what = "short-value-" + cl
						}
					}
					if what != "" {
						dd := mkDetail(ver, nil)
						dd.Dst, dd.Bytes, dd.Err = label, hex.EncodeToString(short), errStr(err)+pan
						dd.Got = safeFmt(d.Elem())
						dd.Input = fmt.Sprintf("UDT value cut after %d field(s); prefilled-destination=%v", k, prefilled)
						dd.Want = "the omitted trailing fields decoded as explicit nulls would be"
						viol("c", label, what, dd)
					}
				}
				for i, s := range dstSpecs {
					if !dstOK[i] {
						continue
					}
					for _, prefilled := range []bool{false, true} {
						judge(dstLabels[i], s.dest(dstT[i]), prefilled, s.top == "iface")
					}
				}
				if untypedOK && untypedFeasible(t, want) {
					judge("untyped", reflect.New(tIface), false, true)
				}
			}
		}
	}
}

// untypedFeasible: can this value be decoded into an untyped destination at all? A map whose key type has no
// comparable preferred Go type (blob keys) has no untyped form, so every such map in the value must be NULL —
// a NULL needs no Go type, and must stay a nil in the enclosing tuple / udt / collection.
func untypedFeasible(t *cqlT, v *val) bool {
	if v == nil || v.null {
		return true
	}
	if t.kind == "map" && t.kids[0].kind == "scalar" && t.kids[0].sc.fam == famBytes {
		return false
	}
	if t.kind == "list" || t.kind == "set" || t.kind == "map" {
		// a non-null collection needs the Go type of its elements, whatever they hold: no blob-keyed map may
		// occur anywhere below it (tuples and udts are []interface{} / map[string]interface{} whatever they hold)
		bad := false
		t.walk(func(n *cqlT) {
			if n != t && n.kind == "map" && n.kids[0].kind == "scalar" && n.kids[0].sc.fam == famBytes {
				bad = true
			}
		})
		if bad {
			return false
		}
	}
	for i := range v.kids {
		if !untypedFeasible(t.valueKid(i), v.kids[i]) {
			return false
		}
	}
	return true
}
