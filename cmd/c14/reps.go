package main

import (
	"fmt"
	"reflect"
	"strings"
)

// spec selects one Go representation of a CQL value: which Go container stands for each CQL
// container kind, how element slots are wrapped, and which accepted Go type stands for the leaves.
type spec struct {
	list  string // slice | array
	mp    string // map | struct (varchar keys only)
	tuple string // slice | array | struct
	udt   string // map | mapmissing (source only: null fields are absent keys) | struct | tagstruct | slice | array
	top   string // direct | ptr | iface (destination only: *interface{})
	inner string // wrapping of container-typed slots: direct | ptr | iface | ifaceptr
	leaf  string // wrapping of scalar-typed slots:    direct | ptr | iface | ifaceptr
	alt   int    // 0 = preferred Go type of each scalar, i>0 = alternative accepted type number i
}

func (s spec) sig() string {
	return fmt.Sprintf("%s|%s|%s|%s|%s|%s|%s|%d", s.list, s.mp, s.tuple, s.udt, s.top, s.inner, s.leaf, s.alt)
}

func wrapType(b reflect.Type, wrap string) reflect.Type {
	switch wrap {
	case "ptr":
		if b.Kind() == reflect.Ptr {
			return b
		}
		return reflect.PtrTo(b)
	case "iface", "ifaceptr":
		return tIface
	}
	return b
}

func nillableKind(k reflect.Kind) bool {
	return k == reflect.Ptr || k == reflect.Interface || k == reflect.Slice || k == reflect.Map
}

func (s spec) leafBase(sc *scalar) (reflect.Type, func(int) interface{}) {
	if s.alt > 0 && len(sc.alts) > 0 {
		a := sc.alts[(s.alt-1)%len(sc.alts)]
		return a.typ, a.conv
	}
	return sc.pref, sc.sample
}

func (s spec) childWrap(t *cqlT) string {
	if t.kind == "scalar" {
		return s.leaf
	}
	return s.inner
}

// keyBase: the Go type of a map key. Blob keys travel as strings ([]byte is not comparable; the blob codec
// accepts and produces strings), so a map<blob,V> has typed Go representations but no untyped one.
func keyBase(t *cqlT) reflect.Type {
	if t.sc.fam == famBytes {
		return tString
	}
	return t.sc.pref
}

func keySample(t *cqlT, k int) interface{} {
	if t.sc.fam == famText {
		return keyText(k)
	}
	if t.sc.fam == famBytes {
		return string([]byte{byte(k), 0xAB, 0x01}) // never empty: keys must stay distinct
	}
	return t.sc.sample(k)
}

func fieldName(prefix string, i int) string { return fmt.Sprintf("%s%d", prefix, i) }

// tnode carries the Go types chosen for one node of a value: computed once per (case, spec) from the
// fully non-null value (null plans have the same shape) because reflect.StructOf & co are slow.
type tnode struct {
	base reflect.Type // type of a non-null value of this node
	slot reflect.Type // type of the slot holding it in its parent (base wrapped)
	kids []*tnode
}

func commonSlot(kids []*tnode) reflect.Type {
	var c reflect.Type
	for _, k := range kids {
		if c == nil {
			c = k.slot
		} else if c != k.slot {
			return tIface
		}
	}
	if c == nil {
		return tIface
	}
	return c
}

func structOf(kids []*tnode, name func(i int) string, tag func(i int) string) reflect.Type {
	fs := make([]reflect.StructField, len(kids))
	for i := range kids {
		fs[i] = reflect.StructField{Name: name(i), Type: kids[i].slot}
		if tag != nil {
			fs[i].Tag = reflect.StructTag(`cassandra:"` + tag(i) + `"`)
		}
	}
	return reflect.StructOf(fs)
}

// types computes the Go types standing for a value of type t with the shape of v.
func (s spec) types(t *cqlT, v *val, wrap string) *tnode {
	n := &tnode{}
	for i := range v.kids {
		kt := t.valueKid(i)
		n.kids = append(n.kids, s.types(kt, v.kids[i], s.childWrap(kt)))
	}
	switch t.kind {
	case "scalar":
		n.base, _ = s.leafBase(t.sc)
	case "list", "set":
		if s.list == "array" {
			n.base = reflect.ArrayOf(len(v.kids), commonSlot(n.kids))
		} else {
			n.base = reflect.SliceOf(commonSlot(n.kids))
		}
	case "map":
		if s.mp == "struct" && t.kids[0].sc.fam == famText {
			n.base = structOf(n.kids, func(i int) string { return "F" + fmt.Sprint(v.keys[i].k) }, nil)
		} else {
			n.base = reflect.MapOf(keyBase(t.kids[0]), commonSlot(n.kids))
		}
	case "tuple":
		switch s.tuple {
		case "struct":
			n.base = structOf(n.kids, func(i int) string { return fieldName("F", i) }, nil)
		case "array":
			n.base = reflect.ArrayOf(len(v.kids), commonSlot(n.kids))
		default:
			n.base = reflect.SliceOf(commonSlot(n.kids))
		}
	case "udt":
		switch s.udt {
		case "struct":
			n.base = structOf(n.kids, func(i int) string { return fieldName("F", i) }, nil)
		case "tagstruct":
			n.base = structOf(n.kids, func(i int) string { return fieldName("Zed", i) }, func(i int) string { return t.names[i] })
		case "slice":
			n.base = reflect.SliceOf(commonSlot(n.kids))
		case "array":
			n.base = reflect.ArrayOf(len(v.kids), commonSlot(n.kids))
		default:
			n.base = reflect.MapOf(tString, commonSlot(n.kids))
		}
	}
	n.slot = wrapType(n.base, wrap)
	return n
}

// slot builds the Go value occupying a slot of the given wrapping. ok == false: this
// representation cannot hold the value (a null in a non-nillable slot).
func (s spec) slot(t *cqlT, v *val, tn *tnode, wrap string) (reflect.Value, bool) {
	b := tn.base
	pt := b
	if pt.Kind() != reflect.Ptr {
		pt = reflect.PtrTo(b)
	}
	if v.null {
		switch wrap {
		case "ptr":
			return reflect.Zero(pt), true
		case "iface":
			return reflect.Zero(tIface), true
		case "ifaceptr":
			x := reflect.New(tIface).Elem()
			x.Set(reflect.Zero(pt))
			return x, true
		}
		if k := b.Kind(); k == reflect.Ptr || k == reflect.Slice || k == reflect.Map {
			return reflect.Zero(b), true
		}
		return reflect.Value{}, false
	}
	bv, ok := s.baseValue(t, v, tn)
	if !ok {
		return reflect.Value{}, false
	}
	switch wrap {
	case "ptr":
		if b.Kind() == reflect.Ptr {
			return bv, true
		}
		p := reflect.New(b)
		p.Elem().Set(bv)
		return p, true
	case "iface":
		x := reflect.New(tIface).Elem()
		x.Set(bv)
		return x, true
	case "ifaceptr":
		x := reflect.New(tIface).Elem()
		if b.Kind() == reflect.Ptr {
			x.Set(bv)
		} else {
			p := reflect.New(b)
			p.Elem().Set(bv)
			x.Set(p)
		}
		return x, true
	}
	return bv, true
}

func (s spec) baseValue(t *cqlT, v *val, tn *tnode) (reflect.Value, bool) {
	b := tn.base
	out := reflect.New(b).Elem()
	kid := func(i int) (reflect.Value, bool) {
		kt := t.valueKid(i)
		return s.slot(kt, v.kids[i], tn.kids[i], s.childWrap(kt))
	}
	switch t.kind {
	case "scalar":
		_, conv := s.leafBase(t.sc)
		out.Set(reflect.ValueOf(conv(v.k)))
		return out, true
	}
	switch b.Kind() {
	case reflect.Slice:
		out.Set(reflect.MakeSlice(b, len(v.kids), len(v.kids)))
		fallthrough
	case reflect.Array:
		for i := range v.kids {
			kv, ok := kid(i)
			if !ok {
				return out, false
			}
			out.Index(i).Set(kv)
		}
	case reflect.Struct:
		for i := range v.kids {
			kv, ok := kid(i)
			if !ok {
				return out, false
			}
			out.Field(i).Set(kv)
		}
	case reflect.Map:
		out.Set(reflect.MakeMapWithSize(b, len(v.kids)))
		for i := range v.kids {
			var key reflect.Value
			if t.kind == "map" {
				key = reflect.ValueOf(keySample(t.kids[0], v.keys[i].k))
			} else {
				key = reflect.ValueOf(t.names[i])
			}
			if t.kind == "udt" && s.udt == "mapmissing" && v.kids[i].null {
				continue
			}
			kv, ok := kid(i)
			if !ok {
				return out, false
			}
			out.SetMapIndex(key, kv)
		}
	}
	return out, true
}

// source returns the value to hand to Encode.
func (s spec) source(t *cqlT, v *val, tn *tnode) (interface{}, bool) {
	sv, ok := s.slot(t, v, tn, s.top)
	if !ok {
		return nil, false
	}
	return sv.Interface(), true
}

// dest returns a fresh destination (a pointer) for Decode.
func (s spec) dest(tn *tnode) reflect.Value {
	if s.top == "iface" {
		return reflect.New(tIface)
	}
	return reflect.New(tn.base)
}

// ------------------------------------------------------------------------------------------------
// labels (violation keys): compact Go type strings, no spaces, array lengths collapsed

func typeLabel(t reflect.Type) string {
	if t == tBytes {
		return "[]byte"
	}
	if t.Name() != "" {
		return t.String()
	}
	switch t.Kind() {
	case reflect.Ptr:
		return "*" + typeLabel(t.Elem())
	case reflect.Slice:
		return "[]" + typeLabel(t.Elem())
	case reflect.Array:
		return "[N]" + typeLabel(t.Elem())
	case reflect.Map:
		return "map[" + typeLabel(t.Key()) + "]" + typeLabel(t.Elem())
	case reflect.Interface:
		return "interface{}"
	case reflect.Struct:
		fs := make([]string, t.NumField())
		tagged := false
		for i := range fs {
			fs[i] = typeLabel(t.Field(i).Type)
			if t.Field(i).Tag != "" {
				tagged = true
			}
		}
		p := "struct{"
		if tagged {
			p = "tagstruct{"
		}
		return p + strings.Join(fs, ";") + "}"
	}
	return strings.ReplaceAll(t.String(), " ", "")
}

func (s spec) label(t *cqlT, tn *tnode, asDest bool) string {
	var l string
	if asDest {
		if s.top == "iface" {
			return "*interface{}"
		}
		l = "*" + typeLabel(tn.base)
	} else {
		l = typeLabel(tn.slot)
		uses := false
		t.walk(func(n *cqlT) {
			if n != t && s.childWrap(n) == "ifaceptr" {
				uses = true
			}
		})
		if uses {
			l += "+typed-nil-in-interface"
		}
		if s.udt == "mapmissing" {
			l += "+absent-key"
		}
	}
	return l
}

// ------------------------------------------------------------------------------------------------
// comparator: decoded Go value against the abstract value, independent of the representation

func unwrap(g reflect.Value) (reflect.Value, bool) {
	for g.IsValid() && (g.Kind() == reflect.Ptr || g.Kind() == reflect.Interface) {
		if g.IsNil() {
			return g, true
		}
		g = g.Elem()
	}
	if !g.IsValid() {
		return g, true
	}
	if (g.Kind() == reflect.Slice || g.Kind() == reflect.Map) && g.IsNil() {
		return g, true
	}
	return g, false
}

func structField(g reflect.Value, name string) reflect.Value {
	gt := g.Type()
	for i := 0; i < gt.NumField(); i++ {
		f := gt.Field(i)
		if tag := f.Tag.Get("cassandra"); tag != "" {
			if tag == name {
				return g.Field(i)
			}
		} else if strings.EqualFold(f.Name, name) {
			return g.Field(i)
		}
	}
	return reflect.Value{}
}

// cmpValue walks got (the content of a slot) against v and records problem classes in probs.
// strict: got comes from an untyped (*interface{}) destination, where the library chose every slot
// type itself: a null must then be a nil there; a slot type that cannot hold nil loses the null.
func cmpValue(t *cqlT, v *val, got reflect.Value, isKey bool, strict bool, probs *probset) {
	if !got.IsValid() {
		if !v.null {
			probs.add("spurious-null")
		}
		return
	}
	slotNillable := nillableKind(got.Kind())
	g, isNil := unwrap(got)
	if v.null {
		if slotNillable {
			if !isNil {
				probs.add("null-lost")
			}
		} else if strict {
			probs.add("null-lost")
		} else if !got.IsZero() {
			probs.add("null-slot-not-zero")
		}
		return
	}
	if isNil {
		probs.add("spurious-null")
		return
	}
	switch t.kind {
	case "scalar":
		var want interface{}
		if isKey {
			want = keySample(t, v.k)
		} else {
			want = t.sc.sample(v.k)
		}
		if w := reflect.ValueOf(want); w.Kind() == reflect.Ptr {
			want = w.Elem().Interface()
		}
		if !g.CanInterface() || norm(t.sc.fam, g.Interface()) != norm(t.sc.fam, want) {
			probs.add("neighbour-changed")
		}
	case "list", "set":
		if g.Kind() != reflect.Slice && g.Kind() != reflect.Array {
			probs.add("shape")
			return
		}
		if g.Len() != len(v.kids) {
			probs.add("length-changed")
			return
		}
		for i := range v.kids {
			cmpValue(t.kids[0], v.kids[i], g.Index(i), false, strict, probs)
		}
	case "map":
		switch g.Kind() {
		case reflect.Map:
			if g.Len() != len(v.kids) {
				probs.add("length-changed")
				return
			}
			idx := map[string]reflect.Value{}
			it := g.MapRange()
			for it.Next() {
				kk, knil := unwrap(it.Key())
				if knil || !kk.CanInterface() {
					continue
				}
				idx[norm(t.kids[0].sc.fam, kk.Interface())] = it.Value()
			}
			for i := range v.kids {
				ev, ok := idx[norm(t.kids[0].sc.fam, keySample(t.kids[0], v.keys[i].k))]
				if !ok {
					probs.add("entry-missing")
					continue
				}
				cmpValue(t.kids[1], v.kids[i], ev, false, strict, probs)
			}
		case reflect.Struct:
			for i := range v.kids {
				f := structField(g, keyText(v.keys[i].k))
				if !f.IsValid() {
					probs.add("shape")
					continue
				}
				cmpValue(t.kids[1], v.kids[i], f, false, strict, probs)
			}
		default:
			probs.add("shape")
		}
	case "tuple", "udt":
		switch g.Kind() {
		case reflect.Slice, reflect.Array:
			if g.Len() != len(v.kids) {
				probs.add("length-changed")
				return
			}
			for i := range v.kids {
				cmpValue(t.kids[i], v.kids[i], g.Index(i), false, strict, probs)
			}
		case reflect.Struct:
			for i := range v.kids {
				var f reflect.Value
				if t.kind == "udt" {
					f = structField(g, t.names[i])
				} else if i < g.NumField() {
					f = g.Field(i)
				}
				if !f.IsValid() {
					probs.add("shape")
					continue
				}
				cmpValue(t.kids[i], v.kids[i], f, false, strict, probs)
			}
		case reflect.Map:
			if t.kind != "udt" {
				probs.add("shape")
				return
			}
			for i := range v.kids {
				ev := g.MapIndex(reflect.ValueOf(t.names[i]))
				if !ev.IsValid() {
					// absent key: acceptable only for a null field (recorded apart: the caller decides)
					if !v.kids[i].null {
						probs.add("entry-missing")
					} else {
						probs.add("null-key-absent")
					}
					continue
				}
				cmpValue(t.kids[i], v.kids[i], ev, false, strict, probs)
			}
		default:
			probs.add("shape")
		}
	}
}

// classify turns a problem set into one stable "what".
type probset map[string]bool

func (p *probset) add(k string) {
	if *p == nil {
		*p = probset{}
	}
	(*p)[k] = true
}

func classify(probs probset, prefix string) string {
	// a null UDT field represented by an absent map key is tolerated except where the caller looks
	// for it explicitly (short UDT values must decode like explicit nulls: key present, value nil)
	delete(probs, "null-key-absent")
	if len(probs) == 0 {
		return ""
	}
	if probs[prefix+"null-lost"] && probs[prefix+"spurious-null"] ||
		probs[prefix+"null-missing"] && probs[prefix+"null-extra"] {
		return prefix + "pos-shifted"
	}
	order := []string{"null-lost", "null-missing", "null-slot-not-zero", "spurious-null", "null-extra",
		"neighbour-changed", "neighbour-bytes", "length-changed", "count", "entry-missing", "key-missing", "shape"}
	for _, o := range order {
		if probs[prefix+o] {
			return prefix + o
		}
	}
	for k := range probs {
		return k
	}
	return ""
}
