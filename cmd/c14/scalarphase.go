package main

import (
	"encoding/hex"
	"fmt"
	"reflect"
	"strings"

	"github.com/datastax/go-cassandra-native-protocol/primitive"
)

var scalarVersions = []primitive.ProtocolVersion{
	primitive.ProtocolVersion2, primitive.ProtocolVersion3, primitive.ProtocolVersion4, primitive.ProtocolVersion5,
}

// scalarPhase judges clauses (a) and (b) for the scalar codecs. only != "": judge that codec alone
// (replay); silent: judge nothing, only learn which typed nils are broken (replay of a container case).
func (h *harness) scalarPhase(only string, silent bool) {
	c := h.c
	srcTypes := nilableSourceTypes()
	dstTypes := destElemTypes()
	acceptedSrc, acceptedDst, docMissing := 0, 0, 0
	detail := func(s *scalar, ver primitive.ProtocolVersion) replayDetail {
		return replayDetail{Seed: c.Seed, Tier: c.Tier, Phase: "scalar", Type: s.name, Version: verName(ver)}
	}
	violation := func(key string, d replayDetail) {
		if !silent {
			c.Violation(key, d)
		}
	}
	for _, s := range h.scalars {
		if only != "" && s.name != only {
			continue
		}
		acc := map[reflect.Type]bool{}
		for vi, ver := range scalarVersions {
			// ---- clause (a): untyped nil
			b, err, pan := h.enc(s.codec, nil, ver)
			c.Eval(1)
			c.Count("a_scalar_untyped_nil", 1)
			c.Distinct(fmt.Sprintf("a|%s|nil|%s", s.name, verName(ver)))
			if what := judgeNilEncode(b, err, pan); what != "" {
				d := detail(s, ver)
				d.Src, d.Input, d.Bytes, d.Err, d.Want = "nil", "untyped nil", hex.EncodeToString(b), errStr(err)+pan, "(nil []byte, nil error)"
				violation(fmt.Sprintf("%s/a/nil/%s", s.name, what), d)
			}
			// ---- clause (a): typed nil of every accepted nil-able type
			for _, T := range srcTypes {
				if vi == 0 {
					for _, cand := range candidates(T) {
						_, err, pan := h.enc(s.codec, cand.Interface(), ver)
						if err == nil && pan == "" {
							acc[T] = true
							break
						}
					}
					if acc[T] {
						acceptedSrc++
					}
				}
				if !acc[T] {
					c.Count("a_scalar_type_not_accepted", 1)
					continue
				}
				b, err, pan := h.enc(s.codec, reflect.Zero(T).Interface(), ver)
				c.Eval(1)
				c.Count("a_scalar_typed_nil", 1)
				c.Distinct(fmt.Sprintf("a|%s|%s|%s", s.name, typeLabel(T), verName(ver)))
				if what := judgeNilEncode(b, err, pan); what != "" {
					d := detail(s, ver)
					d.Src, d.Input, d.Bytes, d.Err, d.Want = srcLabel(s, T), "typed nil ("+T.String()+")(nil)", hex.EncodeToString(b), errStr(err)+pan, "(nil []byte, nil error)"
					if b != nil {
						d.Got = fmt.Sprintf("non-nil []byte of length %d", len(b))
					}
					violation(fmt.Sprintf("%s/a/%s/%s", s.name, srcLabel(s, T), what), d)
					h.brokenLeaf[s.name+"|"+T.String()] = true
				}
			}
			if vi == 0 {
				for _, T := range docNilable(s.name) {
					if !acc[T] {
						docMissing++
						c.Note("doc.go lists %s as accepted by %s but no candidate value of it encoded", T, s.name)
					}
				}
			}

			// ---- clause (b): null into every accepted destination
			canon, err, pan := h.enc(s.codec, s.sample(1), ver)
			if err != nil || pan != "" || len(canon) == 0 {
				c.Inconclusive("scalar-sample-does-not-encode:" + s.name)
				continue
			}
			nulls := []struct {
				name string
				b    []byte
			}{{"nil-input", nil}}
			if s.emptyIsNull {
				nulls = append(nulls, struct {
					name string
					b    []byte
				}{"empty-input", []byte{}})
			}
			for _, T := range dstTypes {
				probe := reflect.New(T)
				wasNull, err, pan := h.dec(s.codec, canon, probe.Interface(), ver)
				if err != nil || pan != "" || wasNull {
					c.Count("b_scalar_dest_not_accepted", 1)
					continue
				}
				if vi == 0 {
					acceptedDst++
				}
				for _, in := range nulls {
					for _, prefilled := range []bool{true, false} {
						d := reflect.New(T)
						if prefilled {
							// the stale value is what a previous, non-null decode left behind
							h.dec(s.codec, canon, d.Interface(), ver)
							if d.Elem().IsZero() {
								c.Count("b_prefill_was_zero", 1)
							}
						}
						wasNull, err, pan := h.dec(s.codec, in.b, d.Interface(), ver)
						c.Eval(1)
						c.Count("b_scalar_null_decodes", 1)
						c.Distinct(fmt.Sprintf("b|%s|%s|%s|%s|%v", s.name, typeLabel(T), verName(ver), in.name, prefilled))
						what := judgeNullDecode(wasNull, err, pan, d)
						if what != "" {
							dd := detail(s, ver)
							dd.Dst, dd.Input, dd.Err = "*"+typeLabel(T), in.name, errStr(err)+pan
							dd.Got = fmt.Sprintf("wasNull=%v dest=%v", wasNull, safeFmt(d.Elem()))
							dd.Want = "wasNull=true err=nil dest=zero value"
							violation(fmt.Sprintf("%s/b/*%s/%s:%s", s.name, typeLabel(T), in.name, what), dd)
						}
					}
				}
			}
		}
	}
	c.Set("scalar_accepted_source_pairs", acceptedSrc)
	c.Set("scalar_accepted_dest_pairs", acceptedDst)
	c.Set("doc_listed_types_not_accepted", docMissing)
	if only == "" && (acceptedSrc < 150 || acceptedDst < 150) {
		c.Inconclusive(fmt.Sprintf("few-accepted-types:src=%d,dst=%d", acceptedSrc, acceptedDst))
	}
}

// srcLabel: reflect cannot tell []rune from []int32; for the text codecs the documented name is []rune.
func srcLabel(s *scalar, T reflect.Type) string {
	l := typeLabel(T)
	if s.fam == famText {
		l = strings.Replace(l, "[]int32", "[]rune", 1)
	}
	return l
}

func safeFmt(v reflect.Value) (s string) {
	defer func() {
		if recover() != nil {
			s = "<unprintable>"
		}
	}()
	s = fmt.Sprintf("%#v", v.Interface())
	if len(s) > 200 {
		s = s[:200] + "..."
	}
	return
}

// judgeNilEncode: a nil source must give (nil bytes, nil error). An empty, non-nil []byte is not a
// null: written as a [bytes] it has length 0, not -1.
func judgeNilEncode(b []byte, err error, pan string) string {
	switch {
	case pan != "":
		return "panic"
	case err != nil:
		return "error"
	case b != nil && len(b) == 0:
		return "empty-not-null"
	case b != nil:
		return "value-not-null"
	}
	return ""
}

func judgeNullDecode(wasNull bool, err error, pan string, dest reflect.Value) string {
	switch {
	case pan != "":
		return "panic"
	case err != nil:
		return "error"
	case !wasNull:
		return "wasNull-false"
	case !dest.Elem().IsZero():
		return "dest-not-zeroed"
	}
	return ""
}
