// C12 — CQL values are serialized exactly as the specification's formats prescribe.
//
// Oracle: internal/cqlref, an independent serializer/parser written from sections 5 and 6 of
// specs/native_protocol_v5.spec and section 6 of native_protocol_v2.spec (imports nothing from the
// library). For every case (type tree t, abstract value v, Go representation R, version):
//
//	encode:  codec.Encode(R(v), version) == cqlref.Serialize(t, v, version) byte for byte, NULL <-> nil
//	         (where the specification leaves bytes open - maps and sets of >1 elements have no prescribed
//	         order and Go maps iterate randomly, a NaN's payload is not significant, any non-zero byte is
//	         boolean true - the library's bytes must instead parse strictly with cqlref.Parse to a value equal
//	         to v with maps/sets as multisets, and have the reference length)
//	decode:  codec.Decode(cqlref.Serialize(t, v, version)) into a fresh R and into *interface{} yields v
//
// plus literal golden vectors (the specification's own varint table, its date examples, hand-derived
// duration / decimal / collection / tuple / udt encodings, v2 vs v3+ collection formats) that both the
// reference and the library must reproduce, and udt values with fewer values than fields (§6).
package main

import (
	"bytes"
	"encoding/hex"
	"fmt"
	"math"
	"math/big"
	"os"
	"reflect"
	"runtime/debug"
	"strings"
	"sync"
	"sync/atomic"
	"time"

	"verif/internal/cqlgen"
	"verif/internal/cqlref"
	"verif/internal/mon"
)

func main() { mon.Main("C12", run) }

var (
	encodeRefused  int64 // Encode error: judged by C11, not here
	structural     int64 // compared through the reference parser (map order / NaN payload)
	byteForByte    int64
	untypedSkipped int64
	shortUdt       int64
	shortUdtReused int64 // decodes of a short udt value into a pre-filled destination that were judged
)

// orderFree reports whether the specification leaves the bytes of the value partly open: a map
// or a set with more than one element (no prescribed order; Go maps iterate randomly), a NaN
// (payload not significant), boolean true ("any other value denotes true", 1 only recommended).
// These are the only cases where the library's bytes may differ from the reference bytes.
func orderFree(t *cqlref.Type, v *cqlref.Value) bool {
	free := false
	cqlref.Walk(t, v, func(tt *cqlref.Type, x *cqlref.Value) {
		if x == nil || x.Null {
			return
		}
		switch {
		case tt.Kind == cqlref.Map && len(x.Elems) > 2, tt.Kind == cqlref.Set && len(x.Elems) > 1, x.IsNaN(tt), tt.Kind == cqlref.Boolean && x.Bool:
			free = true
		}
	})
	return free
}

// decodeProbe feeds reference bytes to the library and compares what comes out with v.
func decodeProbe(cs cqlgen.Case, ref []byte) *cqlgen.Failure {
	t, v, ver := cs.Type, cs.Value, cs.Version
	codec, _, err := cqlgen.Codec(t)
	if err != nil {
		return &cqlgen.Failure{Stage: "new-codec", Msg: err.Error()}
	}
	refHex := cqlgen.Hex(ref)
	dest, eff, val := cqlgen.TopDest(cs.Repr)
	wasNull, err, pan := cqlgen.SafeDecode(codec, ref, dest, ver)
	switch {
	case pan != "":
		return &cqlgen.Failure{Stage: "decode-panic", Msg: pan, RefHex: refHex}
	case err != nil:
		return &cqlgen.Failure{Stage: "decode", Msg: "Decode refused specification-formatted bytes: " + err.Error(), RefHex: refHex}
	case wasNull != v.Null:
		return &cqlgen.Failure{Stage: "decode", Msg: fmt.Sprintf("wasNull=%v for %s", wasNull, cqlref.Format(t, v)), RefHex: refHex}
	}
	if err := cqlgen.MatchTop(eff, t, v, val); err != nil {
		return &cqlgen.Failure{Stage: "decode", Msg: err.Error(), RefHex: refHex}
	}
	if cqlgen.PreferredKeyUnhashable(t) {
		atomic.AddInt64(&untypedSkipped, 1) // no Go type for the preferred representation: C11 reports it
		return nil
	}
	var any interface{}
	wasNull, err, pan = cqlgen.SafeDecode(codec, ref, &any, ver)
	switch {
	case pan != "":
		return &cqlgen.Failure{Stage: "decode-panic", Msg: pan, RefHex: refHex}
	case err != nil:
		return &cqlgen.Failure{Stage: "decode", Msg: "Decode into *interface{} refused specification-formatted bytes: " + err.Error(), RefHex: refHex}
	case wasNull != v.Null || (any == nil) != v.Null:
		return &cqlgen.Failure{Stage: "decode", Msg: fmt.Sprintf("*interface{}: wasNull=%v value=%v for %s", wasNull, any, cqlref.Format(t, v)), RefHex: refHex}
	}
	if !v.Null {
		pref := cqlgen.Preferred(t)
		if reflect.TypeOf(any) != pref.GoType() {
			return nil // the dynamic type is C11's business
		}
		if err := cqlgen.Match(pref, t, v, reflect.ValueOf(any)); err != nil {
			return &cqlgen.Failure{Stage: "decode", Msg: "*interface{}: " + err.Error(), RefHex: refHex}
		}
	}
	return nil
}

// probe runs the C12 oracle on one case and returns nil when it holds.
func probe(cs cqlgen.Case) *cqlgen.Failure {
	t, v, ver := cs.Type, cs.Value, cs.Version
	ref, err := cqlref.Serialize(t, v, ver)
	if err != nil {
		return &cqlgen.Failure{Stage: "harness", Key: "harness/reference-serialize", Msg: err.Error()}
	}
	codec, _, err := cqlgen.Codec(t)
	if err != nil {
		return &cqlgen.Failure{Stage: "new-codec", Msg: err.Error()}
	}
	src, err := cqlgen.Build(cs.Repr, t, v)
	if err != nil {
		return &cqlgen.Failure{Stage: "harness", Key: "harness/build", Msg: err.Error()}
	}
	b, err, pan := cqlgen.SafeEncode(codec, src.Interface(), ver)
	if pan != "" {
		return &cqlgen.Failure{Stage: "encode-panic", Msg: pan, RefHex: cqlgen.Hex(ref)}
	}
	if err != nil {
		atomic.AddInt64(&encodeRefused, 1)
	} else if bytes.Equal(b, ref) && (b == nil) == (ref == nil) {
		atomic.AddInt64(&byteForByte, 1)
	} else {
		f := &cqlgen.Failure{Stage: "encode", LibHex: cqlgen.Hex(b), RefHex: cqlgen.Hex(ref)}
		switch {
		case (b == nil) != (ref == nil):
			f.Msg = "NULL and non-NULL confused: a nil encoding is written as [bytes] of length -1, a non-nil one with its length"
			return f
		case !orderFree(t, v):
			f.Msg = "bytes differ from the specification's format"
			return f
		}
		parsed, perr := cqlref.Parse(t, b, ver)
		switch {
		case perr != nil:
			f.Msg = "the reference parser rejects the library's bytes: " + perr.Error()
			return f
		case !cqlref.EqualUnordered(t, parsed, v):
			f.Msg = "the library's bytes denote " + cqlref.Format(t, parsed)
			return f
		case len(b) != len(ref):
			f.Msg = fmt.Sprintf("length %d, the specification's format takes %d", len(b), len(ref))
			return f
		}
		atomic.AddInt64(&structural, 1)
	}
	return decodeProbe(cs, ref)
}

// shortUdtProbe: §6 "it is allowed to have less values than the type has fields". The reference
// serializes the udt value without its last `drop` fields; the library must decode that exactly
// like the full-length encoding with explicit NULLs (length -1) for those fields:
//
//	fresh destinations: *interface{} / map[string]interface{} (every declared field present, the
//	  omitted ones nil), a struct, []interface{}, and the case's own representation;
//	pre-filled destinations of the same shapes (filled by decoding a value with non-NULL fields):
//	  the omitted fields must be overwritten with NULL / zero, as an explicit NULL field is.
//
// A pre-filled decode is only judged when the full-length encoding passes in the same situation,
// so that what is reported is specific to the omitted fields.
func shortUdtProbe(cs cqlgen.Case, drop int, r *mon.Rand) (out []shortFail) {
	t, v, ver := cs.Type, cs.Value, cs.Version
	n := len(t.Elems)
	// copies: the case's value is shared with other goroutines and must not be appended to
	short := cqlref.SeqValue(append([]*cqlref.Value{}, v.Elems[:n-drop]...)...)
	full := cqlref.SeqValue(append([]*cqlref.Value{}, v.Elems[:n-drop]...)...)
	for i := 0; i < drop; i++ {
		full.Elems = append(full.Elems, cqlref.NullValue())
	}
	shortBytes, err := cqlref.Serialize(t, short, ver)
	if err != nil {
		return []shortFail{{cs, &cqlgen.Failure{Stage: "harness", Key: "harness/reference-serialize", Msg: err.Error()}}}
	}
	fullBytes, err := cqlref.Serialize(t, full, ver)
	if err != nil {
		return []shortFail{{cs, &cqlgen.Failure{Stage: "harness", Key: "harness/reference-serialize", Msg: err.Error()}}}
	}
	codec, _, err := cqlgen.Codec(t)
	if err != nil {
		return []shortFail{{cs, &cqlgen.Failure{Stage: "new-codec", Msg: err.Error()}}}
	}
	// shapes: deterministic functions of the type (no unbounded creation of Go types)
	type shaped struct {
		name string
		rep  *cqlgen.Repr
	}
	shapes := []shaped{{"struct", cqlgen.Universal(t)}}
	if cqlgen.Fits(cs.Repr, t, full) {
		shapes = append(shapes, shaped{"case-representation:" + cs.Repr.Class(), cs.Repr})
	}
	if !cqlgen.PreferredKeyUnhashable(t) {
		perField := &cqlgen.Repr{K: cqlgen.RSlice, PerField: true}
		for _, ft := range t.Elems {
			perField.Sub = append(perField.Sub, cqlgen.Iface(cqlgen.Universal(ft)))
		}
		shapes = append(shapes, shaped{"map[string]interface{}", cqlgen.Preferred(t)}, shaped{"[]interface{}", perField})
	}
	fail := func(sh shaped, how, msg string) {
		sc := cs
		sc.Value, sc.Repr, sc.Origin = full, sh.rep, "udt-with-fewer-values"
		out = append(out, shortFail{sc, &cqlgen.Failure{Stage: "decode", Key: "udt/decode/fewer-values-than-fields/" + sh.name + "/" + how,
			Msg:    fmt.Sprintf("udt value with %d of %d fields (spec §6 allows fewer values than fields), destination %s: %s", n-drop, n, sh.rep, msg),
			RefHex: cqlgen.Hex(shortBytes)}})
	}
	// decode runs one decode of b into a destination of representation rep, optionally pre-filled
	// by decoding pre first, and returns the description of the difference with `full` ("" = none)
	decode := func(rep *cqlgen.Repr, pre, b []byte) (problem string, prefilled bool) {
		dest, eff, val := cqlgen.TopDest(rep)
		if pre != nil {
			if _, err, pan := cqlgen.SafeDecode(codec, pre, dest, ver); err != nil || pan != "" {
				return "", false
			}
		}
		wasNull, err, pan := cqlgen.SafeDecode(codec, b, dest, ver)
		switch {
		case pan != "":
			return "panic: " + pan, true
		case err != nil:
			return "Decode error: " + err.Error(), true
		case wasNull:
			return "wasNull=true", true
		}
		if err := cqlgen.MatchReused(eff, t, full, val); err != nil {
			return err.Error(), true
		}
		return "", true
	}
	for _, sh := range shapes {
		if p, _ := decode(sh.rep, nil, shortBytes); p != "" {
			if q, _ := decode(sh.rep, nil, fullBytes); q == "" {
				fail(sh, "fresh-destination", p)
			}
			continue // the full-length encoding fails the same way: not specific to omitted fields
		}
		// pre-filled: a value of the same shape whose omitted fields are not NULL
		filler := cqlgen.Refill(r, sh.rep, t, full, ver)
		pre, err := cqlref.Serialize(t, filler, ver)
		if err != nil || !cqlgen.Fits(sh.rep, t, filler) {
			continue
		}
		p, ok := decode(sh.rep, pre, shortBytes)
		if !ok || p == "" {
			if ok {
				atomic.AddInt64(&shortUdtReused, 1)
			}
			continue
		}
		if q, _ := decode(sh.rep, pre, fullBytes); q == "" {
			fail(sh, "prefilled-destination-missing-field-not-null", p+"; destination pre-filled with "+clipStr(cqlref.Format(t, filler), 300))
		}
	}
	// the untyped destination: *interface{} must receive map[string]interface{} with every field
	if !cqlgen.PreferredKeyUnhashable(t) {
		var any interface{}
		wasNull, err, pan := cqlgen.SafeDecode(codec, shortBytes, &any, ver)
		sh := shaped{"*interface{}", cqlgen.Preferred(t)}
		switch {
		case pan != "":
			fail(sh, "fresh-destination", "panic: "+pan)
		case err != nil:
			fail(sh, "fresh-destination", "Decode error: "+err.Error())
		case wasNull || any == nil:
			fail(sh, "fresh-destination", fmt.Sprintf("wasNull=%v value=%v", wasNull, any))
		case reflect.TypeOf(any) == sh.rep.GoType():
			if err := cqlgen.Match(sh.rep, t, full, reflect.ValueOf(any)); err != nil {
				fail(sh, "fresh-destination", err.Error())
			}
		}
	}
	return out
}

type shortFail struct {
	cs cqlgen.Case
	f  *cqlgen.Failure
}

func clipStr(s string, n int) string {
	if len(s) > n {
		return s[:n] + "..."
	}
	return s
}

type golden struct {
	name string
	t    *cqlref.Type
	v    *cqlref.Value
	ver  cqlref.Version
	hex  string
}

func goldens() []golden {
	S := cqlref.Scalar
	i64 := cqlref.Int64Value
	txt := func(s string) *cqlref.Value { return cqlref.BytesValue([]byte(s)) }
	null := cqlref.NullValue()
	var out []golden
	add := func(name string, t *cqlref.Type, v *cqlref.Value, ver cqlref.Version, hx string) {
		out = append(out, golden{name, t, v, ver, strings.ReplaceAll(hx, " ", "")})
	}
	// §5.24: the specification's own table
	for _, c := range []struct {
		v  int64
		hx string
	}{{0, "00"}, {1, "01"}, {127, "7F"}, {128, "0080"}, {129, "0081"}, {-1, "FF"}, {-128, "80"}, {-129, "FF7F"}} {
		add(fmt.Sprintf("spec-varint-table(%d)", c.v), S(cqlref.Varint), i64(c.v), cqlref.V5, strings.ToLower(c.hx))
		// §5.6: decimal = [int] scale + varint of the unscaled value
		add(fmt.Sprintf("decimal(%dE-3)", c.v), S(cqlref.Decimal), cqlref.DecimalValue(big.NewInt(c.v), 3), cqlref.V4, "00000003"+strings.ToLower(c.hx))
	}
	add("varint(2^64)", S(cqlref.Varint), cqlref.IntValue(new(big.Int).Lsh(big.NewInt(1), 64)), cqlref.V3, "01 0000000000000000")
	add("varint(-2^63)", S(cqlref.Varint), i64(math.MinInt64), cqlref.V3, "8000000000000000")
	add("varint(-2^63-1)", S(cqlref.Varint), cqlref.IntValue(new(big.Int).Sub(big.NewInt(math.MinInt64), big.NewInt(1))), cqlref.V3, "ff 7fffffffffffffff")
	add("decimal(negative scale)", S(cqlref.Decimal), cqlref.DecimalValue(big.NewInt(255), -2), cqlref.V3, "fffffffe 00ff")
	add("bigint(-2)", S(cqlref.Bigint), i64(-2), cqlref.V2, "fffffffffffffffe")
	add("counter(2^40)", S(cqlref.Counter), i64(1<<40), cqlref.V3, "0000010000000000")
	add("int(-2)", S(cqlref.Int), i64(-2), cqlref.V2, "fffffffe")
	add("int(0x01020304)", S(cqlref.Int), i64(0x01020304), cqlref.V4, "01020304")
	add("smallint(-2)", S(cqlref.Smallint), i64(-2), cqlref.V4, "fffe")
	add("smallint(258)", S(cqlref.Smallint), i64(258), cqlref.V5, "0102")
	add("tinyint(-128)", S(cqlref.Tinyint), i64(-128), cqlref.V4, "80")
	add("boolean(true)", S(cqlref.Boolean), cqlref.BoolValue(true), cqlref.V2, "01")
	add("boolean(false)", S(cqlref.Boolean), cqlref.BoolValue(false), cqlref.V5, "00")
	// §5.5: 0 = -5877641-06-23, 2^31 = 1970-1-1, 2^32(-1) = 5881580-07-11
	add("date(1970-01-01)", S(cqlref.Date), cqlref.DateValue(1<<31), cqlref.V4, "80000000")
	add("date(-5877641-06-23)", S(cqlref.Date), cqlref.DateValue(0), cqlref.V4, "00000000")
	add("date(5881580-07-11)", S(cqlref.Date), cqlref.DateValue(math.MaxUint32), cqlref.V5, "ffffffff")
	add("date(1970-01-02)", S(cqlref.Date), cqlref.DateValue(1<<31+1), cqlref.DSE2, "80000001")
	add("date(1969-12-31)", S(cqlref.Date), cqlref.DateValue(1<<31-1), cqlref.V4, "7fffffff")
	add("time(last ns of day)", S(cqlref.Time), cqlref.TimeValue(86399999999999), cqlref.V4, "00004e94914effff")
	add("time(1ns)", S(cqlref.Time), cqlref.TimeValue(1), cqlref.V5, "0000000000000001")
	add("timestamp(-1ms)", S(cqlref.Timestamp), cqlref.TimestampValue(-1), cqlref.V3, "ffffffffffffffff")
	add("timestamp(2^32 ms)", S(cqlref.Timestamp), cqlref.TimestampValue(1<<32), cqlref.V2, "0000000100000000")
	add("float(1.0)", S(cqlref.Float), cqlref.FloatValue(0x3f800000), cqlref.V2, "3f800000")
	add("float(-0)", S(cqlref.Float), cqlref.FloatValue(0x80000000), cqlref.V3, "80000000")
	add("double(-2.5)", S(cqlref.Double), cqlref.DoubleValue(math.Float64bits(-2.5)), cqlref.V2, "c004000000000000")
	add("double(+Inf)", S(cqlref.Double), cqlref.DoubleValue(0x7ff0000000000000), cqlref.V4, "7ff0000000000000")
	// §5.8 + §3 [vint]: zig-zag (0,-1,1,-2,2 -> 0,1,2,3,4), leading one bits = extra bytes; 256000 = c3 e8 00
	add("duration(1mo2d3ns)", S(cqlref.Duration), cqlref.DurationValue(1, 2, 3), cqlref.V5, "02 04 06")
	add("duration(-1mo-2d-3ns)", S(cqlref.Duration), cqlref.DurationValue(-1, -2, -3), cqlref.V5, "01 03 05")
	add("duration(0)", S(cqlref.Duration), cqlref.DurationValue(0, 0, 0), cqlref.DSE2, "00 00 00")
	add("duration(128000ns)", S(cqlref.Duration), cqlref.DurationValue(0, 0, 128000), cqlref.V5, "00 00 c3e800")
	add("duration(64mo)", S(cqlref.Duration), cqlref.DurationValue(64, 0, 0), cqlref.V5, "8080 00 00")
	add("duration(max)", S(cqlref.Duration), cqlref.DurationValue(math.MaxInt32, math.MaxInt32, math.MaxInt64), cqlref.V5, "f0fffffffe f0fffffffe fffffffffffffffffe")
	add("duration(min)", S(cqlref.Duration), cqlref.DurationValue(math.MinInt32, math.MinInt32, math.MinInt64), cqlref.DSE2, "f0ffffffff f0ffffffff ffffffffffffffffff")
	add("inet(127.0.0.1)", S(cqlref.Inet), cqlref.BytesValue([]byte{127, 0, 0, 1}), cqlref.V2, "7f000001")
	add("inet(::1)", S(cqlref.Inet), cqlref.BytesValue(append(make([]byte, 15), 1)), cqlref.V4, "00000000000000000000000000000001")
	u, _ := hex.DecodeString("123e4567e89b12d3a456426614174000")
	add("uuid", S(cqlref.Uuid), cqlref.BytesValue(u), cqlref.V3, "123e4567e89b12d3a456426614174000")
	add("timeuuid", S(cqlref.Timeuuid), cqlref.BytesValue(u), cqlref.V5, "123e4567e89b12d3a456426614174000")
	add("varchar(é)", S(cqlref.Text), txt("é"), cqlref.V2, "c3a9")
	add("varchar(empty)", S(cqlref.Text), txt(""), cqlref.V4, "")
	add("ascii(abc)", S(cqlref.Ascii), txt("abc"), cqlref.V3, "616263")
	add("blob(00ff)", S(cqlref.Blob), cqlref.BytesValue([]byte{0, 0xff}), cqlref.V5, "00ff")
	add("custom(00ff)", S(cqlref.Custom), cqlref.BytesValue([]byte{0, 0xff}), cqlref.V5, "00ff")
	// collections: v3+ [int] count + [bytes] elements; v1/v2 [short] count + [short bytes] elements
	li := cqlref.NewList(S(cqlref.Int))
	add("list<int>[1,-2] v3", li, cqlref.SeqValue(i64(1), i64(-2)), cqlref.V3, "00000002 00000004 00000001 00000004 fffffffe")
	add("list<int>[1,-2] v5", li, cqlref.SeqValue(i64(1), i64(-2)), cqlref.V5, "00000002 00000004 00000001 00000004 fffffffe")
	add("list<int>[1,-2] dse2", li, cqlref.SeqValue(i64(1), i64(-2)), cqlref.DSE2, "00000002 00000004 00000001 00000004 fffffffe")
	add("list<int>[1,-2] v2", li, cqlref.SeqValue(i64(1), i64(-2)), cqlref.V2, "0002 0004 00000001 0004 fffffffe")
	add("list<int>[] v4", li, cqlref.SeqValue(), cqlref.V4, "00000000")
	add("list<int>[] v2", li, cqlref.SeqValue(), cqlref.V2, "0000")
	add("list<int>[NULL] v4", li, cqlref.SeqValue(null), cqlref.V4, "00000001 ffffffff")
	st := cqlref.NewSet(S(cqlref.Text))
	add("set<varchar>{a,bc} v4", st, cqlref.SeqValue(txt("a"), txt("bc")), cqlref.V4, "00000002 00000001 61 00000002 6263")
	add("set<varchar>{a,bc} v2", st, cqlref.SeqValue(txt("a"), txt("bc")), cqlref.V2, "0002 0001 61 0002 6263")
	add("set<varchar>{''} v3", st, cqlref.SeqValue(txt("")), cqlref.V3, "00000001 00000000")
	mt := cqlref.NewMap(S(cqlref.Text), S(cqlref.Int))
	add("map<varchar,int>{a:1} v3", mt, cqlref.MapValue(txt("a"), i64(1)), cqlref.V3, "00000001 00000001 61 00000004 00000001")
	add("map<varchar,int>{a:1} v2", mt, cqlref.MapValue(txt("a"), i64(1)), cqlref.V2, "0001 0001 61 0004 00000001")
	add("map<varchar,int>{a:NULL} v5", mt, cqlref.MapValue(txt("a"), null), cqlref.V5, "00000001 00000001 61 ffffffff")
	ll := cqlref.NewList(li)
	add("list<list<int>>[[7]] v2", ll, cqlref.SeqValue(cqlref.SeqValue(i64(7))), cqlref.V2, "0001 0008 0001 0004 00000007")
	add("list<list<int>>[[7]] v3", ll, cqlref.SeqValue(cqlref.SeqValue(i64(7))), cqlref.V3, "00000001 0000000c 00000001 00000004 00000007")
	// §5.21 tuple, §6 udt: successive [bytes], NULL = length -1
	tt := cqlref.NewTuple(S(cqlref.Int), S(cqlref.Text))
	add("tuple(NULL,'a')", tt, cqlref.SeqValue(null, txt("a")), cqlref.V3, "ffffffff 00000001 61")
	add("tuple(5,'')", tt, cqlref.SeqValue(i64(5), txt("")), cqlref.V5, "00000004 00000005 00000000")
	ut := cqlref.NewUDT("ks", "u", []string{"a", "b"}, []*cqlref.Type{S(cqlref.Int), S(cqlref.Text)})
	add("udt(7,NULL)", ut, cqlref.SeqValue(i64(7), null), cqlref.V4, "00000004 00000007 ffffffff")
	add("udt(7,'x')", ut, cqlref.SeqValue(i64(7), txt("x")), cqlref.DSE2, "00000004 00000007 00000001 78")
	// tuples and udts are "successive [bytes]" whatever the protocol version: [bytes] is an [int] length in
	// every version (only COLLECTION counts and element lengths are [short] in v2). The type codes do not exist
	// in v2 result metadata, but the value codecs accept the version, and Cassandra's TupleType / UserType
	// serialization does not depend on it.
	add("tuple(5,'a') v2", tt, cqlref.SeqValue(i64(5), txt("a")), cqlref.V2, "00000004 00000005 00000001 61")
	add("tuple(NULL,'') v2", tt, cqlref.SeqValue(null, txt("")), cqlref.V2, "ffffffff 00000000")
	add("udt(7,NULL) v2", ut, cqlref.SeqValue(i64(7), null), cqlref.V2, "00000004 00000007 ffffffff")
	tl2 := cqlref.NewTuple(li, S(cqlref.Int))
	add("tuple<list<int>,int>([1],2) v2", tl2, cqlref.SeqValue(cqlref.SeqValue(i64(1)), i64(2)), cqlref.V2, "00000008 0001 0004 00000001 00000004 00000002")
	tl := cqlref.NewTuple(li, S(cqlref.Varint))
	add("tuple<list<int>,varint>([1],-1)", tl, cqlref.SeqValue(cqlref.SeqValue(i64(1)), i64(-1)), cqlref.V4, "0000000c 00000001 00000004 00000001 00000001 ff")
	return out
}

func run(c *mon.Ctx) {
	debug.SetMemoryLimit(3 << 30) // soft limit: run-time created Go types are never freed (10^7 cases)
	c.Rule = "cases are those of C11 (scalar table: every scalar kind x every documented Go type, plain and through a pointer, x boundary-value pool; " +
		"random list/set/map/tuple/udt trees to depth 3 quick / 4 thorough over versions 2,3,4,5,DSE2), each compared with the independent reference " +
		"serializer in both directions, plus literal golden vectors (the spec's varint table, date examples, vint/duration, decimal, v2 vs v3+ collections, " +
		"tuple/udt framing) and udt values with trailing fields omitted. distinct = distinct (type, representation, version, value) signatures."
	c.Assume("internal/cqlref implements sections 5/6 of native_protocol_v5.spec and section 6 of native_protocol_v2.spec; it is cross-checked against literal vectors derived by hand from the specification text on every run")
	c.Assume("for values containing a map or set with more than one element (no prescribed order; random Go map iteration), a NaN (payload not significant) or boolean true (any non-zero byte) a byte mismatch is re-judged through the strict reference parser (maps and sets as multisets) plus total length; everything else is compared byte for byte")
	c.Assume("an Encode error is C11's concern (counted as encode_refused, not judged here)")

	depth := c.Pick(3, 4)
	plan := cqlgen.NewPlan(c.Seed, depth, c.Thorough())
	n := c.Pick(300000, 10000000)
	if min := plan.NumFixed() * 2; n < min {
		n = min
	}
	if s := os.Getenv("VERIF_CASES"); s != "" { // debugging aid only: overrides the tier's case count
		fmt.Sscan(s, &n)
	}
	c.Set("fixed_scalar_table_cases", plan.NumFixed())
	c.Set("max_type_depth", depth)

	var keys sync.Map
	report := func(cs cqlgen.Case, f *cqlgen.Failure) {
		bc, bf := cqlgen.Blame(cs, f, probe)
		key := cqlgen.Key(bc, bf)
		if _, dup := keys.LoadOrStore(key, true); dup {
			c.Violation(key, nil)
			return
		}
		d := cqlgen.Detail(c.Seed, cs, bc, bf)
		d["thorough_plan"] = c.Thorough()
		c.Violation(key, d)
		if os.Getenv("VERIF_DEBUG_KEYS") != "" {
			fmt.Fprintf(os.Stderr, "debug-key %s :: %s :: %s :: lib=%s ref=%s\n", key, bf.Msg, bc.Sig(), bf.LibHex, bf.RefHex)
		}
	}
	runCase := func(cs cqlgen.Case) {
		if f := probe(cs); f != nil {
			report(cs, f)
			return // a short-udt failure on top of it would only restate the same defect under another key
		}
		// §6: udt values may have fewer values than the type has fields
		if cs.Type.Kind == cqlref.UDT && !cs.Value.Null && len(cs.Type.Elems) >= 2 && len(cs.Value.Elems) == len(cs.Type.Elems) {
			r := mon.NewRand(c.Seed, uint64(cs.Index)<<1)
			drop := 1 + r.Intn(len(cs.Type.Elems)-1)
			atomic.AddInt64(&shortUdt, 1)
			for _, sf := range shortUdtProbe(cs, drop, r) {
				report(sf.cs, sf.f)
			}
		}
	}

	if c.Replay != "" {
		var d struct {
			Index    int   `json:"index"`
			Seed     int64 `json:"seed"`
			Thorough bool  `json:"thorough_plan"`
		}
		if err := c.ReplayDetail(&d); err != nil {
			c.Fatal("replay: %v", err)
		}
		c.Eval(1)
		if d.Index < 0 {
			runGoldens(c, report)
			return
		}
		cs := cqlgen.NewPlan(d.Seed, map[bool]int{false: 3, true: 4}[d.Thorough], d.Thorough).Case(d.Index)
		fmt.Printf("replaying case %d: %v\n", d.Index, cs.Describe())
		runCase(cs)
		return
	}

	runGoldens(c, report)

	var cov cqlgen.Coverage
	var distinct cqlgen.DistinctSet
	mon.Parallel(n, func(i int) {
		cs := plan.Case(i)
		runCase(cs)
		c.Eval(1)
		cov.Observe(cs)
		distinct.Add(cs.Sig())
		if i%(n/8) == n/16 && c.WantSample() {
			d := cs.Describe()
			if ref, err := cqlref.Serialize(cs.Type, cs.Value, cs.Version); err == nil {
				d["reference_bytes_hex"] = cqlgen.Hex(ref)
			}
			c.Sample(d)
		}
	})
	cov.Flush(c)
	distinct.Flush(c)
	c.Count("encode_compared_byte_for_byte", atomic.LoadInt64(&byteForByte))
	c.Count("encode_compared_through_reference_parser", atomic.LoadInt64(&structural))
	c.Count("encode_refused_not_judged", atomic.LoadInt64(&encodeRefused))
	c.Count("untyped_decode_skipped_no_go_type_for_preferred", atomic.LoadInt64(&untypedSkipped))
	c.Count("udt_values_with_fewer_values_than_fields", atomic.LoadInt64(&shortUdt))
	c.Count("udt_fewer_values_decoded_into_prefilled_destination", atomic.LoadInt64(&shortUdtReused))
	if atomic.LoadInt64(&structural) == 0 || atomic.LoadInt64(&byteForByte) == 0 {
		c.Inconclusive("one of the two comparison modes was never used")
	}
}

// runGoldens checks the literal vectors: first the reference against them (a disagreement is a
// harness error, never a verdict), then the library in both directions with the preferred
// representation.
func runGoldens(c *mon.Ctx, report func(cqlgen.Case, *cqlgen.Failure)) {
	// the harness' own date arithmetic against the specification's calendar examples
	for _, e := range []struct {
		days    int64
		y, m, d int
	}{{math.MinInt32, -5877641, 6, 23}, {0, 1970, 1, 1}, {math.MaxInt32, 5881580, 7, 11}} {
		if got, want := cqlgen.DaysToTime(e.days), time.Date(e.y, time.Month(e.m), e.d, 0, 0, 0, 0, time.UTC); !got.Equal(want) {
			c.Fatal("date arithmetic: %d days = %s, specification says %s", e.days, got, want)
		}
	}
	gs := goldens()
	for gi, g := range gs {
		want, err := hex.DecodeString(g.hex)
		if err != nil {
			c.Fatal("golden %s: %v", g.name, err)
		}
		ref, err := cqlref.Serialize(g.t, g.v, g.ver)
		if err != nil || !bytes.Equal(ref, want) {
			c.Fatal("golden %s: reference serializer gives %x (%v), vector is %s", g.name, ref, err, g.hex)
		}
		back, err := cqlref.Parse(g.t, want, g.ver)
		if err != nil || !cqlref.Equal(g.t, back, g.v) {
			c.Fatal("golden %s: reference parser gives %v (%v)", g.name, back, err)
		}
		reprs := []*cqlgen.Repr{cqlgen.Universal(g.t)}
		if !cqlgen.PreferredKeyUnhashable(g.t) && cqlgen.Fits(cqlgen.Preferred(g.t), g.t, g.v) {
			reprs = append(reprs, cqlgen.Preferred(g.t))
		}
		for _, rep := range reprs {
			cs := cqlgen.Case{Index: -1 - gi, Origin: "golden:" + g.name, Type: g.t, Value: g.v, Repr: rep, Version: g.ver}
			c.Eval(1)
			c.Distinct("golden|" + cs.Sig())
			if f := probe(cs); f != nil {
				report(cs, f)
			}
		}
	}
	c.Set("golden_vectors", len(gs))

	// A protocol-v2 collection has a [short] count: 65536 elements cannot be expressed, so Encode
	// must refuse (any bytes it returned would not be the specification's format).
	for _, kind := range []string{"list", "set", "map"} {
		t, v, rep := cqlgen.LargeCollection(kind, 65536)
		cs := cqlgen.Case{Index: -1000, Origin: "v2-count-overflow", Type: t, Value: v, Repr: rep, Version: cqlref.V2}
		c.Eval(1)
		c.Distinct("v2-count-overflow|" + t.String())
		if _, err := cqlref.Serialize(t, v, cqlref.V2); err == nil {
			c.Fatal("reference serializer accepts 65536 elements in protocol v2")
		}
		codec, _, err := cqlgen.Codec(t)
		if err != nil {
			c.Fatal("codec: %v", err)
		}
		src, err := cqlgen.Build(rep, t, v)
		if err != nil {
			c.Fatal("build: %v", err)
		}
		b, err, pan := cqlgen.SafeEncode(codec, src.Interface(), cqlref.V2)
		if pan != "" || err == nil {
			report(cs, &cqlgen.Failure{Stage: "encode", Key: t.Shallow() + "/encode/v2,len=65536-not-refused/" + rep.Class(),
				Msg: fmt.Sprintf("Encode of 65536 elements with protocol v2 must return an error (the [short] count cannot hold it): err=%v panic=%q", err, pan), LibHex: cqlgen.Hex(b)})
		}
	}
}
