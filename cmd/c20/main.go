// C20 — frame mutators keep flags and body in step; STARTUP option accessors are consistent
// (DESIGN.md §4 C20).
package main

import (
	"bytes"
	"encoding/binary"
	"encoding/hex"
	"fmt"
	"io"
	"sort"
	"strings"

	"github.com/datastax/go-cassandra-native-protocol/compression/lz4"
	"github.com/datastax/go-cassandra-native-protocol/frame"
	"github.com/datastax/go-cassandra-native-protocol/message"
	"github.com/datastax/go-cassandra-native-protocol/primitive"

	"verif/internal/bridge"
	"verif/internal/gen"
	"verif/internal/mon"
	"verif/internal/ref"
)

func main() { mon.Main("C20", run) }

var codec = frame.NewRawCodecWithCompression(lz4.Compressor{})

// ---- frame mutators ------------------------------------------------------------------------------

type step struct {
	name string
	kind byte // 'P' payload, 'W' warnings, 'T' tracing, 'C' compress
	arg  int
}

var allSteps = []step{
	{"SetCustomPayload(nil)", 'P', 0}, {"SetCustomPayload(empty)", 'P', 1}, {"SetCustomPayload(1)", 'P', 2}, {"SetCustomPayload(3)", 'P', 3},
	{"SetWarnings(nil)", 'W', 0}, {"SetWarnings(empty)", 'W', 1}, {"SetWarnings(1)", 'W', 2}, {"SetWarnings(3)", 'W', 3},
	{"tracing(off)", 'T', 0}, {"tracing(on)", 'T', 1},
	// SetTracingId on a request: "The tracing id. Only valid for response frames, ignored otherwise" - the id must be
	// ignored on the wire, the TRACING flag it sets asks for tracing
	{"SetTracingId(nil)@request", 'I', 0}, {"SetTracingId(id)@request", 'I', 1},
	{"SetCompress(false)", 'C', 0}, {"SetCompress(true)", 'C', 1},
}

func payloadArg(arg int, salt int) map[string][]byte {
	switch arg {
	case 0:
		return nil
	case 1:
		return map[string][]byte{}
	case 2:
		return map[string][]byte{"k": {byte(salt)}}
	}
	return map[string][]byte{"a": nil, "b": {}, "c": []byte(strings.Repeat("x", 300+salt))}
}

func warningsArg(arg int, salt int) []string {
	switch arg {
	case 0:
		return nil
	case 1:
		return []string{}
	case 2:
		return []string{fmt.Sprintf("w%d", salt)}
	}
	return []string{"", "second", strings.Repeat("w", 200+salt)}
}

// applicable steps for a frame: payload/warnings need v4+; warnings and tracing ids are for responses
func stepsFor(v ref.Version, response bool) []step {
	var out []step
	for _, s := range allSteps {
		if (s.kind == 'P' || s.kind == 'W') && !v.HasPayloadAndWarnings() {
			continue
		}
		if s.kind == 'W' && !response {
			continue
		}
		if s.kind == 'I' && response {
			continue
		}
		out = append(out, s)
	}
	return out
}

type model struct {
	payload  map[string][]byte
	warnings []string
	tracing  bool
	id       *primitive.UUID
	compress bool
}

func apply(f *frame.Frame, m *model, s step, salt int, response bool) {
	switch s.kind {
	case 'P':
		p := payloadArg(s.arg, salt)
		f.SetCustomPayload(p)
		m.payload = p
	case 'W':
		w := warningsArg(s.arg, salt)
		f.SetWarnings(w)
		m.warnings = w
	case 'T':
		if response {
			if s.arg == 1 {
				id := primitive.UUID{1, 2, 3, byte(salt)}
				f.SetTracingId(&id)
				m.id = &id
			} else {
				f.SetTracingId(nil)
				m.id = nil
			}
			m.tracing = s.arg == 1
		} else {
			f.RequestTracingId(s.arg == 1)
			m.tracing = s.arg == 1
		}
	case 'I':
		if s.arg == 1 {
			id := primitive.UUID{9, 9, 9, byte(salt)}
			f.SetTracingId(&id)
			m.id = &id
		} else {
			f.SetTracingId(nil)
			m.id = nil
		}
		m.tracing = s.arg == 1
	case 'C':
		f.SetCompress(s.arg == 1)
		m.compress = s.arg == 1
	}
}

// bodyState: the optional parts the frame body actually holds must be what the last mutator call stored (nil and
// empty are the same), so that the flags, which were just checked against the model, also describe the body.
func bodyState(f *frame.Frame, m *model, response bool) string {
	if len(f.Body.CustomPayload) != len(m.payload) {
		return "custom-payload-held-differs-from-last-SetCustomPayload"
	}
	for k, v := range m.payload {
		if w, ok := f.Body.CustomPayload[k]; !ok || !bytes.Equal(v, w) {
			return "custom-payload-held-differs-from-last-SetCustomPayload"
		}
	}
	if len(f.Body.Warnings) != len(m.warnings) {
		return "warnings-held-differ-from-last-SetWarnings"
	}
	for i := range m.warnings {
		if f.Body.Warnings[i] != m.warnings[i] {
			return "warnings-held-differ-from-last-SetWarnings"
		}
	}
	if (f.Body.TracingId == nil) != (m.id == nil) || (m.id != nil && *f.Body.TracingId != *m.id) {
		return "tracing-id-held-differs-from-last-SetTracingId"
	}
	return ""
}

func compressible(op byte) bool {
	return op != ref.OpStartup && op != ref.OpOptions && op != ref.OpReady
}

// expectedFlags: which header flags the model says must be set.
func expectedFlags(m *model, op byte) primitive.HeaderFlag {
	var fl primitive.HeaderFlag
	if len(m.payload) > 0 {
		fl |= primitive.HeaderFlagCustomPayload
	}
	if len(m.warnings) > 0 {
		fl |= primitive.HeaderFlagWarning
	}
	if m.tracing {
		fl |= primitive.HeaderFlagTracing
	}
	if m.compress && compressible(op) {
		fl |= primitive.HeaderFlagCompressed
	}
	return fl
}

type seqDetail struct {
	Kind    string   `json:"kind"`
	Version string   `json:"version"`
	Steps   []string `json:"steps"`
	What    string   `json:"what"`
	Flags   string   `json:"flags"`
	Want    string   `json:"want_flags"`
	Seed    int64    `json:"seed"`
	Bytes   string   `json:"bytes_hex,omitempty"`
}

// runSeq applies a sequence to a fresh frame of the case, checking the flag invariant after every
// step and encode / declared length / round trip at the end.
func runSeq(c *mon.Ctx, cs gen.Case, seq []step, salt int, midEncode, flagsOnly bool) {
	a := cs.Frame
	op := a.Msg.Opcode()
	f := bridge.ToLib(a, false, nil)
	m := &model{}
	c.Eval(1)
	names := func(n int) []string {
		var l []string
		for _, s := range seq[:n] {
			l = append(l, s.name)
		}
		return l
	}
	for i, s := range seq {
		apply(f, m, s, salt+i, a.Response)
		if what := bodyState(f, m, a.Response); what != "" {
			c.Violation(fmt.Sprintf("mutators/body/%s/after=%s", what, strings.SplitN(s.name, "(", 2)[0]+argClass(s)),
				seqDetail{cs.Kind, a.Version.String(), names(i + 1), what, fmt.Sprintf("%#02x", byte(f.Header.Flags)), "", c.Seed, ""})
			return
		}
		if want := expectedFlags(m, op); f.Header.Flags != want {
			c.Violation(fmt.Sprintf("mutators/flags/after=%s/%s", strings.SplitN(s.name, "(", 2)[0]+argClass(s), dirOf(a)),
				seqDetail{cs.Kind, a.Version.String(), names(i + 1), "header flags do not reflect the optional body parts present", fmt.Sprintf("%#02x", byte(f.Header.Flags)), fmt.Sprintf("%#02x", byte(want)), c.Seed, ""})
			return
		}
		if midEncode && (salt+i)%2 == 0 {
			// the frame is sent (or measured) in the middle of the sequence and mutated again afterwards:
			// nothing of that encode may stick to the frame
			_ = codec.EncodeFrame(f, io.Discard)
			c.Count("encodes_between_mutators", 1)
		}
	}
	if flagsOnly {
		c.Count("flag_only_sequences_ok", 1)
		c.Distinct(fmt.Sprintf("%s|%v|flags-only|%d|%#02x", cs.Kind, a.Version, len(seq), byte(f.Header.Flags)))
		if len(m.payload) > 0 || len(m.warnings) > 0 {
			// this version cannot express what the frame now holds: the encoder refuses it. If it does NOT
			// refuse, what it emits must still decode to the frame (checked below like any other sequence)
			if err := codec.EncodeFrame(f, io.Discard); err != nil {
				c.Count("flag_only_sequences_refused_by_the_encoder", 1)
				return
			}
			c.Count("flag_only_sequences_accepted_by_the_encoder", 1)
		}
	}
	// the expected abstract frame
	exp := *a
	exp.TraceRequested, exp.TracingID, exp.Warnings, exp.Payload = false, nil, nil, nil
	if m.tracing {
		if a.Response {
			id := [16]byte(*m.id)
			exp.TracingID = &id
		} else {
			exp.TraceRequested = true
		}
	}
	if len(m.warnings) > 0 {
		w := append([]string{}, m.warnings...)
		exp.Warnings = &w
	}
	if len(m.payload) > 0 {
		p := []ref.KBytes{}
		for k, v := range m.payload {
			kb := ref.KBytes{K: k}
			if v == nil {
				kb.V = ref.NullBytes
			} else {
				kb.V = ref.B(v)
			}
			p = append(p, kb)
		}
		exp.Payload = &p
	}
	ref.Norm(&exp)
	var buf bytes.Buffer
	if err := codec.EncodeFrame(f, &buf); err != nil {
		c.Violation("mutators/encode-error/"+errClass(err), seqDetail{cs.Kind, a.Version.String(), names(len(seq)), err.Error(), "", "", c.Seed, ""})
		return
	}
	b := buf.Bytes()
	hl := a.Version.HeaderLen()
	if declared := int(int32(binary.BigEndian.Uint32(b[hl-4 : hl]))); declared != len(b)-hl {
		c.Violation("mutators/declared-length/"+dirOf(a), seqDetail{cs.Kind, a.Version.String(), names(len(seq)), fmt.Sprintf("declared %d, emitted %d", declared, len(b)-hl), "", "", c.Seed, hexCap(b)})
		return
	}
	f2, err := codec.DecodeFrame(bytes.NewReader(b))
	if err != nil {
		c.Violation("mutators/decode-error/"+errClass(err), seqDetail{cs.Kind, a.Version.String(), names(len(seq)), err.Error(), "", "", c.Seed, hexCap(b)})
		return
	}
	got, fl, err := bridge.FromLib(f2)
	if err != nil || !ref.Equal(&exp, got) || primitive.HeaderFlag(fl) != expectedFlags(m, op) {
		c.Violation("mutators/roundtrip/"+cs.Kind+"/"+a.Version.String(), seqDetail{cs.Kind, a.Version.String(), names(len(seq)),
			fmt.Sprintf("%v %s", err, ref.Diff(&exp, got)), fmt.Sprintf("%#02x", fl), fmt.Sprintf("%#02x", byte(expectedFlags(m, op))), c.Seed, hexCap(b)})
		return
	}
	c.Count("mutator_sequences_ok", 1)
	sig := cs.Kind + "|" + a.Version.String()
	for _, s := range seq {
		sig += "|" + s.name
	}
	if len(seq) <= 4 {
		c.Distinct(sig)
	} else {
		c.Distinct(fmt.Sprintf("%s|%v|long|%d|%#02x", cs.Kind, a.Version, len(seq), fl))
	}
	if c.WantSample() && len(seq) >= 3 && len(b) < 200 {
		c.Sample(map[string]interface{}{"kind": cs.Kind, "version": a.Version.String(), "steps": names(len(seq)), "final_flags": fmt.Sprintf("%#02x", fl), "bytes": hex.EncodeToString(b)})
	}
}

func argClass(s step) string {
	return fmt.Sprintf("/arg=%d", s.arg)
}

func dirOf(a *ref.Frame) string {
	if a.Response {
		return "response"
	}
	return "request"
}

func hexCap(b []byte) string {
	if len(b) > 600 {
		return hex.EncodeToString(b[:600]) + "..."
	}
	return hex.EncodeToString(b)
}

func errClass(err error) string {
	s := err.Error()
	out := make([]byte, 0, 70)
	for i := 0; i < len(s) && len(out) < 70; i++ {
		ch := s[i]
		switch {
		case ch >= '0' && ch <= '9':
			if len(out) == 0 || out[len(out)-1] != '#' {
				out = append(out, '#')
			}
		case ch == ' ':
			out = append(out, '_')
		case ch > 0x20 && ch < 0x7f:
			out = append(out, ch)
		}
	}
	return string(out)
}

func run(c *mon.Ctx) {
	c.Rule = "frame mutators: every sequence up to depth 3 (quick) / 4 (thorough) over the applicable steps {SetCustomPayload(nil|empty|1|3), SetWarnings(nil|empty|1|3), tracing off|on (SetTracingId on responses, RequestTracingId on requests), SetCompress(false|true)} on one small frame per (message kind, version), plus PRNG sequences of length <= 50; STARTUP: every sequence up to depth 3 / 4 over 7 accessor pairs with 2-3 argument values each plus PRNG sequences with arbitrary strings; distinct = distinct (kind, version, step sequence) resp. distinct accessor sequences"
	c.Assume("internal/bridge FromLib/ToLib; STARTUP accessors are judged against their own getter and against the Options map diff, not against key names")
	depth := c.Pick(3, 4)
	type pair struct {
		k *gen.Kind
		v ref.Version
	}
	var pairs []pair
	for i := range gen.Kinds {
		for _, v := range ref.Versions {
			if gen.Kinds[i].Defined(v) {
				pairs = append(pairs, pair{&gen.Kinds[i], v})
			}
		}
	}
	mon.Parallel(len(pairs), func(pi int) {
		k, v := pairs[pi].k, pairs[pi].v
		var cs gen.Case
		for try := 0; ; try++ { // a small frame of that kind
			r := mon.NewRand(c.Seed, 0xC20<<32|uint64(pi)<<8|uint64(try))
			cs = gen.Frame(k, v, gen.NewRandChooser(r), r, false, 0)
			if b, err := ref.EncodeFrame(cs.Frame, ref.EncOpts{}); err == nil && len(b) < 400 || try > 50 {
				break
			}
		}
		steps := stepsFor(v, k.Response)
		// exhaustive sequences up to depth
		idx := make([]int, 0, depth)
		var rec func()
		rec = func() {
			if len(idx) > 0 {
				seq := make([]step, len(idx))
				for i, j := range idx {
					seq[i] = steps[j]
				}
				runSeq(c, cs, seq, len(idx), false, false)
			}
			if len(idx) == depth {
				return
			}
			for j := range steps {
				idx = append(idx, j)
				rec()
				idx = idx[:len(idx)-1]
			}
		}
		rec()
		// PRNG long sequences
		n := c.Pick(400, 8000)
		for i := 0; i < n; i++ {
			r := mon.NewRand(c.Seed, 0xC21<<32|uint64(pi)<<16|uint64(i))
			seq := make([]step, 5+r.Intn(46))
			for j := range seq {
				seq[j] = steps[r.Intn(len(steps))]
			}
			runSeq(c, cs, seq, r.Intn(50), i%2 == 1, false)
		}
		// versions without custom payloads and warnings (v2, v3): the mutators are still callable; such a
		// frame is not version-valid any more (the encoder may refuse it), but the flags must still say
		// what the body holds after every step
		if !v.HasPayloadAndWarnings() {
			var all []step
			for _, st := range allSteps {
				if (st.kind == 'W' && !k.Response) || (st.kind == 'I' && k.Response) {
					continue
				}
				all = append(all, st)
			}
			for i := 0; i < n/4; i++ {
				r := mon.NewRand(c.Seed, 0xC22<<32|uint64(pi)<<16|uint64(i))
				seq := make([]step, 1+r.Intn(8))
				for j := range seq {
					seq[j] = all[r.Intn(len(all))]
				}
				runSeq(c, cs, seq, r.Intn(50), false, true)
			}
		}
	})
	c.Set("kind_version_pairs", len(pairs))
	c.Set("mutator_sequence_depth_exhaustive", depth)
	startup(c)
}

// ---- STARTUP accessors -----------------------------------------------------------------------------

type accessor struct {
	name string
	set  func(m *message.Startup, v string)
	get  func(m *message.Startup) string
	// def is what the getter returns before the setter was ever called
	def string
	// norm maps a setter argument to what the getter must return afterwards
	norm func(v string) string
}

func id(v string) string { return v }

func boolNorm(v string) string {
	if v == "true" {
		return "true"
	}
	return "false"
}

var accessors = []accessor{
	{"Compression", func(m *message.Startup, v string) { m.SetCompression(primitive.Compression(v)) }, func(m *message.Startup) string { return string(m.GetCompression()) }, "NONE", id},
	{"ClientId", (*message.Startup).SetClientId, (*message.Startup).GetClientId, "", id},
	{"ApplicationName", (*message.Startup).SetApplicationName, (*message.Startup).GetApplicationName, "", id},
	{"ApplicationVersion", (*message.Startup).SetApplicationVersion, (*message.Startup).GetApplicationVersion, "", id},
	{"DriverName", (*message.Startup).SetDriverName, (*message.Startup).GetDriverName, "", id},
	{"DriverVersion", (*message.Startup).SetDriverVersion, (*message.Startup).GetDriverVersion, "", id},
	{"ThrowOnOverload", func(m *message.Startup, v string) { m.SetThrowOnOverload(v == "true") }, func(m *message.Startup) string { return fmt.Sprint(m.IsThrowOnOverload()) }, "false", boolNorm},
}

type call struct {
	acc int
	arg string
}

func argsFor(acc int) []string {
	switch accessors[acc].name {
	case "Compression":
		return []string{"NONE", "LZ4", ""}
	case "ThrowOnOverload":
		return []string{"true", "false"}
	}
	return []string{"v1", "1"}
}

func copyMap(m map[string]string) map[string]string {
	o := map[string]string{}
	for k, v := range m {
		o[k] = v
	}
	return o
}

func diffKeys(a, b map[string]string) []string {
	var out []string
	for k, v := range a {
		if w, ok := b[k]; !ok || w != v {
			out = append(out, k)
		}
	}
	for k := range b {
		if _, ok := a[k]; !ok {
			out = append(out, k)
		}
	}
	sort.Strings(out)
	return out
}

func runStartupSeq(c *mon.Ctx, seq []call) {
	m := message.NewStartup()
	expect := make([]string, len(accessors))
	for i, a := range accessors {
		expect[i] = a.def
	}
	owner := map[string]int{} // options key -> the accessor that writes it
	c.Eval(1)
	var trace []string
	for _, cl := range seq {
		a := accessors[cl.acc]
		before := copyMap(m.Options)
		a.set(m, cl.arg)
		expect[cl.acc] = a.norm(cl.arg)
		trace = append(trace, fmt.Sprintf("Set%s(%q)", a.name, cl.arg))
		det := func(what string) map[string]interface{} {
			return map[string]interface{}{"calls": trace, "what": what, "options_before": before, "options_after": copyMap(m.Options), "seed": c.Seed}
		}
		// (1) every getter returns what its setter last stored
		for i, b := range accessors {
			if got := b.get(m); got != expect[i] {
				if i == cl.acc {
					c.Violation("startup/"+a.name+"/getter-does-not-return-what-the-setter-stored", det(fmt.Sprintf("Get%s() = %q, want %q", b.name, got, expect[i])))
				} else {
					c.Violation("startup/"+a.name+"/setter-changed-"+b.name, det(fmt.Sprintf("after Set%s, Get%s() = %q, want %q", a.name, b.name, got, expect[i])))
				}
				return
			}
		}
		// (2) a setter changes no key but its own
		changed := diffKeys(before, m.Options)
		if len(changed) > 1 {
			c.Violation("startup/"+a.name+"/setter-changed-several-options", det(fmt.Sprintf("changed keys %v", changed)))
			return
		}
		for _, k := range changed {
			if o, ok := owner[k]; ok && o != cl.acc {
				c.Violation("startup/"+a.name+"/writes-the-option-of-"+accessors[o].name, det(fmt.Sprintf("key %q is also written by Set%s", k, accessors[o].name)))
				return
			}
			owner[k] = cl.acc
		}
	}
	// the message still encodes and round-trips with exactly these options
	var buf bytes.Buffer
	mc := startupCodec()
	if err := mc.Encode(m, &buf, primitive.ProtocolVersion4); err != nil {
		c.Violation("startup/encode-error", map[string]interface{}{"calls": trace, "error": err.Error()})
		return
	}
	back, err := mc.Decode(bytes.NewReader(buf.Bytes()), primitive.ProtocolVersion4)
	if err != nil || len(diffKeys(back.(*message.Startup).Options, m.Options)) != 0 {
		c.Violation("startup/roundtrip", map[string]interface{}{"calls": trace, "error": fmt.Sprint(err)})
		return
	}
	c.Count("startup_sequences_ok", 1)
	if len(seq) <= 4 {
		c.Distinct("startup|" + strings.Join(trace, "|"))
	} else {
		c.Distinct(fmt.Sprintf("startup|long|%d|%s", len(seq), trace[len(trace)-1]))
	}
	if c.WantSample() && len(seq) == 3 {
		c.Sample(map[string]interface{}{"startup_calls": trace, "options": copyMap(m.Options)})
	}
}

func startupCodec() message.Codec {
	for _, mc := range message.DefaultMessageCodecs {
		if mc.GetOpCode() == primitive.OpCodeStartup {
			return mc
		}
	}
	return nil
}

func startup(c *mon.Ctx) {
	var alphabet []call
	for i := range accessors {
		for _, a := range argsFor(i) {
			alphabet = append(alphabet, call{i, a})
		}
	}
	depth := c.Pick(3, 4)
	var seqs [][]call
	var rec func(cur []call)
	rec = func(cur []call) {
		if len(cur) > 0 {
			seqs = append(seqs, append([]call{}, cur...))
		}
		if len(cur) == depth {
			return
		}
		for _, a := range alphabet {
			rec(append(cur, a))
		}
	}
	rec(nil)
	mon.Parallel(len(seqs), func(i int) { runStartupSeq(c, seqs[i]) })
	n := c.Pick(100000, 2000000)
	pool := []string{"", "1", "0", "true", "false", "NONE", "LZ4", "snappy", "système", "a\x00b", strings.Repeat("x", 300), "DRIVER_VERSION", "THROW_ON_OVERLOAD"}
	mon.Parallel(n, func(i int) {
		r := mon.NewRand(c.Seed, 0xC22<<32|uint64(i))
		seq := make([]call, 1+r.Intn(30))
		for j := range seq {
			acc := r.Intn(len(accessors))
			var arg string
			switch accessors[acc].name {
			case "ThrowOnOverload":
				arg = []string{"true", "false"}[r.Intn(2)]
			case "Compression":
				arg = []string{"NONE", "LZ4", "SNAPPY", "", "lz4", "none", "zstd", "a\x00b"}[r.Intn(8)]
			default:
				arg = pool[r.Intn(len(pool))]
			}
			seq[j] = call{acc, arg}
		}
		runStartupSeq(c, seq)
	})
	c.Set("startup_alphabet", len(alphabet))
	c.Set("startup_sequences_exhaustive_depth", depth)
	c.Set("startup_sequences_enumerated", len(seqs))
}
