package main

// The arbitrary-precision judge: what number does a Go value denote (for a given CQL type), what
// number do wire bytes denote (reference deserializer), and how do two numbers differ.

import (
	"fmt"
	"math"
	"math/big"
	"reflect"
	"regexp"
	"time"

	"github.com/datastax/go-cassandra-native-protocol/datacodec"
)

const (
	kFin = iota // finite rational
	kInf
	kNaN
)

// mval is one mathematical value: an exact rational, +-Inf or NaN.
type mval struct {
	kind int
	r    *big.Rat
	neg  bool // sign of Inf; sign of a floating-point zero
}

func finInt(v *big.Int) mval { return mval{kind: kFin, r: new(big.Rat).SetInt(v)} }
func finI64(v int64) mval    { return mval{kind: kFin, r: new(big.Rat).SetInt64(v)} }

func fromF64(f float64) mval {
	switch {
	case math.IsNaN(f):
		return mval{kind: kNaN}
	case math.IsInf(f, 0):
		return mval{kind: kInf, neg: f < 0}
	}
	return mval{kind: kFin, r: new(big.Rat).SetFloat64(f), neg: math.Signbit(f)}
}

func (m mval) String() string {
	switch m.kind {
	case kNaN:
		return "NaN"
	case kInf:
		if m.neg {
			return "-Inf"
		}
		return "+Inf"
	}
	if m.r.IsInt() {
		s := m.r.Num().String()
		if m.r.Sign() == 0 && m.neg {
			return "-0"
		}
		return s
	}
	// exact binary rationals have a power-of-two denominator: print num/2^k
	return fmt.Sprintf("%s/2^%d", m.r.Num().String(), m.r.Denom().BitLen()-1)
}

func (m mval) equal(o mval) bool {
	if m.kind != o.kind {
		return false
	}
	switch m.kind {
	case kNaN:
		return true
	case kInf:
		return m.neg == o.neg
	}
	return m.r.Cmp(o.r) == 0
}

func (m mval) isInt() bool { return m.kind == kFin && m.r.IsInt() }

// bucket: a coarse signature of the magnitude (sign + bit length) for the distinct-case measure.
func (m mval) bucket() string {
	switch m.kind {
	case kNaN:
		return "nan"
	case kInf:
		return "inf"
	}
	s := "+"
	if m.r.Sign() < 0 {
		s = "-"
	}
	if !m.r.IsInt() {
		return s + "frac"
	}
	return fmt.Sprintf("%s%d", s, m.r.Num().BitLen())
}

// ---------------------------------------------------------------------------------------------
// CQL side

const (
	kFixed = iota
	kVarint
	kDate
	kF32
	kF64
	kDur
)

const (
	semPlain = iota
	semDate
	semTime
	semTimestamp
)

// Default layouts of the Date / Time / Timestamp codecs as documented in datacodec/doc.go.
const (
	layoutDate      = "2006-01-02"
	layoutTime      = "15:04:05.999999999"
	layoutTimestamp = "2006-01-02T15:04:05.999999999-07:00"
)

type cql struct {
	name  string
	codec datacodec.Codec
	kind  int
	width int // kFixed
	sem   int
	lo    *big.Int // integer kinds: value range
	hi    *big.Int
	comps []string // component names (duration)
}

// wireValue: the value(s) denoted by bytes under the reference deserializer; ok == false when the
// bytes denote no value of this type (empty = NULL, wrong width, trailing bytes).
func (t *cql) wireValue(b []byte) ([]mval, bool) {
	switch t.kind {
	case kFixed:
		if v, ok := deserFixed(b, t.width); ok {
			return []mval{finInt(v)}, true
		}
	case kVarint:
		if v, ok := deserVarint(b); ok {
			return []mval{finInt(v)}, true
		}
	case kDate:
		if v, ok := deserDate(b); ok {
			return []mval{finInt(v)}, true
		}
	case kF32:
		if len(b) == 4 {
			bits := uint32(b[0])<<24 | uint32(b[1])<<16 | uint32(b[2])<<8 | uint32(b[3])
			return []mval{fromF64(float64(math.Float32frombits(bits)))}, true
		}
	case kF64:
		if len(b) == 8 {
			var bits uint64
			for _, x := range b {
				bits = bits<<8 | uint64(x)
			}
			return []mval{fromF64(math.Float64frombits(bits))}, true
		}
	case kDur:
		if v, ok := deserDuration(b); ok {
			return []mval{finI64(v[0]), finI64(v[1]), finI64(v[2])}, true
		}
	}
	return nil, false
}

// ---------------------------------------------------------------------------------------------
// Go side

const (
	exOK       = iota
	exUnjudged // the Go value does not denote a number the judge is sure about
	exNil
)

var decimalRe = regexp.MustCompile(`^[+-]?[0-9]+$`)
var scientificRe = regexp.MustCompile(`^[+-]?[0-9]+(\.[0-9]*)?([eE][+-]?[0-9]{1,3})?$`)

func floorDivBig(a *big.Int, b int64) (q, m *big.Int) {
	q, m = new(big.Int).DivMod(a, big.NewInt(b), new(big.Int)) // Euclidean; b > 0 => floor
	return
}

// timeValue: the number a time.Time denotes for a date / time / timestamp column, as doc.go defines
// it (date: day of the UTC instant; time: nanoseconds since UTC midnight; timestamp: milliseconds
// since the epoch). subUnit reports that the instant has a finer part the CQL type cannot carry
// (documented truncation: not judged, counted).
func timeValue(x time.Time, sem int) (v mval, subUnit bool, ok bool) {
	sec := big.NewInt(x.Unix())
	ns := int64(x.Nanosecond())
	switch sem {
	case semDate:
		q, m := floorDivBig(sec, 86400)
		return finInt(q), m.Sign() != 0 || ns != 0, true
	case semTime:
		_, m := floorDivBig(sec, 86400)
		n := new(big.Int).Mul(m, big.NewInt(1_000_000_000))
		n.Add(n, big.NewInt(ns))
		// The standard library's own clock arithmetic (Hour/Minute/Second use a uint64 count of
		// seconds from year -292277022399) wraps for instants before that year and then disagrees
		// with Unix(). Where the trusted basis contradicts itself the judge abstains.
		u := x.UTC()
		if clock := int64(u.Hour())*3600 + int64(u.Minute())*60 + int64(u.Second()); clock != m.Int64() {
			return mval{}, false, false
		}
		return finInt(n), false, true
	case semTimestamp:
		ms := new(big.Int).Mul(sec, big.NewInt(1000))
		ms.Add(ms, big.NewInt(ns/1_000_000)) // ns >= 0: floor
		return finInt(ms), ns%1_000_000 != 0, true
	}
	return mval{}, false, false
}

// extract: the mathematical value(s) held by *p (p is a pointer to a leaf Go type).
func extract(p interface{}, t *cql) (vals []mval, subUnit bool, status int) {
	one := func(m mval) ([]mval, bool, int) { return []mval{m}, false, exOK }
	switch x := p.(type) {
	case nil:
		return nil, false, exNil
	case *int:
		return one(finI64(int64(*x)))
	case *int8:
		return one(finI64(int64(*x)))
	case *int16:
		return one(finI64(int64(*x)))
	case *int32:
		return one(finI64(int64(*x)))
	case *int64:
		return one(finI64(*x))
	case *time.Duration:
		return one(finI64(int64(*x)))
	case *uint:
		return one(finInt(new(big.Int).SetUint64(uint64(*x))))
	case *uint8:
		return one(finInt(new(big.Int).SetUint64(uint64(*x))))
	case *uint16:
		return one(finInt(new(big.Int).SetUint64(uint64(*x))))
	case *uint32:
		return one(finInt(new(big.Int).SetUint64(uint64(*x))))
	case *uint64:
		return one(finInt(new(big.Int).SetUint64(*x)))
	case *float32:
		return one(fromF64(float64(*x)))
	case *float64:
		return one(fromF64(*x))
	case *big.Int:
		if x == nil {
			return nil, false, exNil
		}
		return one(finInt(x))
	case *big.Float:
		if x == nil {
			return nil, false, exNil
		}
		if x.IsInf() {
			return one(mval{kind: kInf, neg: x.Signbit()})
		}
		r, _ := x.Rat(nil)
		return one(mval{kind: kFin, r: r, neg: x.Signbit()})
	case *time.Time:
		if v, sub, ok := timeValue(*x, t.sem); ok && t.kind != kDur && t.kind != kF32 && t.kind != kF64 {
			return []mval{v}, sub, exOK
		}
		return nil, false, exUnjudged
	case *string:
		switch {
		case t.kind == kF32 || t.kind == kF64 || t.kind == kDur:
			return nil, false, exUnjudged
		case t.sem == semPlain:
			if decimalRe.MatchString(*x) {
				v, ok := new(big.Int).SetString(*x, 10)
				if ok {
					return one(finInt(v))
				}
			}
			// decimal point and/or exponent: whatever the library makes of such a string (it may refuse it), the
			// number it denotes is not in doubt, and an accepted one must come out exactly
			if scientificRe.MatchString(*x) {
				if r, ok := new(big.Rat).SetString(*x); ok {
					return one(mval{kind: kFin, r: r, neg: r.Sign() < 0})
				}
			}
			return nil, false, exUnjudged
		default:
			layout := map[int]string{semDate: layoutDate, semTime: layoutTime, semTimestamp: layoutTimestamp}[t.sem]
			parsed, err := time.Parse(layout, *x)
			if err != nil {
				return nil, false, exUnjudged
			}
			v, sub, _ := timeValue(parsed, t.sem)
			return []mval{v}, sub, exOK
		}
	case *datacodec.CqlDuration:
		if t.kind == kDur {
			return []mval{finI64(int64(x.Months)), finI64(int64(x.Days)), finI64(int64(x.Nanos))}, false, exOK
		}
		return nil, false, exUnjudged
	}
	return nil, false, exUnjudged
}

// classify names the way got differs from exp. floaty: a floating-point type is involved.
func classify(exp, got mval, floaty bool) string {
	if exp.kind != kFin || got.kind != kFin {
		if floaty {
			return "rounded" // finite <-> Inf / NaN
		}
		return "wrapped"
	}
	se, sg := exp.r.Sign(), got.r.Sign()
	if se*sg < 0 {
		return "sign-changed"
	}
	if floaty || !exp.r.IsInt() || !got.r.IsInt() {
		return "rounded"
	}
	diff := new(big.Rat).Sub(got.r, exp.r)
	if diff.Abs(diff).Cmp(big.NewRat(1, 1)) <= 0 {
		return "rounded"
	}
	ae, ag := new(big.Rat).Abs(exp.r), new(big.Rat).Abs(got.r)
	if ag.Cmp(ae) < 0 {
		return "truncated" // high-order part dropped, sign kept
	}
	return "wrapped"
}

// fitsT: can CQL type t carry v exactly? (only used for the "unnecessary refusal" counters)
func (t *cql) fits(vals []mval) bool {
	switch t.kind {
	case kFixed, kVarint, kDate:
		return len(vals) == 1 && vals[0].isInt() && (t.lo == nil || (vals[0].r.Num().Cmp(t.lo) >= 0 && vals[0].r.Num().Cmp(t.hi) <= 0))
	case kF32:
		return len(vals) == 1 && fitsFloat(vals[0], 32)
	case kF64:
		return len(vals) == 1 && fitsFloat(vals[0], 64)
	case kDur:
		if len(vals) != 3 {
			return false
		}
		for i, v := range vals {
			bits := 31
			if i == 2 {
				bits = 63
			}
			if !fitsInt(v, bits, true) {
				return false
			}
		}
		return true
	}
	return false
}

func fitsInt(v mval, magBits int, signed bool) bool {
	if !v.isInt() {
		return false
	}
	n := v.r.Num()
	if n.Sign() < 0 {
		if !signed {
			return false
		}
		m := new(big.Int).Neg(n)
		m.Sub(m, bigOne)
		return m.BitLen() <= magBits
	}
	return n.BitLen() <= magBits
}

func fitsFloat(v mval, bits int) bool {
	if v.kind != kFin {
		return true
	}
	f := new(big.Float).SetPrec(2400) // wide enough for every binary rational generated here
	f.SetRat(v.r)
	if r, _ := f.Rat(nil); r.Cmp(v.r) != 0 {
		return false
	}
	if bits == 32 {
		_, acc := f.Float32()
		return acc == big.Exact
	}
	_, acc := f.Float64()
	return acc == big.Exact
}

// ---------------------------------------------------------------------------------------------
// stability of sources and destinations (independent of the numeric judge: bitwise / exact)

// snapshotLeaf deep-copies *p (p a pointer to a leaf type).
func snapshotLeaf(p interface{}) interface{} {
	switch x := p.(type) {
	case *big.Int:
		if x == nil {
			return (*big.Int)(nil)
		}
		return new(big.Int).Set(x)
	case *big.Float:
		if x == nil {
			return (*big.Float)(nil)
		}
		return new(big.Float).Copy(x)
	case nil:
		return nil
	}
	rv := reflect.ValueOf(p)
	if rv.Kind() != reflect.Ptr || rv.IsNil() {
		return p
	}
	np := reflect.New(rv.Elem().Type())
	np.Elem().Set(rv.Elem())
	return np.Interface()
}

// sameLeaf: do *a and *b hold the same value, bit for bit (floats by IEEE bits, big numbers by
// exact value, sign, precision; time.Time by instant and location name)?
func sameLeaf(a, b interface{}) bool {
	switch x := a.(type) {
	case *big.Int:
		y, ok := b.(*big.Int)
		if !ok || (x == nil) != (y == nil) {
			return false
		}
		return x == nil || x.Cmp(y) == 0
	case *big.Float:
		y, ok := b.(*big.Float)
		if !ok || (x == nil) != (y == nil) {
			return false
		}
		return x == nil || (x.Cmp(y) == 0 && x.Signbit() == y.Signbit() && x.Prec() == y.Prec() && x.IsInf() == y.IsInf())
	case *float32:
		y, ok := b.(*float32)
		return ok && math.Float32bits(*x) == math.Float32bits(*y)
	case *float64:
		y, ok := b.(*float64)
		return ok && math.Float64bits(*x) == math.Float64bits(*y)
	case *time.Time:
		y, ok := b.(*time.Time)
		return ok && x.Equal(*y) && x.Location().String() == y.Location().String()
	}
	return reflect.DeepEqual(a, b)
}

func describeLeaf(p interface{}) string {
	switch x := p.(type) {
	case *big.Int:
		if x == nil {
			return "<nil *big.Int>"
		}
		return x.String()
	case *big.Float:
		if x == nil {
			return "<nil *big.Float>"
		}
		return fmt.Sprintf("prec=%d %s", x.Prec(), x.Text('p', 0))
	case *float32:
		return fmt.Sprintf("float32 bits %08x", math.Float32bits(*x))
	case *float64:
		return fmt.Sprintf("float64 bits %016x", math.Float64bits(*x))
	case nil:
		return "<nil>"
	}
	rv := reflect.ValueOf(p)
	if rv.Kind() == reflect.Ptr && !rv.IsNil() {
		return fmt.Sprintf("%v", rv.Elem().Interface())
	}
	return fmt.Sprintf("%v", p)
}
