package main

// Value generators. Every value is a pure function of (seed, generator name, value index):
// indexes below nBound() enumerate the fixed boundary list, the others are PRNG values drawn over
// bit widths (so that all magnitudes occur, not only huge ones).

import (
	"fmt"
	"hash/fnv"
	"math"
	"math/big"
	"time"

	"github.com/datastax/go-cassandra-native-protocol/datacodec"

	"verif/internal/mon"
)

var bounds []*big.Int // boundary integers of every size, sorted by construction order, no duplicates

func init() {
	seen := map[string]bool{}
	add := func(v *big.Int) {
		if !seen[v.String()] {
			seen[v.String()] = true
			bounds = append(bounds, v)
		}
	}
	addI := func(v int64) { add(big.NewInt(v)) }
	for _, v := range []int64{0, 1, -1, 2, -2, 10, -10, 100, 1000, 85, 42} {
		addI(v)
	}
	// vint size boundaries: a zig-zag vint grows by one byte at |v| = 2^(7k-1) (64, 8192, 2^20, ...), an
	// unsigned one at 2^(7k)
	for _, k := range []uint{6, 13, 14, 20, 21, 27, 28, 34, 35, 41, 42, 48, 49, 55, 56, 62} {
		p := pow2(k)
		for _, d := range []int64{-1, 0, 1} {
			v := new(big.Int).Add(p, big.NewInt(d))
			add(v)
			add(new(big.Int).Neg(v))
		}
	}
	for _, k := range []uint{7, 8, 15, 16, 24, 31, 32, 53, 63, 64, 100, 127, 128} {
		p := pow2(k)
		for _, d := range []int64{-2, -1, 0, 1, 2} {
			v := new(big.Int).Add(p, big.NewInt(d))
			add(v)
			add(new(big.Int).Neg(v))
		}
	}
	// D6-style: small value carried on top of a multiple of 2^32 / 2^64
	for _, s := range []string{"4294967301", "-4294967301", "12884901883", "8589934597", "6442450949", "-6442450949",
		"18446744073709551621", "-18446744073709551621", "1099511627781"} {
		v, _ := new(big.Int).SetString(s, 10)
		add(v)
	}
	// time-of-day and calendar edges
	for _, v := range []int64{86399999999999, 86400000000000, -86399999999999, 86399, 86400, -86400, 43200000000000,
		-719528, -719529, -719162, 2932896, 2932897, 11016,
		9223372036854775, 9223372036854776, -9223372036854775, -9223372036854776,
		253402300799999, 253402300800000, -62167219200000, -62167219200001} {
		addI(v)
	}
}

func boundsIn(lo, hi *big.Int) []*big.Int {
	var out []*big.Int
	for _, b := range bounds {
		if (lo == nil || b.Cmp(lo) >= 0) && (hi == nil || b.Cmp(hi) <= 0) {
			out = append(out, b)
		}
	}
	return out
}

func stream(name string, vi int) uint64 {
	h := fnv.New64a()
	h.Write([]byte(name))
	return h.Sum64() ^ uint64(vi)*0x9E3779B97F4A7C15
}

// randBig: width w uniform in [0,maxBits], then a w-bit magnitude with its top bit set.
func randBig(r *mon.Rand, maxBits int, signed bool) *big.Int {
	w := r.Intn(maxBits + 1)
	if w == 0 {
		return new(big.Int)
	}
	b := r.Bytes((w + 7) / 8)
	v := new(big.Int).SetBytes(b)
	v.SetBit(v, w-1, 1)
	mask := new(big.Int).Sub(pow2(uint(w)), bigOne)
	v.And(v, mask)
	if signed && r.Bool() {
		v.Neg(v)
	}
	return v
}

func randBetween(r *mon.Rand, lo, hi int64) int64 {
	span := uint64(hi-lo) + 1
	return lo + int64(r.Uint64()%span)
}

// ---------------------------------------------------------------------------------------------
// floating-point lists

var (
	f64List []float64
	f32List []float32
	bfList  []*big.Float
)

func init() {
	mf32 := float64(math.MaxFloat32)
	mid := math.Float64frombits(math.Float64bits(mf32) + 1<<28) // halfway between MaxFloat32 and 2^128
	s32 := float64(math.SmallestNonzeroFloat32)
	minNorm32 := math.Ldexp(1, -126)
	base := []float64{0, math.Copysign(0, -1), 1, -1, 0.5, 1.5, -1.5, 0.1, float64(float32(0.1)), 1e3, 1e10, 1e38, 1e39, 1e-45, 1e-46,
		mf32, -mf32, math.Nextafter(mf32, math.Inf(1)), math.Nextafter(mf32, 0), mid, -mid, math.Nextafter(mid, 0), math.Nextafter(mid, math.Inf(1)),
		math.Ldexp(1, 128), math.Ldexp(1, 127), 16777216, 16777217, -16777217, 16777218, math.Ldexp(1, 53), math.Ldexp(1, 53) + 2, math.Ldexp(1, 53) - 1,
		math.Ldexp(1, 31), math.Ldexp(1, 31) - 1, -math.Ldexp(1, 31), math.Ldexp(1, 32), math.Ldexp(1, 63), -math.Ldexp(1, 63), math.Ldexp(1, 64),
		127, 128, -128, -129, 255, 256, 32767, 32768, 65535, 65536,
		s32, s32 / 2, s32 * 1.5, s32 * 2, -s32, math.Nextafter(s32, 0), math.Nextafter(s32, 1),
		minNorm32, math.Nextafter(minNorm32, 0), math.Nextafter(minNorm32, 1), minNorm32 - s32,
		math.SmallestNonzeroFloat64, -math.SmallestNonzeroFloat64, math.Ldexp(1, -1022), math.Nextafter(math.Ldexp(1, -1022), 0),
		math.MaxFloat64, -math.MaxFloat64, math.Inf(1), math.Inf(-1), math.NaN(),
		math.Float64frombits(0x7ff0000000000001), math.Float64frombits(0xfff8000000000123), math.Float64frombits(0x7fffffffffffffff)}
	f64List = base
	for _, b := range []uint32{0, 0x80000000, 0x3f800000, 0xbf800000, 0x7f7fffff, 0xff7fffff, 0x00000001, 0x80000001, 0x007fffff, 0x00800000,
		0x4b800000, 0x4b7fffff, 0x4f000000, 0xcf000000, 0x5f000000, 0x3dcccccd, 0x7f800000, 0xff800000, 0x7fc00000, 0x7f800001, 0xffc12345, 0x7fffffff} {
		f32List = append(f32List, math.Float32frombits(b))
	}
	for _, f := range f64List {
		if !math.IsNaN(f) {
			bfList = append(bfList, new(big.Float).SetFloat64(f))
		}
	}
	mk := func(prec uint, mant int64, exp int) *big.Float {
		return new(big.Float).SetPrec(prec).SetMantExp(new(big.Float).SetPrec(prec).SetInt64(mant), exp)
	}
	parse := func(prec uint, s string) *big.Float {
		f, _, err := big.ParseFloat(s, 10, prec, big.ToNearestEven)
		if err != nil {
			panic(err)
		}
		return f
	}
	two53p1 := new(big.Float).SetPrec(64).SetInt(new(big.Int).Add(pow2(53), bigOne))
	maxPlus := new(big.Float).SetPrec(100).SetFloat64(math.MaxFloat64)
	maxPlus.Add(maxPlus, mk(100, 1, 970)) // MaxFloat64 + half an ulp: not a float64
	bfList = append(bfList,
		two53p1, new(big.Float).Neg(two53p1),
		mk(53, 1, 1024), mk(53, -1, 1024), mk(53, 1, 2000), maxPlus,
		mk(53, 1, -1074), mk(53, 1, -1075), mk(53, 3, -1075), mk(53, 1, -1080), mk(53, -1, -2000),
		parse(100, "0.1"), parse(200, "0.333333333333333333333333333333333333333333333"), parse(24, "0.1"), parse(10, "1000.5"),
		new(big.Float).SetInf(false), new(big.Float).SetInf(true), new(big.Float).Neg(new(big.Float)),
		new(big.Float).SetPrec(64).SetInt(new(big.Int).Sub(pow2(64), bigOne)), new(big.Float).SetPrec(128).SetInt(new(big.Int).Add(pow2(100), bigOne)),
		new(big.Float), // prec 0 zero value
	)
}

// ---------------------------------------------------------------------------------------------
// Go leaf types

const (
	lInt = iota
	lUint
	lF32
	lF64
	lString
	lBigInt
	lBigFloat
	lTime
	lCqlDur
)

type leaf struct {
	name   string
	kind   int
	bits   int // lInt / lUint: magnitude bits of the largest value
	signed bool
	bnd    []*big.Int
}

var leaves = []*leaf{
	{name: "int", kind: lInt, bits: 63, signed: true},
	{name: "int8", kind: lInt, bits: 7, signed: true},
	{name: "int16", kind: lInt, bits: 15, signed: true},
	{name: "int32", kind: lInt, bits: 31, signed: true},
	{name: "int64", kind: lInt, bits: 63, signed: true},
	{name: "uint", kind: lUint, bits: 64},
	{name: "uint8", kind: lUint, bits: 8},
	{name: "uint16", kind: lUint, bits: 16},
	{name: "uint32", kind: lUint, bits: 32},
	{name: "uint64", kind: lUint, bits: 64},
	{name: "float32", kind: lF32},
	{name: "float64", kind: lF64},
	{name: "string", kind: lString},
	{name: "big.Int", kind: lBigInt},
	{name: "big.Float", kind: lBigFloat},
	{name: "time.Time", kind: lTime},
	{name: "time.Duration", kind: lInt, bits: 63, signed: true},
	{name: "CqlDuration", kind: lCqlDur},
}

func init() {
	for _, l := range leaves {
		switch l.kind {
		case lInt:
			l.bnd = boundsIn(new(big.Int).Neg(pow2(uint(l.bits))), new(big.Int).Sub(pow2(uint(l.bits)), bigOne))
		case lUint:
			l.bnd = boundsIn(new(big.Int), new(big.Int).Sub(pow2(uint(l.bits)), bigOne))
		case lBigInt:
			l.bnd = bounds
		}
	}
}

func makeInt(name string, v *big.Int) interface{} {
	switch name {
	case "int":
		x := int(v.Int64())
		return &x
	case "int8":
		x := int8(v.Int64())
		return &x
	case "int16":
		x := int16(v.Int64())
		return &x
	case "int32":
		x := int32(v.Int64())
		return &x
	case "int64":
		x := v.Int64()
		return &x
	case "time.Duration":
		x := time.Duration(v.Int64())
		return &x
	case "uint":
		x := uint(v.Uint64())
		return &x
	case "uint8":
		x := uint8(v.Uint64())
		return &x
	case "uint16":
		x := uint16(v.Uint64())
		return &x
	case "uint32":
		x := uint32(v.Uint64())
		return &x
	case "uint64":
		x := v.Uint64()
		return &x
	}
	panic("makeInt " + name)
}

// sentinel: a freshly allocated, pre-filled destination (pointer to the leaf type).
func (l *leaf) sentinel(alt bool) interface{} {
	n := int64(85)
	f := 85.25
	if alt {
		n, f = 42, 42.25
	}
	switch l.kind {
	case lInt, lUint:
		return makeInt(l.name, big.NewInt(n))
	case lF32:
		x := float32(f)
		return &x
	case lF64:
		x := f
		return &x
	case lString:
		x := fmt.Sprintf("sentinel-%d", n)
		return &x
	case lBigInt:
		return big.NewInt(n)
	case lBigFloat:
		return big.NewFloat(f)
	case lTime:
		x := time.Unix(1234567890+n, 123456789).UTC()
		return &x
	case lCqlDur:
		return &datacodec.CqlDuration{Months: int32(n), Days: int32(n), Nanos: time.Duration(n)}
	}
	panic("sentinel")
}

// critical seconds for time.Time sources: int64-millisecond limits, int32-day limits, calendar edges
var (
	critSecs  []int64
	otherSecs []int64
	nsList    = []int64{0, 1, 499_999, 999_999, 1_000_000, 191_000_000, 191_999_999, 192_000_000, 500_000_000, 807_000_000, 807_999_999, 808_000_000, 999_999_999}
	zones     = []*time.Location{time.UTC, time.FixedZone("p14", 14*3600), time.FixedZone("m12", -12*3600), time.FixedZone("p0530", 5*3600+1800)}
)

func init() {
	day := int64(86400)
	for _, s := range []int64{9223372036854775, 9223372036854776, 9223372036854774, -9223372036854775, -9223372036854776, -9223372036854777,
		(1 << 31) * day, (1<<31)*day - 1, (1<<31)*day + 1, ((1 << 31) - 1) * day, -(1 << 31) * day, -(1<<31)*day - 1, -(1<<31)*day + 1, (-(1 << 31) - 1) * day,
		(1 << 32) * day, (1<<32)*day - 1, -(1 << 32) * day, ((1 << 32) + 5) * day, ((1 << 33) + (1 << 31) + 7) * day,
		0, -1, 1, 86399, 86400, -86400, -86401} {
		critSecs = append(critSecs, s)
	}
	for _, b := range boundsIn(new(big.Int).Neg(pow2(63)), new(big.Int).Sub(pow2(63), bigOne)) {
		otherSecs = append(otherSecs, b.Int64())
	}
	otherSecs = append(otherSecs, -62135596800, -62135596801, -62167219200, -62167219201, 253402300799, 253402300800, 951782400, 4107542400)
}

func (l *leaf) nBound(t *cql) int {
	switch l.kind {
	case lInt, lUint, lBigInt:
		return len(l.bnd)
	case lF32:
		return len(f32List)
	case lF64:
		return len(f64List)
	case lBigFloat:
		return len(bfList)
	case lString:
		return len(t.strBounds())
	case lTime:
		return len(critSecs)*len(nsList) + len(otherSecs)*3
	case lCqlDur:
		return len(durBounds())
	}
	return 0
}

// gen returns a pointer to fresh storage of the leaf type holding value number vi, and a
// printable description.
func (l *leaf) gen(t *cql, vi int, seed int64) (p interface{}, desc string) {
	nb := l.nBound(t)
	var r *mon.Rand
	if vi >= nb {
		r = mon.NewRand(seed, stream("go/"+l.name+"/"+t.name, vi))
	}
	switch l.kind {
	case lInt, lUint:
		var v *big.Int
		if vi < nb {
			v = l.bnd[vi]
		} else {
			v = randBig(r, l.bits, l.signed)
		}
		return makeInt(l.name, v), v.String()
	case lBigInt:
		var v *big.Int
		if vi < nb {
			v = new(big.Int).Set(l.bnd[vi])
		} else {
			v = randBig(r, 130, true)
		}
		return v, v.String()
	case lF32:
		var x float32
		if vi < nb {
			x = f32List[vi]
		} else if r.Intn(8) == 0 {
			x = float32(randBig(r, 40, true).Int64())
		} else {
			x = math.Float32frombits(uint32(r.Uint64()))
		}
		return &x, fmt.Sprintf("float32 bits %08x (%v)", math.Float32bits(x), x)
	case lF64:
		var x float64
		if vi < nb {
			x = f64List[vi]
		} else {
			switch r.Intn(8) {
			case 0, 1:
				x = float64(math.Float32frombits(uint32(r.Uint64()))) // representable as float32
			case 2:
				x = float64(randBig(r, 63, true).Int64())
			case 3: // a float32-representable value disturbed in the low mantissa bits
				x = math.Float64frombits(math.Float64bits(float64(math.Float32frombits(uint32(r.Uint64())))) ^ uint64(1)<<uint(r.Intn(29)))
			default:
				x = math.Float64frombits(r.Uint64())
			}
		}
		return &x, fmt.Sprintf("float64 bits %016x (%v)", math.Float64bits(x), x)
	case lBigFloat:
		var x *big.Float
		if vi < nb {
			x = new(big.Float).Copy(bfList[vi])
		} else {
			switch r.Intn(4) {
			case 0, 1:
				f := math.Float64frombits(r.Uint64())
				for math.IsNaN(f) {
					f = math.Float64frombits(r.Uint64())
				}
				x = new(big.Float).SetFloat64(f)
			case 2: // 80-bit mantissa, exponent over and beyond the float64 range
				m := new(big.Float).SetPrec(80).SetInt(randBig(r, 80, true))
				x = new(big.Float).SetPrec(80).SetMantExp(m, r.Intn(2400)-1250)
			default: // integer
				v := randBig(r, 70, true)
				x = new(big.Float).SetPrec(80).SetInt(v)
			}
		}
		return x, fmt.Sprintf("big.Float prec=%d %s", x.Prec(), x.Text('p', 0))
	case lString:
		var s string
		if vi < nb {
			s = t.strBounds()[vi]
		} else {
			s = t.randString(r)
		}
		return &s, fmt.Sprintf("%q", s)
	case lTime:
		var sec, ns int64
		var loc *time.Location
		switch {
		case vi < len(critSecs)*len(nsList):
			sec, ns = critSecs[vi/len(nsList)], nsList[vi%len(nsList)]
			loc = zones[vi%len(zones)]
		case vi < nb:
			j := vi - len(critSecs)*len(nsList)
			sec, ns = otherSecs[j/3], []int64{0, 1, 999_999_999}[j%3]
			loc = zones[j%len(zones)]
		default:
			if r.Bool() {
				sec = randBig(r, 63, true).Int64()
			} else {
				sec = randBig(r, 40, true).Int64() // calendar years within a few 10^4 of the epoch
			}
			ns = int64(r.Intn(1_000_000_000))
			if r.Intn(4) == 0 {
				ns = ns / 1_000_000 * 1_000_000
			}
			loc = zones[r.Intn(len(zones))]
		}
		x := time.Unix(sec, ns).In(loc)
		return &x, fmt.Sprintf("time.Unix(%d,%d) in %s", sec, ns, loc)
	case lCqlDur:
		var d [3]int64
		if vi < nb {
			d = durBounds()[vi]
		} else {
			d = [3]int64{randBig(r, 31, true).Int64(), randBig(r, 31, true).Int64(), randBig(r, 63, true).Int64()}
		}
		if d[0] < math.MinInt32 || d[0] > math.MaxInt32 || d[1] < math.MinInt32 || d[1] > math.MaxInt32 {
			d[0], d[1] = int64(int32(d[0])), int64(int32(d[1])) // source fields are int32: take any int32
		}
		x := datacodec.CqlDuration{Months: int32(d[0]), Days: int32(d[1]), Nanos: time.Duration(d[2])}
		return &x, fmt.Sprintf("CqlDuration{%d,%d,%d}", x.Months, x.Days, x.Nanos)
	}
	panic("gen")
}

var durBoundsCache [][3]int64

// durBounds: boundary triples for the duration wire value (each component any int64).
func durBounds() [][3]int64 {
	if durBoundsCache != nil {
		return durBoundsCache
	}
	var out [][3]int64
	for _, b := range boundsIn(new(big.Int).Neg(pow2(63)), new(big.Int).Sub(pow2(63), bigOne)) {
		v := b.Int64()
		out = append(out, [3]int64{v, 0, 0}, [3]int64{0, v, 0}, [3]int64{0, 0, v}, [3]int64{7, -9, v})
		if v >= math.MinInt32 && v <= math.MaxInt32 {
			out = append(out, [3]int64{v, v, v})
		} else {
			out = append(out, [3]int64{v, 3, 5}, [3]int64{3, v, 5})
		}
	}
	durBoundsCache = out
	return out
}

// ---------------------------------------------------------------------------------------------
// strings (sources only; what a string denotes is decided by extract)

var strCache = map[string][]string{}

func fmtDay(d int64) string { return time.Unix(d*86400, 0).UTC().Format(layoutDate) }
func fmtNanosOfDay(n int64) string {
	return time.Date(0, 1, 1, 0, 0, 0, 0, time.UTC).Add(time.Duration(n)).Format(layoutTime)
}

func (t *cql) strBounds() []string {
	if s, ok := strCache[t.name]; ok {
		return s
	}
	var out []string
	garbage := []string{"", " ", "-", "+", "--1", "+-1", "1e3", "1E3", "1e0", "0x10", "0b1", "0o7", "1_000", " 1", "1 ", "\t1", "1\n", "1.0", "1.", ".5",
		"٣", "１２", "NaN", "Inf", "-Inf", "nil", "0x", "1,000", "1 000", "-0", "+0", "0", "00", "-00", "+007", "-007",
		"1e30", "-1e20", "1e2", "1.5e1", "15e-1", "36893488147419103233.0", "-36893488147419103233.0", "12345678901234567890123e0",
		"9007199254740993.0", "100000000000000000000000000000000000e-5", "127.0", "128.0", "-129.000", "2147483648e0", "9223372036854775807.0", "9223372036854775808.0"}
	switch {
	case t.kind == kF32 || t.kind == kF64 || t.kind == kDur:
		out = append(out, "0", "1", "1.5", "-1", "NaN", "1e3", "")
	case t.sem == semPlain:
		for _, b := range bounds {
			out = append(out, b.String())
			if b.Sign() >= 0 {
				out = append(out, "+"+b.String(), "000"+b.String())
			} else {
				out = append(out, "-000"+b.String()[1:])
			}
		}
		out = append(out, garbage...)
		out = append(out, "99999999999999999999999999999999999999999999", "-99999999999999999999999999999999999999999999")
	case t.sem == semDate:
		for _, d := range []int64{-719528, -719529, -719162, -719163, -1, 0, 1, 58, 59, 11015, 11016, 2932896, 2932897, 19000, -25567, 1 << 31, -(1 << 31), (1 << 31) - 1} {
			out = append(out, fmtDay(d))
		}
		out = append(out, garbage...)
		out = append(out, "10000-01-01", "-0001-01-01", "1970-1-1", "1970-01-01T00:00:00Z", "1970-02-30", "1970-13-01", "5881580-07-11", "5881580-07-12", "-5877641-06-23")
	case t.sem == semTime:
		for _, n := range []int64{0, 1, 999, 1000, 999_999_999, 1_000_000_000, 3_599_999_999_999, 43_200_000_000_000, 86_399_999_999_999, 86_399_000_000_000, 123_456_789} {
			out = append(out, fmtNanosOfDay(n))
		}
		out = append(out, garbage...)
		out = append(out, "24:00:00", "23:59:60", "-01:00:00", "25:00:00", "12:00:00.1234567891", "12:00", "12:00:00,5", "00:00:00.000000000", "7:05:09")
	case t.sem == semTimestamp:
		for _, ms := range []int64{0, 1, -1, 999, 1000, -1000, 1600000000123, -62167219200000, -62167219200001, 253402300799999, 253402300800000, 951782400000, -86400001} {
			for zi, z := range zones {
				if zi > 1 && ms%7 != 0 && ms != 1600000000123 {
					continue
				}
				sec, rem := ms/1000, ms%1000
				if rem < 0 {
					sec, rem = sec-1, rem+1000
				}
				out = append(out, time.Unix(sec, rem*1_000_000).In(z).Format(layoutTimestamp))
			}
		}
		out = append(out, "2021-06-01T12:00:00.123456789+00:00", "2021-06-01T12:00:00.000999999+00:00", "1969-12-31T23:59:59.999999999+00:00",
			"1969-12-31T23:59:59.9995+00:00", "2021-06-01T12:00:00Z", "2021-06-01T12:00:00", "2021-06-01", "10000-01-01T00:00:00+00:00", "2021-06-01T12:00:00+99:00")
		out = append(out, garbage...)
	}
	strCache[t.name] = out
	return out
}

func (t *cql) randString(r *mon.Rand) string {
	switch {
	case t.kind == kF32 || t.kind == kF64 || t.kind == kDur:
		return fmt.Sprint(math.Float64frombits(r.Uint64()))
	case t.sem == semPlain:
		maxBits := 130
		if t.kind == kFixed {
			maxBits = 8*t.width + 6
		}
		v := randBig(r, maxBits, true)
		s := v.String()
		switch r.Intn(16) {
		case 0:
			if v.Sign() >= 0 {
				s = "+" + s
			}
		case 1:
			if v.Sign() >= 0 {
				s = "0000" + s
			} else {
				s = "-0000" + s[1:]
			}
		case 2:
			s = []string{" " + s, s + " ", s + "e0", s + ".0", "0x" + s, s + "_0"}[r.Intn(6)]
		}
		return s
	case t.sem == semDate:
		if r.Intn(8) == 0 {
			return fmtDay(randBig(r, 33, true).Int64())
		}
		return fmtDay(randBetween(r, -719528, 2932896))
	case t.sem == semTime:
		return fmtNanosOfDay(randBetween(r, 0, 86_399_999_999_999))
	default:
		sec := randBetween(r, -62167219200, 253402300799)
		ns := int64(r.Intn(1_000_000_000))
		if r.Bool() {
			ns = ns / 1_000_000 * 1_000_000
		}
		return time.Unix(sec, ns).In(zones[r.Intn(len(zones))]).Format(layoutTimestamp)
	}
}

// ---------------------------------------------------------------------------------------------
// CQL wire values (decode direction)

var (
	f32Bits []uint32
	f64Bits []uint64
)

func init() {
	for _, f := range f32List {
		f32Bits = append(f32Bits, math.Float32bits(f))
	}
	for _, f := range f64List {
		f64Bits = append(f64Bits, math.Float64bits(f))
	}
}

var tBoundCache = map[string][]*big.Int{}

func (t *cql) intBounds() []*big.Int {
	if b, ok := tBoundCache[t.name]; ok {
		return b
	}
	b := boundsIn(t.lo, t.hi)
	tBoundCache[t.name] = b
	return b
}

func (t *cql) nBound() int {
	switch t.kind {
	case kFixed, kVarint, kDate:
		return len(t.intBounds())
	case kF32:
		return len(f32Bits)
	case kF64:
		return len(f64Bits)
	case kDur:
		return len(durBounds())
	}
	return 0
}

// genWire: reference-serialized CQL value number vi.
func (t *cql) genWire(vi int, seed int64) (b []byte, desc string) {
	nb := t.nBound()
	var r *mon.Rand
	if vi >= nb {
		r = mon.NewRand(seed, stream("cql/"+t.name, vi))
	}
	switch t.kind {
	case kFixed, kVarint, kDate:
		var v *big.Int
		if vi < nb {
			v = t.intBounds()[vi]
		} else {
			switch {
			case t.kind == kVarint:
				v = randBig(r, 130, true)
			case t.sem == semTime && r.Intn(3) == 0:
				v = big.NewInt(randBetween(r, 0, 86_399_999_999_999))
			case t.sem == semTimestamp && r.Intn(3) == 0:
				v = big.NewInt(randBetween(r, -62167219200000, 253402300799999))
			case t.sem == semDate && r.Intn(2) == 0:
				v = big.NewInt(randBetween(r, -719528, 2932896))
			default:
				v = randBig(r, t.hi.BitLen(), true)
			}
		}
		var ok bool
		switch t.kind {
		case kFixed:
			b, ok = serFixed(v, t.width)
		case kDate:
			b, ok = serDate(v)
		default:
			pad := 0
			if r != nil && r.Intn(7) == 0 {
				pad = 1 + r.Intn(3)
			}
			b, ok = serVarint(v, pad), true
		}
		if !ok {
			panic(fmt.Sprintf("generator produced %s outside %s", v, t.name))
		}
		return b, v.String()
	case kF32:
		var bits uint32
		if vi < nb {
			bits = f32Bits[vi]
		} else {
			bits = uint32(r.Uint64())
		}
		return serF32(bits), fmt.Sprintf("float32 bits %08x (%v)", bits, math.Float32frombits(bits))
	case kF64:
		var bits uint64
		if vi < nb {
			bits = f64Bits[vi]
		} else {
			switch r.Intn(4) {
			case 0:
				bits = math.Float64bits(float64(math.Float32frombits(uint32(r.Uint64()))))
			case 1:
				bits = math.Float64bits(float64(math.Float32frombits(uint32(r.Uint64())))) ^ uint64(1)<<uint(r.Intn(29))
			default:
				bits = r.Uint64()
			}
		}
		return serF64(bits), fmt.Sprintf("float64 bits %016x (%v)", bits, math.Float64frombits(bits))
	case kDur:
		var d [3]int64
		var lens [3]int
		if vi < nb {
			d = durBounds()[vi]
		} else {
			for i := 0; i < 3; i++ {
				maxBits := 63
				if i < 2 && r.Intn(3) != 0 {
					maxBits = 31
				}
				d[i] = randBig(r, maxBits, true).Int64()
				if r.Intn(6) == 0 {
					lens[i] = 1 + r.Intn(9) // a longer-than-minimal vint (raised to the minimum if too short)
				}
			}
		}
		return serDuration(d[0], d[1], d[2], lens), fmt.Sprintf("duration{months:%d,days:%d,nanos:%d}", d[0], d[1], d[2])
	}
	panic("genWire")
}
