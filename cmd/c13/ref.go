package main

// Reference (de)serializers written from /repo/specs/native_protocol_v5.spec §5 ("Data Type
// Serialization Formats") and §3 ([unsigned vint], [vint]). Nothing here imports the library.

import (
	"encoding/binary"
	"math/big"
)

var (
	bigOne = big.NewInt(1)
	two31  = new(big.Int).Lsh(bigOne, 31)
)

func pow2(k uint) *big.Int { return new(big.Int).Lsh(bigOne, k) }

// serFixed: width-byte big-endian two's complement (tinyint 1, smallint 2, int 4, bigint/counter/
// time/timestamp 8). ok == false if v does not fit.
func serFixed(v *big.Int, width int) ([]byte, bool) {
	bits := uint(8 * width)
	lo := new(big.Int).Neg(pow2(bits - 1))
	hi := new(big.Int).Sub(pow2(bits-1), bigOne)
	if v.Cmp(lo) < 0 || v.Cmp(hi) > 0 {
		return nil, false
	}
	u := new(big.Int).Set(v)
	if u.Sign() < 0 {
		u.Add(u, pow2(bits))
	}
	return u.FillBytes(make([]byte, width)), true
}

func deserFixed(b []byte, width int) (*big.Int, bool) {
	if len(b) != width {
		return nil, false
	}
	v := new(big.Int).SetBytes(b)
	if b[0]&0x80 != 0 {
		v.Sub(v, pow2(uint(8*width)))
	}
	return v, true
}

// serVarint: minimal-length two's complement (spec §5.24: 0 -> 00, 128 -> 0080, -1 -> FF,
// -128 -> 80, -129 -> FF7F). pad > 0 adds sign-extension bytes (a longer, still well-defined form).
func serVarint(v *big.Int, pad int) []byte {
	var b []byte
	switch {
	case v.Sign() >= 0:
		b = v.Bytes()
		if len(b) == 0 || b[0]&0x80 != 0 {
			b = append([]byte{0}, b...)
		}
		for i := 0; i < pad; i++ {
			b = append([]byte{0}, b...)
		}
	default:
		m := new(big.Int).Neg(v) // -v - 1 >= 0
		m.Sub(m, bigOne)
		n := m.BitLen()/8 + 1 // smallest n with -2^(8n-1) <= v
		u := new(big.Int).Add(v, pow2(uint(8*n)))
		b = u.FillBytes(make([]byte, n))
		for i := 0; i < pad; i++ {
			b = append([]byte{0xff}, b...)
		}
	}
	return b
}

func deserVarint(b []byte) (*big.Int, bool) {
	if len(b) == 0 {
		return nil, false
	}
	v := new(big.Int).SetBytes(b)
	if b[0]&0x80 != 0 {
		v.Sub(v, pow2(uint(8*len(b))))
	}
	return v, true
}

// date: unsigned 32-bit, epoch centred at 2^31 (§5.5). The value handled by the judge is the
// signed number of days since the Unix epoch = wire - 2^31.
func serDate(days *big.Int) ([]byte, bool) {
	u := new(big.Int).Add(days, two31)
	if u.Sign() < 0 || u.BitLen() > 32 {
		return nil, false
	}
	return u.FillBytes(make([]byte, 4)), true
}

func deserDate(b []byte) (*big.Int, bool) {
	if len(b) != 4 {
		return nil, false
	}
	u := new(big.Int).SetBytes(b)
	return u.Sub(u, two31), true
}

func serF32(bits uint32) []byte {
	b := make([]byte, 4)
	binary.BigEndian.PutUint32(b, bits)
	return b
}

func serF64(bits uint64) []byte {
	b := make([]byte, 8)
	binary.BigEndian.PutUint64(b, bits)
	return b
}

// zig-zag (§3 [vint]): 0=0, -1=1, 1=2, -2=3, ...
func zigzag(n int64) uint64 {
	if n >= 0 {
		return uint64(n) << 1
	}
	return uint64(^n)<<1 | 1 // -n-1 == ^n
}

func unzigzag(u uint64) int64 {
	if u&1 == 0 {
		return int64(u >> 1)
	}
	return ^int64(u >> 1)
}

// putUvint appends an [unsigned vint] of total length n bytes (n-1 leading one bits in the first
// byte). n == 0 selects the minimal length. n smaller than the minimum is raised to the minimum.
func putUvint(dst []byte, u uint64, n int) []byte {
	bits := 0
	for x := u; x != 0; x >>= 1 {
		bits++
	}
	min := 1
	for min < 9 && 7*min < bits { // n bytes (n<=8) carry 7n value bits; 9 bytes carry 64
		min++
	}
	if n < min {
		n = min
	}
	if n > 9 {
		n = 9
	}
	if n == 9 {
		dst = append(dst, 0xff)
		for s := 56; s >= 0; s -= 8 {
			dst = append(dst, byte(u>>uint(s)))
		}
		return dst
	}
	first := byte(0xff<<uint(9-n)) | byte(u>>uint(8*(n-1)))
	dst = append(dst, first)
	for i := n - 2; i >= 0; i-- {
		dst = append(dst, byte(u>>uint(8*i)))
	}
	return dst
}

func getUvint(b []byte) (u uint64, n int, ok bool) {
	if len(b) == 0 {
		return 0, 0, false
	}
	extra := 0
	for m := byte(0x80); m != 0 && b[0]&m != 0; m >>= 1 {
		extra++
	}
	if len(b) < 1+extra {
		return 0, 0, false
	}
	if extra < 8 {
		u = uint64(b[0] & (0xff >> uint(extra+1)))
	}
	for i := 1; i <= extra; i++ {
		u = u<<8 | uint64(b[i])
	}
	return u, 1 + extra, true
}

// duration (§5.8): three [vint]s months, days, nanoseconds.
func serDuration(m, d, n int64, lens [3]int) []byte {
	var b []byte
	b = putUvint(b, zigzag(m), lens[0])
	b = putUvint(b, zigzag(d), lens[1])
	b = putUvint(b, zigzag(n), lens[2])
	return b
}

func deserDuration(b []byte) (v [3]int64, ok bool) {
	for i := 0; i < 3; i++ {
		u, n, ok := getUvint(b)
		if !ok {
			return v, false
		}
		v[i] = unzigzag(u)
		b = b[n:]
	}
	return v, len(b) == 0
}
