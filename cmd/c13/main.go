// Command c13 decides property C13 (numeric conversions never lose information silently) by
// driving the real datacodec codecs over (CQL type x Go type x value) in both directions and
// judging every successful call with arbitrary-precision arithmetic.
package main

import (
	"bytes"
	"encoding/hex"
	"fmt"
	"math"
	"math/big"
	"reflect"
	"sort"
	"sync"
	"sync/atomic"

	"github.com/datastax/go-cassandra-native-protocol/datacodec"
	"github.com/datastax/go-cassandra-native-protocol/primitive"

	"verif/internal/mon"
	"verif/internal/scribble"
)

func main() { mon.Main("C13", run) }

const version = primitive.ProtocolVersion5

const (
	fValue  = iota // encode: G
	fPtr           // encode: *G      decode: destination *G
	fPtrPtr        // encode: **G     decode: destination **G (inner pointer nil)
	fIface         // decode: destination *interface{}
)

type pair struct {
	id   int
	dir  string
	t    *cql
	l    *leaf
	form int
	g    string // Go type name as used in violation keys

	ok, refusedFit, refusedNoFit, unjudged int64 // atomics
}

func (p *pair) name() string { return p.dir + "|" + p.t.name + "|" + p.g }

var cqls []*cql

func buildCqls() {
	fixed := func(name string, c datacodec.Codec, width, sem int) *cql {
		bits := uint(8 * width)
		return &cql{name: name, codec: c, kind: kFixed, width: width, sem: sem,
			lo: new(big.Int).Neg(pow2(bits - 1)), hi: new(big.Int).Sub(pow2(bits-1), bigOne)}
	}
	cqls = []*cql{
		fixed("tinyint", datacodec.Tinyint, 1, semPlain),
		fixed("smallint", datacodec.Smallint, 2, semPlain),
		fixed("int", datacodec.Int, 4, semPlain),
		fixed("bigint", datacodec.Bigint, 8, semPlain),
		fixed("counter", datacodec.Counter, 8, semPlain),
		{name: "varint", codec: datacodec.Varint, kind: kVarint},
		{name: "date", codec: datacodec.Date, kind: kDate, sem: semDate, lo: new(big.Int).Neg(two31), hi: new(big.Int).Sub(two31, bigOne)},
		fixed("time", datacodec.Time, 8, semTime),
		fixed("timestamp", datacodec.Timestamp, 8, semTimestamp),
		{name: "float", codec: datacodec.Float, kind: kF32},
		{name: "double", codec: datacodec.Double, kind: kF64},
		{name: "duration", codec: datacodec.Duration, kind: kDur, comps: []string{"months", "days", "nanos"}},
	}
}

func buildPairs() []*pair {
	var ps []*pair
	add := func(p *pair) { p.id = len(ps); ps = append(ps, p) }
	for _, t := range cqls {
		for _, l := range leaves {
			add(&pair{dir: "encode", t: t, l: l, form: fValue, g: l.name})
			add(&pair{dir: "encode", t: t, l: l, form: fPtr, g: "*" + l.name})
			add(&pair{dir: "encode", t: t, l: l, form: fPtrPtr, g: "**" + l.name})
			add(&pair{dir: "decode", t: t, l: l, form: fPtr, g: l.name})
			add(&pair{dir: "decode", t: t, l: l, form: fPtrPtr, g: "*" + l.name})
		}
		add(&pair{dir: "decode", t: t, form: fIface, g: "interface{}"})
	}
	return ps
}

func (p *pair) nBound() int {
	if p.dir == "encode" {
		return p.l.nBound(p.t)
	}
	return p.t.nBound()
}

type marker struct{ tag string }

type stabFinding struct {
	class string
	info  map[string]interface{}
}

// destLeaf: what a decode destination currently holds, as a pointer to the leaf value (nil: an
// inner pointer still nil; the marker: an interface{} never written).
func destLeaf(form int, dest interface{}) interface{} {
	switch form {
	case fPtr:
		return dest
	case fPtrPtr:
		inner := reflect.ValueOf(dest).Elem()
		if inner.IsNil() {
			return nil
		}
		return inner.Interface()
	default:
		x := *(dest.(*interface{}))
		if x == nil || x == interface{}(untouchedMarker) {
			return x
		}
		return toLeafPtr(x)
	}
}

var untouchedMarker = marker{"c13-untouched"}

// local accumulates per-chunk observations; flushed once per chunk.
type local struct {
	counters map[string]int64
	distinct map[string]struct{}
	evals    int
	// the slice an earlier Encode of this chunk returned (a different value of the same type, same codec) and a
	// private copy of what it held then: a result must stay what it was while the caller keeps it
	heldWire, heldCopy []byte
}

func (lc *local) count(k string) { lc.counters[k]++ }

type runner struct {
	c        *mon.Ctx
	mu       sync.Mutex
	examples map[string]string // pair -> first "refused although representable" example
	vkeys    map[string]int    // every violation key with its count (mon prints only the first 25)
	vfirst   map[string]interface{}
}

func (rn *runner) violation(key string, detail interface{}) {
	rn.mu.Lock()
	rn.vkeys[key]++
	if _, ok := rn.vfirst[key]; !ok && len(rn.vfirst) < 200 {
		rn.vfirst[key] = detail
	}
	rn.mu.Unlock()
	rn.c.Violation(key, detail)
}

func strs(v []mval) []string {
	out := make([]string, len(v))
	for i, m := range v {
		out[i] = m.String()
	}
	return out
}

var (
	timeMax = big.NewRat(86_399_999_999_999, 1)
	zeroRat = new(big.Rat)
)

func leafFits(p *pair, exp []mval) bool {
	t := p.t
	inTimeRange := func() bool {
		return t.sem != semTime || (len(exp) == 1 && exp[0].kind == kFin && exp[0].r.Sign() >= 0 && exp[0].r.Cmp(timeMax) <= 0)
	}
	if p.form == fIface {
		return inTimeRange()
	}
	l := p.l
	switch l.kind {
	case lInt, lUint:
		if l.name == "time.Duration" && !inTimeRange() {
			return false
		}
		return len(exp) == 1 && fitsInt(exp[0], l.bits, l.signed)
	case lF32:
		return len(exp) == 1 && fitsFloat(exp[0], 32)
	case lF64:
		return len(exp) == 1 && fitsFloat(exp[0], 64)
	case lString:
		return t.kind != kF32 && t.kind != kF64 && t.kind != kDur && inTimeRange()
	case lBigInt:
		return len(exp) == 1 && exp[0].isInt()
	case lBigFloat:
		return len(exp) == 1 && exp[0].kind != kNaN
	case lTime:
		return t.sem != semPlain && t.kind != kF32 && t.kind != kF64 && t.kind != kDur && inTimeRange()
	case lCqlDur:
		return t.kind == kDur && t.fits(exp)
	}
	return false
}

// toLeafPtr turns a value delivered through *interface{} into a pointer to it.
func toLeafPtr(x interface{}) interface{} {
	rv := reflect.ValueOf(x)
	if !rv.IsValid() {
		return nil
	}
	if rv.Kind() == reflect.Ptr {
		return x
	}
	np := reflect.New(rv.Type())
	np.Elem().Set(rv)
	return np.Interface()
}

func (rn *runner) runCase(lc *local, p *pair, vi int, seed int64) {
	c, t := rn.c, p.t
	var (
		exp, got   []mval
		desc       string
		wire       []byte
		err        error
		wasNull    bool
		status     int
		sub        bool
		untouched  bool
		holder     interface{}
		expOK      = true
		panicked   bool
		panicVal   string
		floaty     = t.kind == kF32 || t.kind == kF64 || (p.l != nil && (p.l.kind == lF32 || p.l.kind == lF64 || p.l.kind == lBigFloat))
		noWireVal  bool
		nullResult bool
		stab       []stabFinding // source/destination stability findings of this case
	)
	lc.evals += 2 // every case calls the codec twice (second call: same source / same destination)

	if p.dir == "encode" {
		var src interface{}
		src, desc = p.l.gen(t, vi, seed)
		exp, sub, status = extract(src, t)
		expOK = status == exOK
		var arg interface{}
		switch p.form {
		case fValue:
			arg = reflect.ValueOf(src).Elem().Interface()
		case fPtr:
			arg = src
		case fPtrPtr:
			pp := reflect.New(reflect.TypeOf(src))
			pp.Elem().Set(reflect.ValueOf(src))
			arg = pp.Interface()
		}
		before := snapshotLeaf(src)
		panicked, panicVal = mon.Guard(func() { wire, err = t.codec.Encode(arg, version) })
		if !panicked {
			// (a) Encode must leave the caller's value alone, whatever it answers
			if !sameLeaf(src, before) {
				stab = append(stab, stabFinding{"source-mutated", map[string]interface{}{"source_before": describeLeaf(before), "source_after": describeLeaf(src)}})
			}
			if p.form == fPtrPtr && reflect.ValueOf(arg).Elem().Interface() != src {
				stab = append(stab, stabFinding{"source-mutated", map[string]interface{}{"source_before": "inner pointer -> source", "source_after": "inner pointer replaced"}})
			}
			// (b) encoding the same object again must give the same answer
			first := append([]byte(nil), wire...)
			var wire2 []byte
			var err2 error
			p2, pv2 := mon.Guard(func() { wire2, err2 = t.codec.Encode(arg, version) })
			switch {
			case p2:
				stab = append(stab, stabFinding{"second-encode-differs", map[string]interface{}{"first_bytes": hex.EncodeToString(first), "second": "panic: " + pv2}})
			case (err == nil) != (err2 == nil) || !bytes.Equal(first, wire2) || (wire == nil) != (wire2 == nil):
				stab = append(stab, stabFinding{"second-encode-differs", map[string]interface{}{
					"first_bytes": hex.EncodeToString(first), "first_err": fmt.Sprint(err), "second_bytes": hex.EncodeToString(wire2), "second_err": fmt.Sprint(err2),
					"source_after_first": describeLeaf(src)}})
			}
			if !bytes.Equal(first, wire) {
				stab = append(stab, stabFinding{"second-encode-differs", map[string]interface{}{"first_bytes": hex.EncodeToString(first), "first_bytes_after_second_encode": hex.EncodeToString(wire)}})
			}
			// (c) the bytes returned for an EARLIER value must not have changed under the caller's hands
			if lc.heldWire != nil && !bytes.Equal(lc.heldWire, lc.heldCopy) {
				stab = append(stab, stabFinding{"earlier-result-overwritten", map[string]interface{}{
					"earlier_result_when_returned": hex.EncodeToString(lc.heldCopy), "earlier_result_now": hex.EncodeToString(lc.heldWire), "after_encoding": hex.EncodeToString(first)}})
				lc.heldWire, lc.heldCopy = nil, nil
			}
			if err == nil && len(wire) > 0 && (lc.heldWire == nil || !bytes.Equal(first, lc.heldCopy)) {
				lc.heldWire, lc.heldCopy = wire, first
				lc.count("encode_results_held_across_the_next_encodes")
			}
		}
		if !panicked && err == nil {
			var ok bool
			if got, ok = t.wireValue(wire); !ok {
				noWireVal = true
			}
		}
	} else {
		wire, desc = t.genWire(vi, seed)
		var ok bool
		if exp, ok = t.wireValue(wire); !ok {
			c.Fatal("reference serializer/deserializer disagree on %s %s (%x)", t.name, desc, wire)
		}
		var dest interface{}
		alt := false
		switch p.form {
		case fPtr:
			if sv, _, st := extract(p.l.sentinel(false), t); st == exOK && len(sv) == len(exp) {
				same := true
				for i := range sv {
					same = same && sv[i].equal(exp[i])
				}
				alt = same
			}
			dest = p.l.sentinel(alt)
		case fPtrPtr:
			dest = reflect.New(reflect.TypeOf(p.l.sentinel(false))).Interface()
		case fIface:
			var x interface{} = untouchedMarker
			dest = &x
		}
		wireBefore := append([]byte(nil), wire...)
		panicked, panicVal = mon.Guard(func() { wasNull, err = t.codec.Decode(wire, dest, version) })
		if !panicked && !bytes.Equal(wire, wireBefore) {
			stab = append(stab, stabFinding{"source-bytes-mutated", map[string]interface{}{"bytes_before": hex.EncodeToString(wireBefore), "bytes_after": hex.EncodeToString(wire)}})
			wire = wireBefore
		}
		if !panicked && err == nil {
			if wasNull {
				nullResult = true
			} else {
				switch p.form {
				case fPtr:
					holder = dest
					untouched = reflect.DeepEqual(dest, p.l.sentinel(alt))
				case fPtrPtr:
					inner := reflect.ValueOf(dest).Elem()
					if inner.IsNil() {
						untouched = true
					} else {
						holder = inner.Interface()
					}
				case fIface:
					x := *(dest.(*interface{}))
					if x == interface{}(untouchedMarker) {
						untouched = true
					} else {
						holder = toLeafPtr(x)
						if holder != nil {
							switch holder.(type) {
							case *float32, *float64, *big.Float:
								floaty = true
							}
						}
					}
				}
				if !untouched {
					got, _, status = extract(holder, t)
				}
			}
		}
		if !panicked {
			// decoding the same bytes again into the same destination must give the same answer
			after1 := snapshotLeaf(destLeaf(p.form, dest))
			var wasNull2 bool
			var err2 error
			p2, pv2 := mon.Guard(func() { wasNull2, err2 = t.codec.Decode(wire, dest, version) })
			switch {
			case p2:
				stab = append(stab, stabFinding{"second-decode-differs", map[string]interface{}{"second": "panic: " + pv2}})
			case (err == nil) != (err2 == nil) || wasNull != wasNull2:
				stab = append(stab, stabFinding{"second-decode-differs", map[string]interface{}{
					"first_err": fmt.Sprint(err), "first_wasNull": wasNull, "second_err": fmt.Sprint(err2), "second_wasNull": wasNull2}})
			case err == nil && !sameLeaf(after1, destLeaf(p.form, dest)):
				stab = append(stab, stabFinding{"second-decode-differs", map[string]interface{}{
					"destination_after_first": describeLeaf(after1), "destination_after_second": describeLeaf(destLeaf(p.form, dest))}})
			}
			if !bytes.Equal(wire, wireBefore) {
				stab = append(stab, stabFinding{"source-bytes-mutated", map[string]interface{}{"bytes_before": hex.EncodeToString(wireBefore), "bytes_after_second_decode": hex.EncodeToString(wire)}})
				wire = wireBefore
			}
			// this case is done with what it decoded: edit it in place, the way a caller doing arithmetic on a
			// decoded *big.Int does. A codec that hands out objects it keeps using returns the damage in a later case.
			if holderNow := destLeaf(p.form, dest); holderNow != nil {
				lc.counters["decoded_values_edited_in_place"] += int64(scribble.Over(holderNow))
			}
		}
	}

	bucket := "?"
	if len(exp) > 0 {
		bucket = exp[0].bucket()
		for _, m := range exp[1:] {
			bucket += "," + m.bucket()
		}
	}
	detail := func(class string, comp int) map[string]interface{} {
		d := map[string]interface{}{
			"seed": seed, "pair": p.name(), "vi": vi, "direction": p.dir, "cql": t.name, "go": p.g,
			"value": desc, "bytes": hex.EncodeToString(wire), "expected": strs(exp), "got": strs(got), "class": class,
		}
		if comp >= 0 && len(t.comps) > 0 {
			d["component"] = t.comps[comp]
		}
		if panicked {
			d["panic"] = panicVal
		}
		return d
	}
	key := func(comp int, class string) string {
		tn := t.name
		if comp >= 0 && len(t.comps) > 0 {
			tn += "." + t.comps[comp]
		}
		return p.dir + "/" + tn + "/" + p.g + "/" + class
	}
	outcome := "ok"
	defer func() { lc.distinct[p.name()+"|"+outcome+"|"+bucket] = struct{}{} }()
	for _, f := range stab {
		d := detail(f.class, -1)
		for k, v := range f.info {
			d[k] = v
		}
		rn.violation(key(-1, f.class), d)
	}
	if len(stab) == 0 {
		lc.count(p.dir + "_second_call_identical")
	}

	switch {
	case panicked:
		outcome = "panic"
		rn.violation(key(-1, "panic"), detail("panic", -1))
		return
	case err != nil:
		outcome = "refused"
		lc.count(p.dir + "_refused")
		fits := false
		if p.dir == "encode" {
			fits = expOK && t.fits(exp)
		} else {
			fits = leafFits(p, exp)
		}
		if fits {
			atomic.AddInt64(&p.refusedFit, 1)
			rn.mu.Lock()
			if _, ok := rn.examples[p.name()]; !ok {
				rn.examples[p.name()] = fmt.Sprintf("%s bytes=%x err=%v", desc, wire, err)
			}
			rn.mu.Unlock()
		} else {
			atomic.AddInt64(&p.refusedNoFit, 1)
		}
		return
	}

	// success: err == nil
	if nullResult {
		outcome = "violation"
		rn.violation(key(-1, "truncated"), detail("truncated: non-empty value reported as NULL", -1))
		return
	}
	if untouched {
		// nil error, wasNull == false, destination not written
		nonZero := false
		for _, m := range exp {
			nonZero = nonZero || m.kind != kFin || m.r.Sign() != 0
		}
		sv, st := []mval(nil), exUnjudged
		if p.form == fPtr {
			sv, _, st = extract(holder, t)
		}
		same := st == exOK && len(sv) == len(exp)
		for i := 0; same && i < len(sv); i++ {
			same = sv[i].equal(exp[i])
		}
		if same {
			got, status = sv, exOK // the pre-filled value happens to be the right one
		} else if st == exOK || nonZero || p.form != fPtr {
			outcome = "violation"
			rn.violation(key(-1, "untouched-destination"), detail("untouched-destination", -1))
			return
		}
	}
	if noWireVal {
		outcome = "violation"
		if !expOK {
			atomic.AddInt64(&p.unjudged, 1)
			lc.count("unjudged_success")
			return
		}
		rn.violation(key(-1, "truncated"), detail("truncated: the emitted bytes denote no value (empty = NULL, or wrong width)", -1))
		return
	}
	if !expOK || status != exOK || len(exp) != len(got) {
		outcome = "unjudged"
		atomic.AddInt64(&p.unjudged, 1)
		lc.count("unjudged_success")
		return
	}
	atomic.AddInt64(&p.ok, 1)
	bad := false
	for i := range exp {
		if exp[i].equal(got[i]) {
			if exp[i].kind == kFin && exp[i].r.Sign() == 0 && exp[i].neg != got[i].neg && floaty {
				lc.count("float_zero_sign_not_kept")
			}
			if exp[i].kind == kNaN {
				lc.count("nan_to_nan")
			}
			continue
		}
		bad = true
		class := classify(exp[i], got[i], floaty)
		rn.violation(key(i, class), detail(class, i))
	}
	if bad {
		outcome = "violation"
		return
	}
	lc.count(p.dir + "_exact")
	if sub {
		lc.count("documented_subunit_floor_accepted_" + t.name)
	}
	if t.sem == semTime && (exp[0].r.Sign() < 0 || exp[0].r.Cmp(timeMax) > 0) {
		lc.count("time_outside_spec_range_accepted_" + p.dir)
	}
	if t.kind == kDur {
		pos, neg := false, false
		for _, m := range exp {
			pos = pos || m.r.Sign() > 0
			neg = neg || m.r.Sign() < 0
		}
		if pos && neg {
			lc.count("duration_mixed_sign_accepted_" + p.dir)
		}
	}
	if c.WantSample() && vi > p.nBound() && exp[0].kind == kFin && exp[0].r.Num().BitLen() > 5 {
		c.Sample(map[string]interface{}{"pair": p.name(), "value": desc, "bytes": hex.EncodeToString(wire), "expected": strs(exp), "got": strs(got)})
	}
}

func run(c *mon.Ctx) {
	c.Rule = "case = (direction, CQL type T, Go type G incl. pointer depth / interface{}, value index); value indexes below the boundary count " +
		"enumerate fixed lists (0, +-1, +-2^k and neighbours for k in 7,8,15,16,24,31,32,53,63,64,100,127,128, multiples of 2^32 plus a small value, " +
		"float32/float64 limits, subnormals, NaN payloads, +-Inf, -0, calendar and time-of-day edges, numeric strings with +, zeros, spaces, exponents), the rest are " +
		"PRNG values with a uniformly drawn bit width; a case is distinct by (pair, outcome ok/refused/violation, sign and bit length of the value); " +
		"every case calls the real Codec.Encode or Codec.Decode once"
	c.Assume("math/big, strconv, time and math of the Go standard library are correct (they define what a Go value or a string denotes)")
	c.Assume("the reference (de)serializers in cmd/c13/ref.go follow native_protocol_v5.spec section 5 and the [vint] definition of section 3; they are cross-checked against each other on every decode case")
	c.Assume("time.Time into date/time/timestamp: dropping the part finer than the CQL unit (clock part, date part, sub-millisecond) is documented behaviour in doc.go and is counted, not judged; the floor of the exact instant is demanded")
	c.Assume("strings are judged only when they are plain base-10 integers ([+-]?[0-9]+) or parse under the codec's documented default layout; any other accepted string is counted as unjudged")
	c.Assume("int and uint are 64 bits wide on this platform; the intSize == 32 branches of conversions.go are not reachable")

	buildCqls()
	pairs := buildPairs()
	// warm the caches that are read concurrently afterwards
	durBounds()
	for _, t := range cqls {
		t.strBounds()
		if t.kind == kFixed || t.kind == kVarint || t.kind == kDate {
			t.intBounds()
		}
	}
	rn := &runner{c: c, examples: map[string]string{}, vkeys: map[string]int{}, vfirst: map[string]interface{}{}}

	if c.Replay != "" {
		var d struct {
			Seed int64  `json:"seed"`
			Pair string `json:"pair"`
			Vi   int    `json:"vi"`
		}
		if err := c.ReplayDetail(&d); err != nil {
			c.Fatal("replay: %v", err)
		}
		for _, p := range pairs {
			if p.name() == d.Pair {
				lc := &local{counters: map[string]int64{}, distinct: map[string]struct{}{}}
				rn.runCase(lc, p, d.Vi, d.Seed)
				c.Eval(lc.evals)
				return
			}
		}
		c.Fatal("replay: unknown pair %q", d.Pair)
	}

	nRandom := c.Pick(1000, 20000)
	const chunk = 256
	type item struct {
		p      *pair
		lo, hi int
	}
	var items []item
	total := 0
	for _, p := range pairs {
		n := p.nBound() + nRandom
		total += n
		for lo := 0; lo < n; lo += chunk {
			hi := lo + chunk
			if hi > n {
				hi = n
			}
			items = append(items, item{p, lo, hi})
		}
	}
	c.Set("pairs_total", len(pairs))
	c.Set("planned_cases", total)
	c.Set("random_values_per_pair", nRandom)

	mon.Parallel(len(items), func(i int) {
		it := items[i]
		lc := &local{counters: map[string]int64{}, distinct: map[string]struct{}{}}
		for vi := it.lo; vi < it.hi; vi++ {
			rn.runCase(lc, it.p, vi, c.Seed)
		}
		c.Eval(lc.evals)
		for k, n := range lc.counters {
			c.Count(k, n)
		}
		for k := range lc.distinct {
			c.Distinct(k)
		}
	})

	probeLowPrecisionDestination(c)

	// what was observed, per pair
	accepted := map[string][]string{}
	refusing := 0
	accepting := 0
	type ex struct {
		Pair    string `json:"pair"`
		Count   int64  `json:"count"`
		Example string `json:"example"`
	}
	var unnecessary []ex
	var unjudgedPairs []string
	seenT := map[string]int{}
	for _, p := range pairs {
		if p.ok > 0 {
			accepting++
			k := p.dir + "/" + p.t.name
			accepted[k] = append(accepted[k], p.g)
			seenT[k]++
			if p.refusedFit > 0 {
				unnecessary = append(unnecessary, ex{p.name(), p.refusedFit, rn.examples[p.name()]})
			}
		} else {
			refusing++
		}
		if p.unjudged > 0 {
			unjudgedPairs = append(unjudgedPairs, fmt.Sprintf("%s x%d", p.name(), p.unjudged))
		}
	}
	sort.Slice(unnecessary, func(i, j int) bool { return unnecessary[i].Pair < unnecessary[j].Pair })
	for k := range accepted {
		sort.Strings(accepted[k])
	}
	c.Set("pairs_with_successful_conversions", accepting)
	c.Set("pairs_always_refused_with_error", refusing)
	c.Set("accepted_go_types", accepted)
	c.Set("refused_although_representable", unnecessary)
	c.Set("pairs_with_unjudged_successes", unjudgedPairs)
	c.Set("all_violation_keys", rn.vkeys)
	c.Set("first_detail_per_violation_key", rn.vfirst)
	for _, t := range cqls {
		for _, dir := range []string{"encode", "decode"} {
			if seenT[dir+"/"+t.name] == 0 {
				c.Inconclusive("no successful " + dir + " observed for " + t.name)
			}
		}
	}
	if c.Counter("encode_exact") == 0 || c.Counter("decode_exact") == 0 {
		c.Fatal("no exact conversion observed (encode_exact=%d decode_exact=%d)", c.Counter("encode_exact"), c.Counter("decode_exact"))
	}
}

// probeLowPrecisionDestination: counted, not judged. A *big.Float destination whose precision the
// caller has set below 53 bits receives the double rounded to that precision (math/big keeps the
// receiver's precision in SetFloat64); the codec reports nothing. The caller asked for that
// precision, so the property is not held against the codec here, but the evidence shows it.
func probeLowPrecisionDestination(c *mon.Ctx) {
	n := 0
	for i := 0; i < len(f64List)+1000; i++ {
		var f float64
		if i < len(f64List) {
			f = f64List[i]
		} else {
			f = math.Float64frombits(mon.NewRand(c.Seed, stream("lowprec", i)).Uint64())
		}
		if math.IsNaN(f) || math.IsInf(f, 0) {
			continue
		}
		dest := new(big.Float).SetPrec(24)
		var err error
		if p, _ := mon.Guard(func() { _, err = datacodec.Double.Decode(serF64(math.Float64bits(f)), dest, version) }); p || err != nil {
			continue
		}
		c.Eval(1)
		if dest.Cmp(new(big.Float).SetFloat64(f)) != 0 {
			n++
		}
	}
	c.Count("unjudged_double_into_bigfloat_with_preset_24bit_precision_rounded", int64(n))
}
