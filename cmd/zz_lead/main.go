package main

import (
	"bytes"
	"fmt"

	"github.com/datastax/go-cassandra-native-protocol/compression/lz4"
	"verif/internal/mon"
)

func main() {
	bad := 0
	for seed := 0; seed < 200; seed++ {
		r := mon.NewRand(int64(seed), 1)
		// 12-byte records repeated with a 64 KiB period
		var blk []byte
		for len(blk) < 65536 {
			blk = append(blk, r.Bytes(6)...)
			blk = append(blk, []byte("cell=\x00")...)
		}
		blk = blk[:65536]
		x := append(append([]byte{}, blk...), blk[:1550+seed]...)
		var out, back bytes.Buffer
		if err := (lz4.Compressor{}).Compress(bytes.NewReader(x), &out); err != nil {
			panic(err)
		}
		err := (lz4.Compressor{}).Decompress(bytes.NewReader(out.Bytes()), &back)
		if err != nil || !bytes.Equal(back.Bytes(), x) {
			bad++
			if bad < 3 {
				fmt.Println("seed", seed, "len", len(x), "compressed", out.Len(), "err", err, "equal", bytes.Equal(back.Bytes(), x))
			}
		}
	}
	fmt.Println("bad", bad, "of 200")
}
