package main

// The library ends of a session: thin wrappers that hand abstract frames to the real
// CqlClientConnection / CqlServerConnection and read what they deliver.

import (
	"fmt"
	"strings"
	"time"

	"github.com/datastax/go-cassandra-native-protocol/client"
	"github.com/datastax/go-cassandra-native-protocol/frame"

	"verif/internal/bridge"
)

// ---- client end -------------------------------------------------------------------------------

type pending struct {
	req  sentFrame
	fl   client.InFlightRequest
	want []sentFrame // responses the other end sent for this request, in order
}

type libClient struct {
	k  *kase
	cc *client.CqlClientConnection
}

// send hands a request to CqlClientConnection.Send. compressed sets the COMPRESSED header flag.
func (lc *libClient) send(sf sentFrame, compressed bool) (*pending, error) {
	lf := bridge.ToLib(sf.abs, compressed, bridge.NewVariant(lc.k.r))
	fl, err := lc.cc.Send(lf)
	if err != nil {
		return nil, err
	}
	return &pending{req: sf, fl: fl}, nil
}

// awaitOne waits for the next frame of a request: "ok", "closed" (channel closed without a frame)
// or "timeout" (inconclusive).
func (lc *libClient) awaitOne(p *pending) (*frame.Frame, string) {
	select {
	case f, ok := <-p.fl.Incoming():
		if !ok {
			return nil, "closed"
		}
		return f, "ok"
	case <-time.After(waitT):
		return nil, "timeout"
	}
}

// drain takes what is in the request's channel right now (called after a barrier: see main.go).
func (lc *libClient) drain(p *pending) []*frame.Frame {
	var out []*frame.Frame
	for {
		select {
		case f, ok := <-p.fl.Incoming():
			if !ok {
				return out
			}
			out = append(out, f)
		default:
			return out
		}
	}
}

// judgeResponses compares what each request received with what was sent to it, after the barrier.
func (lc *libClient) judgeResponses(ps []*pending, segDesc string, segClass string) {
	k := lc.k
	for _, p := range ps {
		got := lc.drain(p)
		for i, w := range p.want {
			k.judged("response", w, segClass)
			if i >= len(got) {
				if e := p.fl.Err(); e != nil && strings.Contains(e.Error(), "timed out") {
					// the library's own read timeout closed the request before the response arrived (an overloaded
					// machine): what happened to the response afterwards says nothing
					k.inconclusive("library-read-timeout-expired-before-the-response")
					continue
				}
				k.violation("response-lost", map[string]interface{}{
					"what": fmt.Sprintf("response %d of %d for stream %d never reached its request although a frame sent after it on the same connection did", i+1, len(p.want), p.req.abs.Stream),
					"sent": jsonTrunc(w.abs), "frame_label": w.label, "envelope_bytes": w.size, "segmentation": segDesc, "request_err": fmt.Sprint(p.fl.Err()), "connection_closed": lc.cc.IsClosed()})
				continue
			}
			if ok, d := k.compareLib(w, got[i]); !ok {
				d["segmentation"] = segDesc
				d["envelope_bytes"] = w.size
				k.violation("response-differs", d)
			}
		}
		if len(got) > len(p.want) {
			k.violation("response-duplicated-or-spurious", map[string]interface{}{
				"what": fmt.Sprintf("stream %d received %d frames, %d were sent", p.req.abs.Stream, len(got), len(p.want)), "segmentation": segDesc})
		}
	}
}

// judgeEvents compares the content of the event channel with the events sent, after the barrier.
func (lc *libClient) judgeEvents(want []sentFrame, segDesc, segClass string) {
	k := lc.k
	ch := lc.cc.EventChannel()
	for i, w := range want {
		k.judged("event", w, segClass)
		var got *frame.Frame
		if ch != nil {
			select {
			case got = <-ch:
			default:
			}
		}
		if got == nil {
			k.violation("event-lost", map[string]interface{}{"what": fmt.Sprintf("event %d of %d is not on the event channel although a frame sent after it was delivered", i+1, len(want)),
				"sent": jsonTrunc(w.abs), "segmentation": segDesc, "connection_closed": lc.cc.IsClosed()})
			return
		}
		if ok, d := k.compareLib(w, got); !ok {
			d["segmentation"] = segDesc
			k.violation("event-differs", d)
		}
	}
	if ch != nil {
		select {
		case f := <-ch:
			if f != nil {
				k.violation("event-duplicated-or-spurious", map[string]interface{}{"what": "an event nobody sent is on the event channel", "segmentation": segDesc})
			}
		default:
		}
	}
}

// ---- server end -------------------------------------------------------------------------------

type recvd struct {
	f   *frame.Frame
	err error
}

type libServer struct {
	k      *kase
	sc     *client.CqlServerConnection
	pump   chan recvd
	unread []*frame.Frame // frames taken from the pump and put back
}

// startPump moves everything CqlServerConnection.Receive yields, in order, into a channel (Receive has no timeout).
func (ls *libServer) startPump() {
	ls.pump = make(chan recvd, 8192)
	go func() {
		for {
			f, err := ls.sc.Receive()
			ls.pump <- recvd{f, err}
			if err != nil {
				return
			}
		}
	}()
}

// next returns the next received frame: "ok", "closed", "timeout".
func (ls *libServer) next() (*frame.Frame, string) {
	if len(ls.unread) > 0 {
		f := ls.unread[0]
		ls.unread = ls.unread[1:]
		return f, "ok"
	}
	select {
	case r := <-ls.pump:
		if r.err != nil {
			return nil, "closed"
		}
		return r.f, "ok"
	case <-time.After(waitT):
		return nil, "timeout"
	}
}

func (ls *libServer) send(sf sentFrame, compressed bool) error {
	return ls.sc.Send(bridge.ToLib(sf.abs, compressed, bridge.NewVariant(ls.k.r)))
}

// judgeRequests reads what the server connection received up to (and including) the barrier request
// and compares the sequence with what was sent. Returns false when the session cannot go on.
func (ls *libServer) judgeRequests(want []sentFrame, barrier sentFrame, segDesc, segClass string) bool {
	k := ls.k
	var got []*frame.Frame
	closed := false
	for {
		f, st := ls.next()
		if st == "timeout" {
			k.inconclusive("timeout-waiting-for-barrier-request")
			return false
		}
		if st == "closed" {
			closed = true // demonstrably closed: whatever was not delivered is lost
			break
		}
		if f.Header.StreamId == barrier.abs.Stream {
			break
		}
		got = append(got, f)
		if len(got) > len(want)+64 {
			break
		}
	}
	lostClass := "request-lost"
	if closed {
		lostClass = "request-lost/connection-closed"
	}
	for i, w := range want {
		k.judged("request", w, segClass)
		if i >= len(got) {
			what := fmt.Sprintf("request %d of %d (stream %d) was not received although a request sent after it on the same connection was", i+1, len(want), w.abs.Stream)
			if closed {
				what = fmt.Sprintf("the server connection closed itself after delivering %d of %d requests of the batch; request %d (stream %d) was never received", len(got), len(want), i+1, w.abs.Stream)
			}
			k.violation(lostClass, map[string]interface{}{"what": what,
				"sent": jsonTrunc(w.abs), "frame_label": w.label, "envelope_bytes": w.size, "segmentation": segDesc, "batch": labels(want)})
			continue
		}
		if ok, d := k.compareLib(w, got[i]); !ok {
			d["segmentation"] = segDesc
			d["envelope_bytes"] = w.size
			d["batch"] = labels(want)
			if got[i].Header.StreamId != w.abs.Stream {
				k.violation("request-lost-or-out-of-order", d)
			} else {
				k.violation("request-differs", d)
			}
		}
	}
	if len(got) > len(want) {
		k.violation("request-duplicated-or-spurious", map[string]interface{}{"what": fmt.Sprintf("%d requests received, %d sent", len(got), len(want)), "segmentation": segDesc})
	}
	return !closed
}

func labels(fs []sentFrame) []string {
	var out []string
	for _, f := range fs {
		out = append(out, fmt.Sprintf("%s(%dB,stream %d)", f.kind, f.size, f.abs.Stream))
	}
	return out
}
