package main

// Two scenarios that need the library server in a particular situation (round 4):
//
//	burst       more requests than a handful are outstanding before the application's first Receive:
//	            300..900 pipelined requests (library client, or raw peer; for v5 the raw peer also puts
//	            hundreds of small envelopes into ONE self-contained segment) reach a default CqlServer whose
//	            connection nobody reads yet. The connection documents MaxInFlight (default 1024) queued
//	            requests; every one of them must come out of Receive, in order, equal.
//	late-write  the server connection's net.Conn returns from Write late (the bytes are delivered first,
//	            then the call sleeps: a failpoint at the I/O boundary, where a congested socket or a TLS
//	            layer delays the return too), while the raw v5 peer sends its first segment the moment it
//	            has read READY / AUTHENTICATE. The delay only widens a window; the verdict is the usual
//	            one: the first request segment must be received equal.
//
// No verdict comes from a clock. In "burst" the moment "everything has been processed by the server's
// incoming loop" is learned from ORDER: a marker request, sent last, is the only request a
// RequestHandler of the server answers; handlers are invoked by the sequential incoming loop after the
// frame has been queued (or discarded), so the marker's answer implies all earlier requests have been
// through that loop. Only then is Receive called for the first time.

import (
	"net"
	"sync/atomic"
	"time"

	"github.com/datastax/go-cassandra-native-protocol/client"
	"github.com/datastax/go-cassandra-native-protocol/frame"
	"github.com/datastax/go-cassandra-native-protocol/message"

	"verif/internal/ref"
)

// markerHandler answers exactly one request: OPTIONS on the marker stream.
type markerHandler struct{ stream atomic.Int32 }

func newMarkerHandler() *markerHandler {
	m := &markerHandler{}
	m.stream.Store(-1 << 20)
	return m
}

func (m *markerHandler) handle(request *frame.Frame, _ *client.CqlServerConnection, _ client.RequestHandlerContext) *frame.Frame {
	if int32(request.Header.StreamId) != m.stream.Load() {
		return nil
	}
	if _, ok := request.Body.Message.(*message.Options); !ok {
		return nil
	}
	return frame.NewFrame(request.Header.Version, request.Header.StreamId, &message.Supported{})
}

// lateWriteConn delivers the bytes and only then holds the caller back, for the first `armed` writes
// (the library writes a frame header field by field: the last write of READY is the one that matters).
type lateWriteConn struct {
	net.Conn
	armed atomic.Int32
	delay time.Duration
	late  atomic.Int64
}

func (c *lateWriteConn) Write(b []byte) (int, error) {
	n, err := c.Conn.Write(b)
	if err == nil && c.armed.Add(-1) >= 0 {
		c.late.Add(1)
		time.Sleep(c.delay)
	}
	return n, err
}

// burstCount: how many requests are outstanding before the first Receive (+ the marker <= 1024).
func burstCount(k *kase) int { return 300 + k.r.Intn(601) }

// burstJudge: called once the marker's answer has been seen. Starts reading the server connection,
// and judges the whole sequence up to a second barrier that is sent only after the first frame has
// come out (so the barrier itself always finds room in the connection's queue).
func burstJudge(k *kase, ls *libServer, reqs []sentFrame, marker sentFrame, sendBarrier func(sentFrame) bool, newID func() int16, desc string) {
	ls.startPump()
	first, st := ls.next()
	switch st {
	case "timeout":
		k.inconclusive("timeout-waiting-for-first-request-of-burst")
		return
	case "closed":
		k.judged("request", reqs[0], "burst")
		k.violation("request-lost/connection-closed", map[string]interface{}{"what": "the server connection closed itself during a burst of pipelined requests", "segmentation": desc, "burst": len(reqs)})
		return
	}
	ls.unread = append(ls.unread, first)
	bar := smallFrame(k.spec.Ver, false, newID(), 0, k.r)
	if !sendBarrier(bar) {
		k.inconclusive("harness/barrier-send-refused")
		return
	}
	k.count("burst_requests_outstanding_before_first_receive", int64(len(reqs)+1))
	k.max("max_requests_outstanding_before_first_receive", int64(len(reqs)+1))
	ls.judgeRequests(append(append([]sentFrame{}, reqs...), marker), bar, desc, "burst")
}

// libLibBurst: the library client pipelines the burst.
func libLibBurst(k *kase, p *libPair, mh *markerHandler) {
	v := k.spec.Ver
	ks := kindsFor(v)
	ids := newIDs(v)
	n := burstCount(k)
	k.stage("lib-lib: burst of %d pipelined requests before the first Receive", n)
	var reqs []sentFrame
	for i := 0; i < n; i++ {
		sf := k.draw(ks.req, ids.get(), 600)
		if _, err := p.lc.send(sf, k.spec.Comp != "none" && k.r.Bool()); err != nil {
			k.c.Eval(1)
			k.violation("send-refused/"+slugNoAddr(firstLine(err.Error())), map[string]interface{}{"error": headOf(err.Error(), 600), "requests_in_flight": i})
			return
		}
		reqs = append(reqs, sf)
	}
	marker := smallFrame(v, false, ids.get(), 0, k.r)
	mh.stream.Store(int32(marker.abs.Stream))
	mp, err := p.lc.send(marker, false)
	if err != nil {
		k.inconclusive("harness/marker-send-refused")
		return
	}
	if _, st := p.lc.awaitOne(mp); st != "ok" {
		if st == "closed" || p.lc.cc.IsClosed() {
			k.judged("request", reqs[0], "burst")
			k.violation("connection-closed-by-client-mid-session", map[string]interface{}{"what": "the connection closed during a burst of pipelined requests", "burst": n})
			return
		}
		k.inconclusive("timeout-waiting-for-marker-response")
		return
	}
	burstJudge(k, p.ls, reqs, marker, func(b sentFrame) bool { _, err := p.lc.send(b, false); return err == nil }, ids.get, "library client, pipelined")
}

// peerBurst: the raw peer sends the burst: back to back under legacy framing; for v5 either one
// envelope per segment or as many small envelopes per self-contained segment as fit.
func peerBurst(k *kase, s *peerSess, mh *markerHandler) {
	v := k.spec.Ver
	ks := kindsFor(v)
	w := s.w
	n := burstCount(k)
	plan := segPlan{Mode: "single", LZ4: s.lz4Mode()}
	limit := 600
	if v.ModernFraming() && k.spec.Rep%2 == 0 {
		// several hundred small envelopes in one self-contained segment
		plan = segPlan{Mode: "packed", MaxPer: 1 << 20, LZ4: s.lz4Mode()}
		limit = 300
		if n > 420 {
			n = 300 + n%121
		}
	}
	k.stage("peer-client: burst of %d requests (%s) before the first Receive", n, plan.Mode)
	var reqs []sentFrame
	var envs [][]byte
	for i := 0; i < n; i++ {
		sf := k.draw(ks.req, s.ids.get(), limit)
		reqs = append(reqs, sf)
		envs = append(envs, w.encode(sf.abs, k.r.Bool()))
	}
	desc, err := w.sendEnvelopes(envs, plan)
	if err != nil {
		s.wireTrouble(err, "exchange", map[string]interface{}{"burst": n})
		return
	}
	marker := smallFrame(v, false, s.ids.get(), 0, k.r)
	mh.stream.Store(int32(marker.abs.Stream))
	if _, err := w.sendEnvelopes([][]byte{w.encode(marker.abs, false)}, segPlan{Mode: "single", LZ4: "fallback"}); err != nil {
		s.wireTrouble(err, "exchange", map[string]interface{}{"burst": n})
		return
	}
	obs, err := w.readThrough(marker.abs.Stream, 4)
	if err != nil {
		s.wireTrouble(err, "exchange", map[string]interface{}{"burst": n, "expected": "the handler's SUPPORTED answer to the marker request", "segmentation": desc})
		return
	}
	sup := sentFrame{abs: ref.Norm(&ref.Frame{Version: v, Response: true, Stream: marker.abs.Stream, Msg: &ref.Supported{}}), kind: "SUPPORTED", sig: "burst-marker-answer"}
	sup.size = encodedSize(sup.abs)
	s.matchWire(obs, []sentFrame{sup, sup}, false) // the last entry plays the barrier's part: one envelope is expected
	burstJudge(k, s.ls, reqs, marker, func(b sentFrame) bool {
		_, err := w.sendEnvelopes([][]byte{w.encode(b.abs, false)}, segPlan{Mode: "single", LZ4: "fallback"})
		return err == nil
	}, s.ids.get, desc)
}
