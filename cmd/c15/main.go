// C15 — client and server exchange frames intact under every version and compression.
//
// Runtime monitoring of the real client/client.go, client/server.go, client/handshake.go,
// segment/*.go and frame/*.go in three set-ups (DESIGN.md §C15):
//
//	lib-lib      library client <-> library server over real TCP
//	peer-server  library client <-> raw peer acting as the server   (peer.go: reference codec + reference segments only)
//	peer-client  raw peer acting as the client <-> library server
//
// The code under test ALWAYS runs in a child process (this binary re-executed in worker mode): a
// panic in a library goroutine kills the process. The worker writes the case index and the stage to
// a progress file before each step and its stderr goes to a file; the supervisor attributes a death
// to a case, re-runs the case alone to confirm, and goes on with the rest.
//
// Verdicts are never taken from a clock. "Lost" is concluded from ORDER only: the peer (or the
// library end) sends a barrier frame after the frames under judgement on the same connection; the
// receiving loop of the library is sequential, so once the barrier has been delivered every earlier
// frame has been processed. Waiting for a barrier has a generous timeout whose expiry is
// inconclusive — unless the connection is demonstrably closed, which is a loss.
package main

import (
	"encoding/json"
	"fmt"
	"os"
	"os/exec"
	"path/filepath"
	"regexp"
	"strconv"
	"strings"
	"sync"
	"syscall"
	"time"

	"verif/internal/mon"
	"verif/internal/ref"
)

func main() { mon.Main("C15", run) }

// waitT bounds every wait for a frame / barrier; its expiry is inconclusive, never a verdict.
var waitT = 20 * time.Second

// caseSpec identifies one case: one session scenario of one configuration. The case list is a pure
// function of the tier; everything drawn inside a case comes from mon.NewRand(seed, index).
type caseSpec struct {
	Index    int         `json:"index"`
	Setup    string      `json:"setup"` // lib-lib | peer-server | peer-client
	Ver      ref.Version `json:"version"`
	Comp     string      `json:"compression"` // none | lz4 | snappy
	Auth     bool        `json:"auth"`
	Scenario string      `json:"scenario"`
	Rep      int         `json:"rep"`
}

func (s caseSpec) String() string {
	return fmt.Sprintf("#%d %s/%v/%s/auth=%v/%s/rep%d", s.Index, s.Setup, s.Ver, s.Comp, s.Auth, s.Scenario, s.Rep)
}

var setups = []string{"lib-lib", "peer-server", "peer-client"}
var comps = []string{"none", "lz4", "snappy"}

// scenarios per set-up. Legacy framing has no segmentation menu.
func scenariosFor(setup string, v ref.Version, comp string, auth bool) []string {
	out := baseScenarios(setup, v, comp)
	// burst (burst.go): more than a handful of requests outstanding before the first Receive. v2 has only 127 stream ids.
	if setup != "peer-server" && v != ref.V2 && comp != "snappy" && !auth {
		out = append(out, "burst")
	}
	// late-write (burst.go): the peer's first v5 segment arrives while the server's Write of READY has not returned
	if setup == "peer-client" && v.ModernFraming() && comp != "snappy" {
		out = append(out, "late-write")
	}
	return out
}

func baseScenarios(setup string, v ref.Version, comp string) []string {
	if v == ref.V5 && comp == "snappy" {
		return []string{"refused"} // v5 §2.3.1: "Only LZ4 compression is currently supported for v5"
	}
	if setup == "lib-lib" {
		if v.ModernFraming() {
			return []string{"frames", "oversize-probe"}
		}
		return []string{"frames", "big"}
	}
	if !v.ModernFraming() {
		if setup == "peer-client" && comp != "none" {
			return []string{"frames", "big", "startup-spec-names"}
		}
		return []string{"frames", "big"}
	}
	if setup == "peer-client" && comp != "none" {
		return []string{"frames", "packed", "split-small", "split-lt9", "split-big", "startup-spec-names"}
	}
	return []string{"frames", "packed", "split-small", "split-lt9", "split-big"}
}

// repetitions of the thorough tier: every repetition draws other frames, segmentations and split points
const (
	thoroughReps = 24
	heavyReps    = 6
)

func buildCases(reps int) []caseSpec {
	var out []caseSpec
	for rep := 0; rep < reps; rep++ {
		for _, su := range setups {
			for _, v := range ref.Versions {
				for _, cp := range comps {
					for _, auth := range []bool{false, true} {
						for _, sc := range scenariosFor(su, v, cp, auth) {
							if rep > 0 && (sc == "refused" || sc == "oversize-probe" || sc == "split-lt9" || sc == "startup-spec-names") {
								continue // deterministic probes: once
							}
							if rep >= heavyReps && (sc == "big" || sc == "split-big" || sc == "burst" || sc == "late-write") {
								continue // the expensive scenarios: fewer repetitions
							}
							out = append(out, caseSpec{Index: len(out), Setup: su, Ver: v, Comp: cp, Auth: auth, Scenario: sc, Rep: rep})
						}
					}
				}
			}
		}
	}
	return out
}

func run(c *mon.Ctx) {
	c.Rule = "one case = one session scenario of one configuration (set-up x version x compression x authentication x scenario x repetition); " +
		"the case list is a function of the tier, every frame, segmentation and split point inside a case of mon.NewRand(seed, case index). " +
		"Frames are version-valid abstract frames of internal/gen (all request kinds client->server, all response kinds server->client, events on stream -1) " +
		"plus hand-sized envelopes (QUERY with a blob value / RESULT Rows with a blob cell) of ten content classes. " +
		"evaluations = frames whose delivery (or wire bytes) was judged; distinct signature = set-up, version, compression, scenario, segmentation class and the generator's frame signature (kind, shape, flags, value classes)"
	c.Assume("the reference codec (internal/ref), the reference segment layer, CRCs and LZ4/Snappy block decoders (internal/segref) implement the specification texts; they share no code with the library")
	c.Assume("bridge.FromLib is the statement of what a library frame means (normal form N1-N9 of DESIGN.md M3); 'equal to what was sent' = equal abstract normal forms; the COMPRESSED header flag is a transport attribute and not part of it")
	c.Assume("order argument for 'lost': each library connection has ONE sequential incoming loop, so a barrier frame delivered implies every frame written before it on that connection has been processed")
	c.Assume("scenario startup-spec-names only: 'the response to STARTUP was never written' is taken from the library's own error log line (error writing ...), not from a clock")
	c.Assume("scenario burst: 'every request of the burst has been through the server's incoming loop' is learned from the answer a RequestHandler gives to a marker request sent last (handlers are invoked by that sequential loop); Receive is called for the first time only then")
	c.Assume("scenario late-write: the net.Conn handed to VerifNewServerConn delivers the bytes of a Write and returns 30 ms later (first writes only); the delay widens a window and is never part of a verdict")
	c.Assume("a real v5 peer puts the whole 9-byte envelope header into the first part of a split envelope (Cassandra does); split points below 9 are run but only counted")
	if c.Thorough() {
		waitT = 40 * time.Second
	}
	if len(c.Args) > 0 && c.Args[0] == "worker" {
		runWorker(c)
		return
	}
	supervise(c)
}

// ---------------------------------------------------------------------------------------------
// supervisor

type chunkResult struct {
	ok       bool
	exitErr  error
	watchdog bool
	last     progressRec
	stderr   string
}

var panicRe = regexp.MustCompile(`(?m)^(panic: .*|fatal error: .*)$`)
var frameRe = regexp.MustCompile(`(?m)^github\.com/datastax/go-cassandra-native-protocol/([^\s(]+(?:\([^)]*\))?[^\s(]*)\(`)

// panicClass extracts a stable class from a dead worker's stderr: the kind of panic and the first
// library function on the panicking goroutine's stack.
func panicClass(stderr string) string {
	kind := "unknown-death"
	if m := panicRe.FindString(stderr); m != "" {
		switch {
		case strings.Contains(m, "nil pointer dereference"):
			kind = "nil-pointer-dereference"
		case strings.Contains(m, "index out of range"):
			kind = "index-out-of-range"
		case strings.Contains(m, "slice bounds out of range"):
			kind = "slice-bounds-out-of-range"
		case strings.Contains(m, "send on closed channel"):
			kind = "send-on-closed-channel"
		case strings.Contains(m, "close of closed channel"):
			kind = "close-of-closed-channel"
		case strings.Contains(m, "out of memory"):
			kind = "out-of-memory"
		case strings.Contains(m, "all goroutines are asleep"):
			kind = "deadlock"
		default:
			kind = slug(m)
		}
	}
	fn := ""
	if i := strings.Index(stderr, "goroutine "); i >= 0 {
		if m := frameRe.FindStringSubmatch(stderr[i:]); m != nil {
			fn = strings.NewReplacer("(*", "", ")", "", "/", ".").Replace(m[1])
		}
	}
	if fn != "" {
		return kind + "/" + fn
	}
	return kind
}

// scenarioClass: the part of a death's key that names the situation. Whatever the scenario, a death
// while an envelope split over several segments was on its way is the same situation.
func scenarioClass(sc, stage string) string {
	if strings.HasPrefix(sc, "split") || strings.Contains(stage, "[split]") {
		return "split-envelope"
	}
	return sc
}

func tailOf(path string, n int) string {
	b, err := os.ReadFile(path)
	if err != nil {
		return ""
	}
	if len(b) > n {
		b = b[len(b)-n:]
	}
	return string(b)
}

func headOf(s string, n int) string {
	if len(s) > n {
		return s[:n]
	}
	return s
}

func supervise(c *mon.Ctx) {
	reps := c.Pick(1, thoroughReps)
	all := buildCases(reps)
	cases := all
	if c.Replay != "" {
		var d struct {
			Case *caseSpec `json:"case"`
		}
		if err := c.ReplayDetail(&d); err != nil || d.Case == nil {
			c.Fatal("replay file has no case: %v", err)
		}
		cases = []caseSpec{*d.Case}
	}
	filter := os.Getenv("C15_FILTER") // development aid: only cases whose description contains this text
	dir, err := os.MkdirTemp("", "c15-")
	if err != nil {
		c.Fatal("tempdir: %v", err)
	}
	defer os.RemoveAll(dir)

	var seq int64
	var seqMu sync.Mutex
	runProc := func(idx []int) chunkResult {
		seqMu.Lock()
		seq++
		id := seq
		seqMu.Unlock()
		base := filepath.Join(dir, fmt.Sprintf("w%d", id))
		out, errf, prog := base+".json", base+".stderr", base+".progress"
		strs := make([]string, len(idx))
		for i, v := range idx {
			strs[i] = strconv.Itoa(v)
		}
		args := []string{"--tier", c.Tier, "--seed", strconv.FormatInt(c.Seed, 10), "worker", prog, strings.Join(strs, ",")}
		if c.Replay != "" {
			b, _ := json.Marshal(cases[0])
			args = append(args, string(b))
		}
		cmd := mon.WorkerCmd(mon.Self(), out, args...)
		cmd.Env = append(cmd.Env, "GOMAXPROCS=4", "GOTRACEBACK=all")
		ef, err := os.Create(errf)
		if err != nil {
			c.Fatal("stderr file: %v", err)
		}
		cmd.Stderr, cmd.Stdout = ef, ef
		if err := cmd.Start(); err != nil {
			ef.Close()
			c.Fatal("cannot start worker: %v", err)
		}
		done := make(chan error, 1)
		go func() { done <- cmd.Wait() }()
		var res chunkResult
		// watchdog: every wait inside a worker is bounded by waitT; a worker that is still there after
		// this much is stuck somewhere the harness did not foresee: inconclusive, never a verdict
		budget := time.Duration(len(idx))*3*waitT + 2*time.Minute
		select {
		case res.exitErr = <-done:
		case <-time.After(budget):
			res.watchdog = true
			cmd.Process.Signal(syscall.SIGQUIT)
			select {
			case res.exitErr = <-done:
			case <-time.After(10 * time.Second):
				cmd.Process.Kill()
				res.exitErr = <-done
			}
		}
		ef.Close()
		res.last = readProgress(prog)
		if res.exitErr == nil && !res.watchdog && c.Merge(out) {
			res.ok = true
			return res
		}
		res.stderr = tailOf(errf, 200000)
		return res
	}

	specOf := func(i int) caseSpec {
		if c.Replay != "" {
			return cases[0]
		}
		return all[i]
	}
	// a case that killed its worker: run it alone, twice; two deaths = confirmed
	solo := func(i int) {
		sp := specOf(i)
		r1 := runProc([]int{i})
		if r1.ok {
			return
		}
		if r1.watchdog {
			c.Inconclusive("worker-watchdog/" + sp.Setup + "/" + sp.Scenario)
			c.Note("worker stuck in case %v at stage %q; goroutine dump tail: %s", sp, r1.last.Stage, headOf(r1.stderr, 1500))
			return
		}
		r2 := runProc([]int{i})
		if r2.ok {
			c.Inconclusive("worker-death-not-reproduced/" + sp.Setup + "/" + sp.Scenario)
			c.Note("case %v killed its worker once (%s at stage %q) but not when re-run", sp, panicClass(r1.stderr), r1.last.Stage)
			return
		}
		if r2.watchdog {
			c.Inconclusive("worker-watchdog/" + sp.Setup + "/" + sp.Scenario)
			return
		}
		c.Count("confirmed_process_deaths", 1)
		cls := panicClass(r2.stderr)
		if strings.HasPrefix(r2.last.Stage, "unjudged:") {
			// inputs outside what a real peer produces: counted, not judged
			c.Count("unjudged_process_deaths/"+sp.Setup+"/"+cls, 1)
			c.Note("UNJUDGED: case %v kills the process (%s) at stage %q — input outside what a real peer produces", sp, cls, r2.last.Stage)
			return
		}
		at := strings.Index(r2.stderr, "panic: ")
		if at < 0 {
			at = strings.Index(r2.stderr, "fatal error: ")
		}
		if at < 0 {
			at = 0
		}
		c.Eval(1)
		c.Violation(fmt.Sprintf("%s/%v/%s/%s/process-died/%s", sp.Setup, sp.Ver, sp.Comp, scenarioClass(sp.Scenario, r2.last.Stage), cls), map[string]interface{}{
			"case": sp, "seed": c.Seed, "tier": c.Tier, "stage": r2.last.Stage, "died_twice": true,
			"first_death_stage": r1.last.Stage, "exit": fmt.Sprint(r2.exitErr), "stderr": headOf(r2.stderr[at:], 3500),
		})
	}

	// chunks: consecutive cases differ in configuration, so a chunk mixes cheap and expensive ones
	var idx []int
	for i := range cases {
		if filter == "" || strings.Contains(cases[i].String(), filter) {
			idx = append(idx, i)
		}
	}
	if filter != "" {
		c.Set("case_filter", filter)
		c.Note("C15_FILTER=%q: %d of %d cases run — not a full run", filter, len(idx), len(cases))
	}
	chunkSize := c.Pick(6, 12)
	if c.Replay != "" {
		chunkSize = 1
	}
	var chunks [][]int
	nChunks := (len(idx) + chunkSize - 1) / chunkSize
	for k := 0; k < nChunks; k++ {
		var ch []int
		for i := k; i < len(idx); i += nChunks { // strided: neighbours (same configuration) go to different workers
			ch = append(ch, idx[i])
		}
		chunks = append(chunks, ch)
	}
	t0 := time.Now()
	// runChunk: on a death the progress file names the case; that one is confirmed alone and the rest of
	// the chunk (nothing of it was merged) runs again without it
	var runChunk func(ch []int, depth int)
	runChunk = func(ch []int, depth int) {
		if len(ch) == 0 {
			return
		}
		r := runProc(ch)
		if r.ok {
			return
		}
		c.Count("worker_processes_that_died", 1)
		if r.watchdog {
			c.Count("worker_processes_stuck", 1)
		}
		culprit := -1
		for _, i := range ch {
			if specOf(i).Index == r.last.Case {
				culprit = i
			}
		}
		if culprit < 0 || depth > len(ch)+2 {
			for _, i := range ch {
				solo(i)
			}
			return
		}
		solo(culprit)
		var rest []int
		for _, i := range ch {
			if i != culprit {
				rest = append(rest, i)
			}
		}
		runChunk(rest, depth+1)
	}
	mon.ParallelN(14, len(chunks), func(k int) { runChunk(chunks[k], 0) })
	c.Set("cases", len(cases))
	c.Set("case_chunks", len(chunks))
	c.Set("supervise_wall_s", time.Since(t0).Seconds())
	summarise(c)
}

// summarise derives the per-configuration coverage statement and refuses a run that did not
// exercise the property.
func summarise(c *mon.Ctx) {
	if c.Replay != "" {
		return
	}
	need := []string{"peer_envelopes_split", "peer_segments_not_self_contained", "split_points_judged", "lib_segments_plain"}
	for _, n := range need {
		if c.Counter(n) == 0 {
			c.Inconclusive("not-exercised/" + n)
		}
	}
	multi := int64(0)
	for k := 2; k <= 64; k++ {
		multi += c.Counter(fmt.Sprintf("peer_envelopes_per_segment/%d", k))
	}
	if multi == 0 {
		c.Inconclusive("not-exercised/several-envelopes-per-segment")
	}
}

// ---------------------------------------------------------------------------------------------
// progress file: a fixed-size record rewritten in place before every step

type progressRec struct {
	Case  int
	Stage string
}

const progSize = 256

type progress struct{ f *os.File }

func openProgress(path string) *progress {
	f, err := os.OpenFile(path, os.O_CREATE|os.O_RDWR, 0o644)
	if err != nil {
		return &progress{}
	}
	return &progress{f: f}
}

func (p *progress) set(idx int, stage string) {
	if p.f == nil {
		return
	}
	b := make([]byte, progSize)
	for i := range b {
		b[i] = ' '
	}
	s := fmt.Sprintf("%d|%s", idx, stage)
	if len(s) > progSize-1 {
		s = s[:progSize-1]
	}
	copy(b, s)
	b[progSize-1] = '\n'
	p.f.WriteAt(b, 0)
}

func readProgress(path string) progressRec {
	b, err := os.ReadFile(path)
	if err != nil {
		return progressRec{Case: -1}
	}
	s := strings.TrimSpace(string(b))
	i := strings.IndexByte(s, '|')
	if i < 0 {
		return progressRec{Case: -1}
	}
	n, err := strconv.Atoi(s[:i])
	if err != nil {
		return progressRec{Case: -1}
	}
	return progressRec{Case: n, Stage: s[i+1:]}
}

var _ = exec.Command
