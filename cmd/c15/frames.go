package main

// Frames of a session: version-valid abstract frames from the shared generator (internal/gen), plus
// hand-sized large envelopes. Everything is a function of the case PRNG.

import (
	"fmt"
	"strings"

	"verif/internal/gen"
	"verif/internal/mon"
	"verif/internal/ref"
	"verif/internal/segref"
)

type kindSets struct {
	req, resp, event, fatal []*gen.Kind
	startup                 *gen.Kind
}

func kindsFor(v ref.Version) kindSets {
	var s kindSets
	for i := range gen.Kinds {
		k := &gen.Kinds[i]
		if !k.Defined(v) {
			continue
		}
		switch {
		case k.Name == "STARTUP":
			s.startup = k // interpreted by the server's read path: sent last, see liblib.go
		case !k.Response:
			s.req = append(s.req, k)
		case strings.HasPrefix(k.Name, "EVENT."):
			s.event = append(s.event, k)
		case k.Name == "ERROR.ServerError" || k.Name == "ERROR.ProtocolError" || k.Name == "ERROR.AuthenticationError":
			s.fatal = append(s.fatal, k) // close the client connection by design: sent last
		default:
			s.resp = append(s.resp, k)
		}
	}
	return s
}

// sentFrame is one frame of a session with what is needed to judge and report it.
type sentFrame struct {
	abs   *ref.Frame
	kind  string
	sig   string
	size  int // length of the reference encoding (envelope size)
	label string
}

// generatedCap bounds generator-drawn envelopes (hand-sized ones go up to 3 MiB in the thorough tier).
const generatedCap = 2 << 20

func encodedSize(f *ref.Frame) int {
	b, err := ref.EncodeFrame(f, ref.EncOpts{})
	if err != nil {
		panic(fmt.Sprintf("reference encoder refused a generated frame: %v", err))
	}
	return len(b)
}

// draw generates one frame of one of the kinds. maxSize > 0 bounds the envelope size (a sender that
// cannot split envelopes over v5 segments): larger draws are counted and redrawn.
func (k *kase) draw(kinds []*gen.Kind, stream int16, maxSize int) sentFrame {
	for try := 0; ; try++ {
		kd := kinds[k.r.Intn(len(kinds))]
		forcePage := false
		if k.spec.Ver.HasContinuousPaging() && len(kinds) > 8 && kinds[0].Response && k.r.Intn(7) == 0 {
			// DSE continuous paging: "not the last page" results more often than the generator draws them, so that
			// requests that stay open after a response are exercised in every DSE session
			if rk := gen.KindByName("RESULT.Rows"); rk != nil {
				kd, forcePage = rk, true
			}
		}
		cs := gen.Frame(kd, k.spec.Ver, gen.NewRandChooser(k.r), k.r, k.big, -1)
		cs.Frame.Stream = stream
		if m, ok := cs.Frame.Msg.(*ref.ResultRows); ok && k.spec.Ver.HasContinuousPaging() && m.Meta.ContinuousPage == nil && forcePage {
			// DSE continuous paging: more "not the last page" results than the generator draws by itself, so that
			// requests that stay open after a response are exercised in every DSE session
			n := int32(1 + k.r.Intn(1000))
			m.Meta.ContinuousPage, m.Meta.LastPage = &n, false
			cs.Sig += "|page"
		}
		sz := encodedSize(cs.Frame)
		if maxSize == 0 && sz > generatedCap {
			k.count("generated_frames_redrawn_above_the_size_cap", 1) // the thorough value pools can add up to tens of MiB
			if try < 50 {
				continue
			}
		}
		if maxSize > 0 && sz > maxSize {
			k.count("generated_frames_redrawn_too_large_for_a_v5_library_sender", 1)
			if try < 50 {
				continue
			}
			panic("cannot draw a frame within the size bound")
		}
		return sentFrame{abs: cs.Frame, kind: cs.Kind, sig: cs.Sig, size: sz}
	}
}

// contentClasses used for the large bodies: compressible at very different ratios.
var bigClasses = []segref.Class{segref.Text, segref.Random, segref.AllEqual, segref.RandomRepeats, segref.Period7, segref.Window64K, segref.Precompressed, segref.Period255}

// bigFrame builds a request (QUERY with one blob value) or a response (RESULT Rows with blob cells)
// whose envelope is exactly target bytes long.
func (k *kase) bigFrame(response bool, stream int16, target int, class segref.Class) sentFrame {
	v := k.spec.Ver
	build := func(n int) *ref.Frame {
		content := segref.Content(class, n, k.r)
		f := &ref.Frame{Version: v, Response: response, Stream: stream}
		if response {
			m := &ref.ResultRows{Meta: ref.RowsMetadata{ColumnCount: 1, Columns: []ref.ColumnSpec{{Keyspace: "ks", Table: "t", Name: "c", Type: ref.Type{Code: 0x0003}}}}}
			// the content goes into one cell; a second, empty row keeps the row count > 1
			m.Rows = [][]ref.Bytes{{ref.B(content)}, {ref.B(nil)}}
			f.Msg = m
		} else {
			f.Msg = &ref.Query{Query: "INSERT INTO ks.t (c) VALUES (?)", Opts: ref.QueryOptions{Consistency: 1, HasValues: true, Positional: []ref.Value{{Kind: 0, B: content}}}}
		}
		return ref.Norm(f)
	}
	base := encodedSize(build(0))
	if target < base {
		target = base
	}
	f := build(target - base)
	if sz := encodedSize(f); sz != target {
		panic(fmt.Sprintf("bigFrame: wanted %d bytes, built %d", target, sz))
	}
	kind := "QUERY"
	if response {
		kind = "RESULT.Rows"
	}
	return sentFrame{abs: f, kind: kind, sig: fmt.Sprintf("big|%s|%v|%v|%d", kind, v, class, target), size: target, label: fmt.Sprintf("big/%v/%d", class, target)}
}

// small builds a small, fixed-shape envelope: barrier frames and the subjects of the every-split-point sweep.
func smallFrame(v ref.Version, response bool, stream int16, shape int, r *mon.Rand) sentFrame {
	f := &ref.Frame{Version: v, Response: response, Stream: stream}
	if response {
		switch shape % 4 {
		case 0:
			f.Msg = &ref.ResultVoid{} // 9 + 4
			var id [16]byte
			copy(id[:], r.Bytes(16))
			f.TracingID = &id // + 16 = 29 bytes
		case 1:
			f.Msg = &ref.ResultSetKeyspace{Keyspace: "keyspace_" + string(rune('a'+r.Intn(26)))}
		case 2:
			f.Msg = &ref.Error{Code: ref.ErrUnavailable, Message: "not enough replicas", Consistency: 6, Required: 3, Alive: 1}
		default:
			f.Msg = &ref.ResultRows{Meta: ref.RowsMetadata{ColumnCount: 2}, Rows: [][]ref.Bytes{{ref.B(r.Bytes(20)), ref.NullBytes}, {ref.B(nil), ref.B(r.Bytes(33))}}}
		}
	} else {
		switch shape % 4 {
		case 0:
			f.Msg = &ref.Options{} // 9 bytes: cannot be split at >= 9; used as barrier
		case 1:
			f.Msg = &ref.Register{Events: []string{"TOPOLOGY_CHANGE", "STATUS_CHANGE"}}
		case 2:
			f.Msg = &ref.Prepare{Query: "SELECT a, b FROM ks.t WHERE k = ?"}
		default:
			f.Msg = &ref.Query{Query: "SELECT * FROM system.local", Opts: ref.QueryOptions{Consistency: 1, HasValues: true, Positional: []ref.Value{{Kind: 0, B: r.Bytes(17)}, {Kind: -1}}}}
			f.TraceRequested = true
		}
	}
	ref.Norm(f)
	return sentFrame{abs: f, kind: f.Msg.Kind(), sig: fmt.Sprintf("small|%s|%v|%d", f.Msg.Kind(), v, shape%4), size: encodedSize(f), label: fmt.Sprintf("small/%d", shape%4)}
}

// isOpenAfter reports whether the client keeps a request open after this response (DSE continuous
// paging: a Rows result with a page number that is not the last page).
func isOpenAfter(f *ref.Frame) bool {
	if m, ok := f.Msg.(*ref.ResultRows); ok {
		return m.Meta.ContinuousPage != nil && !m.Meta.LastPage
	}
	return false
}

// idAlloc hands out caller-chosen, unique, non-zero stream ids (0 means "managed" to the library).
type idAlloc struct {
	v    ref.Version
	next int
	open map[int16]bool
}

func newIDs(v ref.Version) *idAlloc { return &idAlloc{v: v, next: 1, open: map[int16]bool{}} }

func (a *idAlloc) get() int16 {
	_, hi := a.v.StreamBounds()
	for {
		id := int16(a.next)
		a.next++
		if a.next > hi {
			a.next = 1
		}
		if !a.open[id] {
			return id
		}
	}
}

func jsonTrunc(f *ref.Frame) string {
	s := string(ref.JSON(f))
	if len(s) > 1500 {
		return s[:1500] + fmt.Sprintf("...(%d chars)", len(s))
	}
	return s
}
