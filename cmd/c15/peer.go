package main

// The raw peer: speaks TCP with the reference codec (internal/ref) and the reference segment layer
// (internal/segref) only. NOTHING in this file imports the library under test: what the peer reads
// off the wire is judged against the specification texts, and what it writes is produced by an
// implementation the library does not share.

import (
	"encoding/binary"
	"encoding/hex"
	"errors"
	"fmt"
	"io"
	"net"
	"strings"
	"time"

	"verif/internal/mon"
	"verif/internal/ref"
	"verif/internal/segref"
)

var errTimeout = errors.New("timed out")

// wire is one end of a TCP connection driven by the raw peer.
type wire struct {
	k      *kase
	c      net.Conn
	ver    ref.Version
	comp   string // negotiated body / payload compression: none | lz4 | snappy
	modern bool   // v5 segments are in force (after READY / AUTHENTICATE)
	r      *mon.Rand
	dir    string // what the library end sends: "request" (peer is the server) or "response"
	dead   error  // first read/write error (connection closed by the other end, reset)
}

func (w *wire) format() segref.Format {
	if w.comp == "lz4" {
		return segref.LZ4
	}
	return segref.Plain
}

// ---------------------------------------------------------------------------------------------
// compression oracles (legacy framing: v4 spec §5 / DSE spec §5: "lz4 ... the first four bytes of
// the body will be the uncompressed length (followed by the compressed bytes)", "snappy")

func lz4Body(b []byte) []byte {
	out := make([]byte, 4, len(b)/4+16)
	binary.BigEndian.PutUint32(out, uint32(len(b)))
	return append(out, segref.LZ4EncodeBlock(b)...)
}

func unLz4Body(b []byte) ([]byte, error) {
	if len(b) < 4 {
		return nil, fmt.Errorf("lz4 body of %d bytes cannot hold the 4-byte uncompressed length", len(b))
	}
	n := int(binary.BigEndian.Uint32(b))
	if n > 256<<20 {
		return nil, fmt.Errorf("lz4 body announces %d uncompressed bytes", n)
	}
	out, _, err := segref.LZ4DecodeBlock(b[4:], n)
	if err != nil {
		return nil, err
	}
	if len(out) != n {
		return nil, fmt.Errorf("lz4 block expands to %d bytes, length prefix announces %d", len(out), n)
	}
	return out, nil
}

// snappyBody is a small Snappy block encoder written from format_description.txt: literals and
// 2-byte-offset copies found with one hash probe per position.
func snappyBody(src []byte) []byte {
	dst := make([]byte, 0, len(src)/2+16)
	n := uint64(len(src))
	for n >= 0x80 {
		dst = append(dst, byte(n)|0x80)
		n >>= 7
	}
	dst = append(dst, byte(n))
	lit := func(b []byte) {
		for len(b) > 0 {
			c := b
			if len(c) > 65536 {
				c = c[:65536]
			}
			l := len(c) - 1
			switch {
			case l < 60:
				dst = append(dst, byte(l)<<2)
			case l < 256:
				dst = append(dst, 60<<2, byte(l))
			default:
				dst = append(dst, 61<<2, byte(l), byte(l>>8))
			}
			dst = append(dst, c...)
			b = b[len(c):]
		}
	}
	const hashBits = 14
	var table [1 << hashBits]int32
	anchor := 0
	for i := 0; i+4 <= len(src); {
		v := binary.LittleEndian.Uint32(src[i:])
		h := (v * 2654435761) >> (32 - hashBits)
		cand := int(table[h]) - 1
		table[h] = int32(i + 1)
		if cand >= 0 && i-cand <= 65535 && binary.LittleEndian.Uint32(src[cand:]) == v {
			m := 4
			for i+m < len(src) && src[cand+m] == src[i+m] {
				m++
			}
			lit(src[anchor:i])
			off := i - cand
			for rest := m; rest > 0; {
				l := rest
				if l > 64 {
					l = 64
				}
				dst = append(dst, byte(l-1)<<2|2, byte(off), byte(off>>8))
				rest -= l
			}
			i += m
			anchor = i
			continue
		}
		i++
	}
	lit(src[anchor:])
	return dst
}

func unSnappyBody(b []byte) ([]byte, error) {
	out, _, err := segref.SnappyDecodeBlock(b, 256<<20)
	return out, err
}

func (w *wire) compressor() func([]byte) []byte {
	switch w.comp {
	case "lz4":
		return lz4Body
	case "snappy":
		return snappyBody
	}
	return nil
}

func (w *wire) decompressor() func([]byte) ([]byte, error) {
	switch w.comp {
	case "lz4":
		return unLz4Body
	case "snappy":
		return unSnappyBody
	}
	return nil
}

// ---------------------------------------------------------------------------------------------
// reading what the library wrote

func (w *wire) readN(n int) ([]byte, error) {
	if w.dead != nil {
		return nil, w.dead
	}
	w.c.SetReadDeadline(time.Now().Add(waitT))
	b := make([]byte, n)
	if _, err := io.ReadFull(w.c, b); err != nil {
		var ne net.Error
		if errors.As(err, &ne) && ne.Timeout() {
			return nil, errTimeout
		}
		w.dead = err
		return nil, err
	}
	w.k.count("bytes_checked_from_library", int64(n))
	return b, nil
}

// envObs is one envelope as the library put it on the wire.
type envObs struct {
	raw     []byte // header + body exactly as transmitted (inside the segment payload for v5)
	framed  bool   // travelled inside a v5 segment
	segDesc string
}

// wireProblem is a byte-level deviation the peer found while reading (class is a stable slug).
type wireProblem struct {
	class string
	text  string
	hex   string
}

func (p *wireProblem) Error() string { return p.class + ": " + p.text }

func hexTrunc(b []byte, n int) string {
	if len(b) > n {
		return hex.EncodeToString(b[:n]) + fmt.Sprintf("...(%d bytes)", len(b))
	}
	return hex.EncodeToString(b)
}

// readLegacy reads one unframed envelope: the 8/9 byte header, then as many bytes as it announces.
// mustBe is the first byte the specification requires at this point (version | direction).
func (w *wire) readLegacy() ([]byte, error) {
	b0, err := w.readN(1)
	if err != nil {
		return nil, err
	}
	want := byte(w.ver)
	if w.dir == "response" {
		want |= 0x80
	}
	if b0[0] != want {
		// not an envelope header of this connection's version: e.g. a segment header where an unframed
		// envelope is due. Grab what else is there for the report.
		w.c.SetReadDeadline(time.Now().Add(300 * time.Millisecond))
		more := make([]byte, 64)
		n, _ := w.c.Read(more)
		return nil, &wireProblem{"not-an-unframed-envelope", fmt.Sprintf("first byte %#02x, an unframed %v %s envelope starts with %#02x", b0[0], w.ver, w.dir, want), hexTrunc(append(b0, more[:n]...), 80)}
	}
	rest, err := w.readN(w.ver.HeaderLen() - 1)
	if err != nil {
		return nil, err
	}
	hb := append(b0, rest...)
	h, _, herr := ref.DecodeHeader(hb)
	if herr != nil {
		return nil, &wireProblem{"envelope-header", herr.Error(), hexTrunc(hb, 32)}
	}
	if h.Length > 256<<20 { // v4 §2.5: "a frame is limited to 256MB in length"
		return nil, &wireProblem{"envelope-header", fmt.Sprintf("body length %d", h.Length), hexTrunc(hb, 32)}
	}
	body, err := w.readN(int(h.Length))
	if err != nil {
		return nil, err
	}
	return append(hb, body...), nil
}

// readSegment reads one v5 segment and parses it strictly.
func (w *wire) readSegment() (segref.Parsed, []byte, error) {
	f := w.format()
	hl := f.HeaderLen()
	hb, err := w.readN(hl + segref.CRC24Len)
	if err != nil {
		return segref.Parsed{}, nil, err
	}
	h, _ := segref.UnpackHeader(f, hb[:hl])
	if stored, comp := uint32(hb[hl])|uint32(hb[hl+1])<<8|uint32(hb[hl+2])<<16, segref.CRC24(hb[:hl]); stored != comp {
		w.c.SetReadDeadline(time.Now().Add(300 * time.Millisecond))
		more := make([]byte, 64)
		n, _ := w.c.Read(more)
		return segref.Parsed{}, nil, &wireProblem{"segment/crc24", fmt.Sprintf("%v segment header % x: stored CRC-24 %06x, computed %06x (is this a segment at all?)", f, hb[:hl], stored, comp), hexTrunc(append(hb, more[:n]...), 80)}
	}
	rest, err := w.readN(int(h.Length) + segref.CRC32Len)
	if err != nil {
		return segref.Parsed{}, nil, err
	}
	full := append(hb, rest...)
	p, probs := segref.ParseStrict(f, full)
	if len(probs) > 0 {
		return p, full, &wireProblem{"segment/" + probs[0].Field, probs[0].Text, hexTrunc(full, 80)}
	}
	return p, full, nil
}

// readEnvelopes collects the next n envelopes the library sends: unframed envelopes under legacy
// framing, the content of CRC-valid segments under v5 framing.
func (w *wire) readEnvelopes(n int) ([]envObs, error) {
	return w.readWhile(func(out []envObs) bool { return len(out) < n })
}

// streamOf reads the stream id out of an envelope header.
func streamOf(raw []byte) int16 {
	h, _, _ := ref.DecodeHeader(raw)
	return h.Stream
}

// readThrough collects envelopes until one with the barrier's stream id has been read (the library
// writes frames in the order they were handed to Send, so everything before the barrier is there).
func (w *wire) readThrough(barrier int16, limit int) ([]envObs, error) {
	return w.readWhile(func(out []envObs) bool {
		return len(out) < limit && (len(out) == 0 || streamOf(out[len(out)-1].raw) != barrier)
	})
}

func (w *wire) readWhile(more func([]envObs) bool) ([]envObs, error) {
	var out []envObs
	if !w.modern {
		for more(out) {
			raw, err := w.readLegacy()
			if err != nil {
				return out, err
			}
			out = append(out, envObs{raw: raw})
		}
		return out, nil
	}
	var acc []byte // parts of an envelope the library split over segments (it does not today)
	for more(out) {
		p, full, err := w.readSegment()
		if err != nil {
			return out, err
		}
		payload, perr := p.Payload()
		if perr != nil {
			return out, &wireProblem{"segment/lz4-payload/" + segref.ErrKind(perr), perr.Error(), hexTrunc(full, 80)}
		}
		desc := "plain"
		if p.Header.Format == segref.LZ4 {
			if p.Header.UncompressedLength > 0 {
				desc = "lz4-compressed"
				w.k.count("lib_segments_lz4_compressed", 1)
			} else {
				desc = "lz4-fallback"
				w.k.count("lib_segments_lz4_uncompressed_fallback", 1)
			}
		} else {
			w.k.count("lib_segments_plain", 1)
		}
		w.k.max("max_lib_segment_payload", int64(len(payload)))
		if !p.Header.SelfContained {
			w.k.count("lib_segments_not_self_contained", 1)
			acc = append(acc, payload...)
			if len(acc) >= 9 {
				h, _, herr := ref.DecodeHeader(acc[:9])
				if herr != nil {
					return out, &wireProblem{"envelope-header", herr.Error(), hexTrunc(acc, 32)}
				}
				if len(acc) == 9+int(h.Length) {
					out = append(out, envObs{raw: acc, framed: true, segDesc: desc + "/multi-part"})
					acc = nil
				} else if len(acc) > 9+int(h.Length) {
					return out, &wireProblem{"multi-part-overshoot", fmt.Sprintf("parts add up to %d bytes, the envelope header announces %d", len(acc), 9+int(h.Length)), hexTrunc(acc, 32)}
				}
			}
			continue
		}
		if acc != nil {
			return out, &wireProblem{"multi-part-interrupted", "a self-contained segment arrived inside a multi-part envelope", hexTrunc(full, 80)}
		}
		cnt := 0
		for len(payload) > 0 {
			if len(payload) < 9 {
				return out, &wireProblem{"segment-payload-trailing", fmt.Sprintf("%d bytes left in a self-contained segment cannot hold an envelope header", len(payload)), hexTrunc(payload, 32)}
			}
			h, _, herr := ref.DecodeHeader(payload[:9])
			if herr != nil {
				return out, &wireProblem{"envelope-header", herr.Error(), hexTrunc(payload, 32)}
			}
			if int(h.Length) > len(payload)-9 {
				return out, &wireProblem{"envelope-exceeds-segment", fmt.Sprintf("envelope announces %d body bytes, %d left in the self-contained segment", h.Length, len(payload)-9), hexTrunc(payload, 32)}
			}
			out = append(out, envObs{raw: payload[:9+int(h.Length)], framed: true, segDesc: desc})
			payload = payload[9+int(h.Length):]
			cnt++
		}
		w.k.count(fmt.Sprintf("lib_envelopes_per_segment/%d", cnt), 1)
	}
	return out, nil
}

// judgeEnvelope decides whether one envelope the library wrote is, byte for byte, a
// specification-conformant encoding of the frame that was handed to Send. It returns "" or the
// violation class, with particulars.
func (w *wire) judgeEnvelope(o envObs, want *ref.Frame, neverCompressed bool) (class string, text string) {
	h, _, _ := ref.DecodeHeader(o.raw)
	if o.framed {
		// v5 §2.4: "It was also previously possible to enable compression for an individual envelope.
		// This is no longer possible ... The compression flag is therefore deprecated and ignored".
		plain := o.raw
		if h.Flags&ref.FlagCompressed != 0 {
			w.k.count("lib_framed_envelopes_with_compressed_flag", 1)
			plain = append([]byte{}, o.raw...)
			plain[1] &^= ref.FlagCompressed
		}
		got, _, err := ref.DecodeFrame(plain, nil)
		if err == nil && ref.Equal(ref.Norm(got), want) {
			if h.Flags&ref.FlagCompressed != 0 {
				w.k.count("lib_framed_envelopes_flag_set_but_body_plain", 1) // "deprecated and ignored": not judged
			}
			return "", ""
		}
		if h.Flags&ref.FlagCompressed != 0 {
			for _, d := range []func([]byte) ([]byte, error){unLz4Body, unSnappyBody} {
				if g2, _, e2 := ref.DecodeFrame(o.raw, d); e2 == nil && ref.Equal(ref.Norm(g2), want) {
					return "envelope-compressed-inside-segment", fmt.Sprintf("the envelope carries the COMPRESSED flag and its %d-byte body is individually compressed (it expands to the body that was sent); read as v5 prescribes (flag ignored) it gives: %v", h.Length, err)
				}
			}
		}
		if err != nil && h.Flags&ref.FlagCompressed != 0 {
			// the particulars of reading compressed bytes as a message are noise: one stable class
			return w.dir + "-bytes-not-spec-conformant/compressed-flag-inside-segment-and-unreadable-body", err.Error()
		}
		if err != nil {
			return w.dir + "-bytes-not-spec-conformant/" + slug(err.Error()), err.Error()
		}
		return w.dir + "-differs-on-the-wire", ref.Diff(want, got)
	}
	if h.Flags&ref.FlagCompressed != 0 {
		w.k.count("lib_legacy_envelopes_compressed", 1)
		if neverCompressed {
			return "startup-compressed", "STARTUP carries the COMPRESSED flag (v4 §5: \"a STARTUP message must never be compressed\")"
		}
		if w.comp == "none" {
			return w.dir + "-bytes-not-spec-conformant/compressed-flag-without-negotiated-compression", "COMPRESSED flag although no compression was negotiated"
		}
	} else {
		w.k.count("lib_legacy_envelopes_uncompressed", 1)
	}
	got, _, err := ref.DecodeFrame(o.raw, w.decompressor())
	if err != nil {
		return w.dir + "-bytes-not-spec-conformant/" + slug(err.Error()), err.Error()
	}
	if !ref.Equal(ref.Norm(got), want) {
		return w.dir + "-differs-on-the-wire", ref.Diff(want, got)
	}
	return "", ""
}

// slug turns an error text into a stable class: digits and particulars removed.
func slug(s string) string {
	var b strings.Builder
	dash := false
	for _, r := range strings.ToLower(s) {
		switch {
		case r >= 'a' && r <= 'z':
			b.WriteRune(r)
			dash = false
		default:
			if !dash && b.Len() > 0 {
				b.WriteByte('-')
				dash = true
			}
		}
		if b.Len() >= 70 {
			break
		}
	}
	return strings.Trim(b.String(), "-")
}

// ---------------------------------------------------------------------------------------------
// writing

// write sends bytes, sometimes in PRNG-sized pieces so that the library's reads meet short TCP reads.
func (w *wire) write(b []byte) error {
	if w.dead != nil {
		return w.dead
	}
	w.c.SetWriteDeadline(time.Now().Add(waitT))
	w.k.count("bytes_sent_by_peer", int64(len(b)))
	if w.r.Intn(4) == 0 && len(b) > 1 {
		for len(b) > 0 {
			n := 1 + w.r.Intn(len(b))
			if w.r.Intn(3) == 0 && n > 16 {
				n = 1 + w.r.Intn(16)
			}
			if _, err := w.c.Write(b[:n]); err != nil {
				w.dead = err
				return err
			}
			b = b[n:]
		}
		return nil
	}
	if _, err := w.c.Write(b); err != nil {
		w.dead = err
		return err
	}
	return nil
}

// encode renders an abstract frame with the reference encoder. compress applies the negotiated
// legacy body compression (never inside v5 segments).
func (w *wire) encode(f *ref.Frame, compress bool) []byte {
	o := ref.EncOpts{NoGlobalSpec: w.r.Intn(3) == 0}
	var b []byte
	var err error
	if compress && !w.modern && w.compressor() != nil {
		b, err = ref.EncodeFrameCompressed(f, o, w.compressor())
		w.k.count("peer_legacy_envelopes_compressed", 1)
	} else {
		b, err = ref.EncodeFrame(f, o)
	}
	if err != nil {
		panic(fmt.Sprintf("reference encoder refused a generated frame: %v", err))
	}
	return b
}

// segPlan says how the peer lays envelopes out in v5 segments.
type segPlan struct {
	Mode   string `json:"mode"`              // single | packed | split
	MaxPer int    `json:"max_per,omitempty"` // packed: envelopes per self-contained segment
	Cuts   []int  `json:"cuts,omitempty"`    // split: cut positions inside the (single) envelope
	LZ4    string `json:"lz4,omitempty"`     // compress | fallback | mixed (LZ4 format only)
}

func (w *wire) segment(payload []byte, self bool, lz4mode string) ([]byte, string) {
	if w.format() == segref.Plain {
		b, err := segref.WritePlain(payload, self)
		if err != nil {
			panic(err)
		}
		return b, "plain"
	}
	compress := lz4mode == "compress" || (lz4mode != "fallback" && w.r.Bool())
	if compress {
		// a real peer only sends the compressed form when it is smaller
		if blk := segref.LZ4EncodeBlock(payload); len(blk) < len(payload) {
			b, err := segref.WriteLZ4Compressed(blk, len(payload), self)
			if err != nil {
				panic(err)
			}
			w.k.count("peer_segments_lz4_compressed", 1)
			return b, "lz4-compressed"
		}
	}
	b, err := segref.WriteLZ4Fallback(payload, self)
	if err != nil {
		panic(err)
	}
	w.k.count("peer_segments_lz4_uncompressed_fallback", 1)
	return b, "lz4-fallback"
}

// sendEnvelopes puts encoded envelopes on the wire: back to back under legacy framing, in segments
// laid out according to plan under v5 framing. It returns a description of the segmentation.
func (w *wire) sendEnvelopes(envs [][]byte, plan segPlan) (string, error) {
	if !w.modern {
		var all []byte
		for _, e := range envs {
			all = append(all, e...)
		}
		return "legacy", w.write(all)
	}
	var out []byte
	var desc []string
	emit := func(payload []byte, self bool, n int) {
		b, d := w.segment(payload, self, plan.LZ4)
		out = append(out, b...)
		if self {
			desc = append(desc, fmt.Sprintf("self(%d env,%dB,%s)", n, len(payload), d))
			switch {
			case n > 128:
				w.k.count("peer_envelopes_per_segment/129-1024", 1)
				w.k.max("max_peer_envelopes_in_one_segment", int64(n))
			case n > 32:
				w.k.count("peer_envelopes_per_segment/033-128", 1)
			default:
				w.k.count(fmt.Sprintf("peer_envelopes_per_segment/%d", n), 1)
			}
		} else {
			desc = append(desc, fmt.Sprintf("part(%dB,%s)", len(payload), d))
			w.k.count("peer_segments_not_self_contained", 1)
		}
	}
	splitAt := func(e []byte, cuts []int) {
		prev := 0
		for _, c := range append(append([]int{}, cuts...), len(e)) {
			for c-prev > segref.MaxPayload { // a part can never exceed the maximum payload
				emit(e[prev:prev+segref.MaxPayload], false, 0)
				prev += segref.MaxPayload
			}
			if c > prev {
				emit(e[prev:c], false, 0)
			}
			prev = c
		}
		w.k.count("peer_envelopes_split", 1)
	}
	switch plan.Mode {
	case "split":
		if len(envs) != 1 {
			panic("split plan needs exactly one envelope")
		}
		splitAt(envs[0], plan.Cuts)
	default:
		maxPer := 1
		if plan.Mode == "packed" {
			maxPer = plan.MaxPer
		}
		var cur []byte
		n := 0
		flush := func() {
			if n > 0 {
				emit(cur, true, n)
				cur, n = nil, 0
			}
		}
		for _, e := range envs {
			if len(e) > segref.MaxPayload {
				flush()
				splitAt(e, nil)
				continue
			}
			if n >= maxPer || len(cur)+len(e) > segref.MaxPayload {
				flush()
			}
			cur = append(cur, e...)
			n++
		}
		flush()
	}
	d := strings.Join(desc, " ")
	if len(d) > 400 {
		d = d[:400] + "..."
	}
	return d, w.write(out)
}
