package main

// Set-up 1: library client <-> library server over real TCP (127.0.0.1:0).

import (
	"context"
	"fmt"

	"github.com/datastax/go-cassandra-native-protocol/client"
	"github.com/datastax/go-cassandra-native-protocol/frame"
	"github.com/datastax/go-cassandra-native-protocol/message"

	"verif/internal/ref"
	"verif/internal/segref"
)

const libReadTimeout = 900 // seconds: library-internal request timeouts must not fire inside a case

type libPair struct {
	k      *kase
	srv    *client.CqlServer
	lc     *libClient
	ls     *libServer
	cancel context.CancelFunc
}

func (p *libPair) close() {
	p.k.stage("closing")
	var fs []func() error
	if p.lc != nil && p.lc.cc != nil {
		fs = append(fs, p.lc.cc.Close)
	}
	if p.ls != nil && p.ls.sc != nil {
		fs = append(fs, p.ls.sc.Close)
	}
	if p.srv != nil {
		fs = append(fs, p.srv.Close)
	}
	p.k.closeQuietly(fs...)
	if p.cancel != nil {
		p.cancel()
	}
}

// openLibPair starts a server on a free port, connects a client and performs the handshake
// (optionally preceded by OPTIONS/SUPPORTED). nil = the case cannot go on (already recorded).
func openLibPair(k *kase, optionsFirst bool) *libPair { return openLibPairWith(k, optionsFirst, nil) }

// openLibPairWith: mh != nil registers the marker handler on the server and leaves Receive uncalled
// after the handshake (scenario burst).
func openLibPairWith(k *kase, optionsFirst bool, mh *markerHandler) *libPair {
	k.stage("lib-lib: connect")
	ctx, cancel := context.WithCancel(context.Background())
	p := &libPair{k: k, cancel: cancel}
	p.srv = client.NewCqlServer("127.0.0.1:0", k.creds())
	if mh != nil {
		p.srv.RequestHandlers = []client.RequestHandler{mh.handle}
	}
	if err := p.srv.Start(ctx); err != nil {
		k.inconclusive("harness/server-start-failed")
		cancel()
		return nil
	}
	cl := client.NewCqlClient(p.srv.VerifAddr().String(), k.creds())
	cl.Compression = k.libCompression()
	cl.ReadTimeout = libReadTimeout * 1e9
	cc, sc, err := p.srv.Bind(cl, ctx)
	if err != nil {
		k.inconclusive("harness/bind-failed")
		k.c.Note("bind failed: %v", err)
		p.close()
		return nil
	}
	p.lc = &libClient{k: k, cc: cc}
	p.ls = &libServer{k: k, sc: sc}
	k.stage("lib-lib: handshake (options first: %v)", optionsFirst)
	hsErr, to := withTimeout(func() error {
		done := make(chan error, 1)
		go func() { done <- sc.AcceptHandshake() }()
		if optionsFirst {
			resp, err := cc.SendAndReceive(frame.NewFrame(k.libVersion(), 1, &message.Options{}))
			if err != nil {
				return fmt.Errorf("OPTIONS before STARTUP: %w", err)
			}
			if _, ok := resp.Body.Message.(*message.Supported); !ok {
				return fmt.Errorf("OPTIONS before STARTUP answered by %v", resp.Body.Message)
			}
		}
		if err := cc.InitiateHandshake(k.libVersion(), 1); err != nil {
			return err
		}
		return <-done
	})
	if to {
		k.inconclusive("timeout-in-handshake")
		p.close()
		return nil
	}
	if hsErr != nil {
		k.c.Eval(1)
		k.violation("handshake-failed/"+slug(innermost(hsErr.Error())), map[string]interface{}{"options_first": optionsFirst, "error": hsErr.Error()})
		p.close()
		return nil
	}
	k.count("handshakes/"+k.cfg, 1)
	if mh == nil {
		p.ls.startPump()
	}
	return p
}

// slugNoAddr: error class without the connection addresses (ports differ from run to run).
func slugNoAddr(s string) string {
	out := []byte{}
	depth := 0
	for i := 0; i < len(s); i++ {
		switch {
		case s[i] == '[':
			depth++
		case s[i] == ']' && depth > 0:
			depth--
		case depth == 0:
			out = append(out, s[i])
		}
	}
	return slug(string(out))
}

func runLibLib(k *kase) {
	if k.spec.Scenario == "refused" {
		// v5 + Snappy: the client must refuse to start (NewStartupRequest); counted, nothing to exchange
		p := openLibPairExpectRefusal(k)
		_ = p
		return
	}
	optionsFirst := k.r.Bool()
	if k.spec.Scenario == "burst" {
		mh := newMarkerHandler()
		if p := openLibPairWith(k, optionsFirst, mh); p != nil {
			defer p.close()
			libLibBurst(k, p, mh)
		}
		return
	}
	p := openLibPair(k, optionsFirst)
	if p == nil {
		return
	}
	defer p.close()
	switch k.spec.Scenario {
	case "frames":
		libLibFrames(k, p, k.c.Pick(50, 50), nil)
	case "big":
		sizes := []int{70000, segref.MaxPayload, segref.MaxPayload + 1, 200000, 2*segref.MaxPayload + 7, 300 << 10}
		if k.big {
			sizes = append(sizes, 512<<10, 1<<20+3, 3<<20)
		}
		libLibFrames(k, p, len(sizes), sizes)
	case "oversize-probe":
		libLibOversize(k, p)
	}
}

func openLibPairExpectRefusal(k *kase) *libPair {
	ctx, cancel := context.WithCancel(context.Background())
	p := &libPair{k: k, cancel: cancel}
	p.srv = client.NewCqlServer("127.0.0.1:0", k.creds())
	if err := p.srv.Start(ctx); err != nil {
		k.inconclusive("harness/server-start-failed")
		cancel()
		return nil
	}
	defer p.close()
	cl := client.NewCqlClient(p.srv.VerifAddr().String(), k.creds())
	cl.Compression = k.libCompression()
	cc, sc, err := p.srv.Bind(cl, ctx)
	if err != nil {
		k.inconclusive("harness/bind-failed")
		return nil
	}
	p.lc = &libClient{k: k, cc: cc}
	p.ls = &libServer{k: k, sc: sc}
	err, to := withTimeout(func() error { return cc.InitiateHandshake(k.libVersion(), 1) })
	switch {
	case to:
		k.count("v5_snappy_handshake_timed_out", 1)
	case err != nil:
		k.count("v5_snappy_refused_by_client", 1)
	default:
		k.count("v5_snappy_handshake_succeeded", 1)
	}
	return nil
}

// libLibFrames runs the exchange: batches of requests client->server, responses (permuted), events
// and extra pages server->client, each batch closed by a barrier in either direction.
// bigSizes != nil: every batch carries one hand-sized envelope per direction instead of generated ones.
func libLibFrames(k *kase, p *libPair, nFrames int, bigSizes []int) {
	v := k.spec.Ver
	ks := kindsFor(v)
	ids := newIDs(v)
	maxSize := 0
	if v.ModernFraming() {
		maxSize = segref.MaxPayload // the library does not split envelopes over segments
	}
	sent := 0
	batchNo := 0
	for sent < nFrames {
		batchNo++
		nb := 1 + k.r.Intn(8)
		if bigSizes != nil {
			nb = 1
		}
		if nb > nFrames-sent {
			nb = nFrames - sent
		}
		k.stage("lib-lib: batch %d (%d requests)", batchNo, nb)
		var ps []*pending
		var reqs []sentFrame
		for i := 0; i < nb; i++ {
			var sf sentFrame
			switch {
			case bigSizes != nil:
				sf = k.bigFrame(false, ids.get(), bigSizes[sent+i], bigClasses[k.r.Intn(len(bigClasses))])
			case v.ModernFraming() && sent+i == 7:
				sf = k.bigFrame(false, ids.get(), segref.MaxPayload, segref.Random) // the largest envelope one segment holds
			default:
				sf = k.draw(ks.req, ids.get(), maxSize)
			}
			compressed := k.spec.Comp != "none" && k.r.Bool()
			if v.ModernFraming() && k.r.Intn(4) == 0 {
				compressed = true // the client must clear the flag inside segments, whatever was negotiated
			}
			pd, err := p.lc.send(sf, compressed)
			if err != nil {
				k.c.Eval(1)
				k.violation("send-refused/"+slugNoAddr(firstLine(err.Error())), map[string]interface{}{"error": headOf(err.Error(), 600), "sent": jsonTrunc(sf.abs)})
				return
			}
			ps = append(ps, pd)
			reqs = append(reqs, sf)
		}
		bar := smallFrame(v, false, ids.get(), 0, k.r)
		bpd, err := p.lc.send(bar, false)
		if err != nil {
			k.inconclusive("harness/barrier-send-refused")
			return
		}
		if !p.ls.judgeRequests(reqs, bar, "library client", "lib") {
			return
		}
		// responses, permuted; some requests get an extra page first (DSE continuous paging), events in between
		order := perm(k, len(ps))
		var events []sentFrame
		for _, i := range order {
			pd := ps[i]
			var resp sentFrame
			switch {
			case bigSizes != nil:
				resp = k.bigFrame(true, pd.req.abs.Stream, bigSizes[sent+i], bigClasses[k.r.Intn(len(bigClasses))])
			case v.ModernFraming() && sent+i == 7:
				resp = k.bigFrame(true, pd.req.abs.Stream, segref.MaxPayload, segref.Random)
			default:
				resp = k.draw(ks.resp, pd.req.abs.Stream, maxSize)
			}
			pd.want = append(pd.want, resp)
			if err := p.ls.send(resp, k.spec.Comp != "none" && k.r.Bool()); err != nil {
				k.violation("send-refused/"+slugNoAddr(firstLine(err.Error())), map[string]interface{}{"error": headOf(err.Error(), 600), "sent": jsonTrunc(resp.abs)})
				return
			}
			if isOpenAfter(resp.abs) {
				// the request stays open: a second frame on the same stream must arrive on the same channel, after the first
				k.count("multi_page_responses", 1)
				second := k.draw(ks.resp, pd.req.abs.Stream, maxSize)
				pd.want = append(pd.want, second)
				if isOpenAfter(second.abs) {
					ids.open[pd.req.abs.Stream] = true
				}
				if err := p.ls.send(second, false); err != nil {
					k.inconclusive("harness/server-send-refused")
					return
				}
			}
			if k.r.Intn(4) == 0 {
				ev := k.draw(ks.event, -1, maxSize)
				events = append(events, ev)
				if err := p.ls.send(ev, false); err != nil {
					k.inconclusive("harness/server-send-refused")
					return
				}
			}
		}
		bresp := smallFrame(v, true, bar.abs.Stream, 0, k.r)
		if err := p.ls.send(bresp, false); err != nil {
			k.inconclusive("harness/server-send-refused")
			return
		}
		_, st := p.lc.awaitOne(bpd)
		if st == "timeout" {
			k.inconclusive("timeout-waiting-for-barrier-response")
			return
		}
		closed := st == "closed"
		if closed {
			k.count("client_connection_closed_before_barrier", 1)
		}
		p.lc.judgeResponses(ps, "library server", "lib")
		p.lc.judgeEvents(events, "library server", "lib")
		if closed {
			// every missing frame has been reported as lost above; if none was missing, say what happened
			k.violation("connection-closed-by-client-mid-session", map[string]interface{}{"what": "the client connection closed itself while valid responses were arriving", "batch": labels(reqs)})
			return
		}
		sent += nb
	}
	if bigSizes != nil {
		return
	}
	// the two frames whose reception changes the connection: one of them, last
	if k.r.Bool() {
		k.stage("lib-lib: final STARTUP request")
		sf := k.draw([]*genKind{ks.startup}, ids.get(), maxSize)
		if _, err := p.lc.send(sf, false); err != nil {
			k.inconclusive("harness/final-send-refused")
			return
		}
		f, st := p.ls.next()
		switch st {
		case "timeout":
			k.inconclusive("timeout-waiting-for-final-request")
		case "closed":
			k.judged("request", sf, "lib")
			k.violation("request-lost/connection-closed", map[string]interface{}{"what": "the server connection closed instead of delivering a STARTUP request sent after the handshake", "sent": jsonTrunc(sf.abs)})
		default:
			k.judged("request", sf, "lib")
			if ok, d := k.compareLib(sf, f); !ok {
				k.violation("request-differs", d)
			}
		}
		return
	}
	k.stage("lib-lib: final fatal ERROR response")
	req := k.draw(ks.req, ids.get(), maxSize)
	pd, err := p.lc.send(req, false)
	if err != nil {
		k.inconclusive("harness/final-send-refused")
		return
	}
	if _, st := p.ls.next(); st != "ok" {
		k.inconclusive("final-request-not-received")
		return
	}
	resp := k.draw(ks.fatal, req.abs.Stream, maxSize)
	if err := p.ls.send(resp, false); err != nil {
		k.inconclusive("harness/server-send-refused")
		return
	}
	f, st := p.lc.awaitOne(pd)
	switch st {
	case "timeout":
		k.inconclusive("timeout-waiting-for-final-response")
	case "closed":
		k.judged("response", resp, "lib")
		k.violation("response-lost/connection-closed", map[string]interface{}{"what": "a fatal ERROR response closed the connection without reaching its request", "sent": jsonTrunc(resp.abs), "request_err": fmt.Sprint(pd.fl.Err())})
	default:
		k.judged("response", resp, "lib")
		if ok, d := k.compareLib(resp, f); !ok {
			k.violation("response-differs", d)
		}
	}
}

// libLibOversize: what the library does with an envelope one byte larger than a segment can hold.
// The statement's quantifier asks for large envelopes "on receive" only: counted, not judged.
func libLibOversize(k *kase, p *libPair) {
	v := k.spec.Ver
	ids := newIDs(v)
	k.stage("unjudged: lib-lib: client sends an envelope of %d bytes", segref.MaxPayload+1)
	sf := k.bigFrame(false, ids.get(), segref.MaxPayload+1, segref.Text)
	if _, err := p.lc.send(sf, false); err != nil {
		k.count("oversize_v5_request/send-refused", 1)
		return
	}
	f, st := p.ls.next()
	switch st {
	case "ok":
		if ok, _ := k.compareLib(sf, f); ok {
			k.count("oversize_v5_request/delivered-equal", 1)
		} else {
			k.count("oversize_v5_request/delivered-different", 1)
		}
	case "closed":
		k.count("oversize_v5_request/connection-closed", 1)
	default:
		if p.lc.cc.IsClosed() {
			k.count("oversize_v5_request/client-connection-closed-itself", 1)
		} else {
			k.count("oversize_v5_request/nothing-observed", 1)
		}
	}
}

func perm(k *kase, n int) []int {
	o := make([]int, n)
	for i := range o {
		o[i] = i
	}
	for i := n - 1; i > 0; i-- {
		j := k.r.Intn(i + 1)
		o[i], o[j] = o[j], o[i]
	}
	return o
}

func firstLine(s string) string {
	for i := 0; i < len(s); i++ {
		if s[i] == '\n' {
			return s[:i]
		}
	}
	return s
}

var _ = ref.V5
