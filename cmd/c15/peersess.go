package main

// Set-ups 2 and 3: the raw peer (peer.go) on one end, the library on the other.

import (
	"context"
	"errors"
	"fmt"
	"net"
	"time"

	"github.com/datastax/go-cassandra-native-protocol/client"

	"verif/internal/gen"
	"verif/internal/ref"
	"verif/internal/segref"
)

type genKind = gen.Kind

// outGroup is a run of envelopes the peer sends with one segmentation plan.
type outGroup struct {
	frames []sentFrame
	plan   segPlan
}

type peerSess struct {
	k      *kase
	w      *wire
	lc     *libClient // set-up 2
	ls     *libServer // set-up 3
	srv    *client.CqlServer
	ln     net.Listener
	cancel context.CancelFunc
	ids    *idAlloc
	early  *sentFrame // late-write: the request sent the moment READY had been read
}

func (s *peerSess) close() {
	s.k.stage("closing")
	if s.w != nil && s.w.c != nil {
		s.w.c.Close()
	}
	var fs []func() error
	if s.lc != nil && s.lc.cc != nil {
		fs = append(fs, s.lc.cc.Close)
	}
	if s.ls != nil && s.ls.sc != nil {
		fs = append(fs, s.ls.sc.Close)
	}
	if s.srv != nil {
		fs = append(fs, s.srv.Close)
	}
	s.k.closeQuietly(fs...)
	if s.ln != nil {
		s.ln.Close()
	}
	if s.cancel != nil {
		s.cancel()
	}
}

// wireTrouble turns a failed read of the peer into a verdict: a byte-level deviation is a violation,
// a connection the library closed while frames were due is a loss, a timeout is inconclusive.
func (s *peerSess) wireTrouble(err error, during string, detail map[string]interface{}) {
	k := s.k
	if detail == nil {
		detail = map[string]interface{}{}
	}
	detail["during"] = during
	var wp *wireProblem
	switch {
	case errors.Is(err, errTimeout):
		k.inconclusive("timeout-reading-from-library")
	case errors.As(err, &wp):
		detail["problem"] = wp.text
		detail["wire_hex"] = wp.hex
		k.c.Eval(1)
		if during == "handshake" {
			k.violation("handshake-bytes-not-spec-conformant/"+wp.class, detail)
		} else {
			k.violation(s.w.dir+"-bytes-not-spec-conformant/"+wp.class, detail)
		}
	default:
		detail["read_error"] = err.Error()
		k.c.Eval(1)
		k.violation(s.w.dir+"-lost/connection-closed", detail)
	}
}

// markSplit notes in the progress file that envelopes split over several segments are about to be
// sent (what the supervisor keys a death by).
func (s *peerSess) markSplit(groups []outGroup) {
	if !s.w.modern {
		return
	}
	for _, g := range groups {
		for _, f := range g.frames {
			if g.plan.Mode == "split" || f.size > segref.MaxPayload {
				s.k.stage("%s [split]", s.k.step)
				return
			}
		}
	}
}

func authToken(c *client.AuthCredentials) []byte {
	return []byte("\x00" + c.Username + "\x00" + c.Password)
}

// ---------------------------------------------------------------------------------------------
// set-up 2: raw peer as server <-> library client

func openPeerServer(k *kase, optionsFirst bool) *peerSess {
	k.stage("peer-server: connect")
	v := k.spec.Ver
	ctx, cancel := context.WithCancel(context.Background())
	s := &peerSess{k: k, cancel: cancel, ids: newIDs(v)}
	ln, err := net.Listen("tcp", "127.0.0.1:0")
	if err != nil {
		k.inconclusive("harness/listen-failed")
		cancel()
		return nil
	}
	s.ln = ln
	cl := client.NewCqlClient(ln.Addr().String(), k.creds())
	cl.Compression = k.libCompression()
	cl.ReadTimeout = libReadTimeout * time.Second
	cc, err := cl.Connect(ctx)
	if err != nil {
		k.inconclusive("harness/connect-failed")
		s.close()
		return nil
	}
	s.lc = &libClient{k: k, cc: cc}
	ln.(*net.TCPListener).SetDeadline(time.Now().Add(waitT))
	pc, err := ln.Accept()
	if err != nil {
		k.inconclusive("harness/accept-failed")
		s.close()
		return nil
	}
	s.w = &wire{k: k, c: pc, ver: v, comp: "none", r: k.r, dir: "request"}
	w := s.w
	k.stage("peer-server: handshake (options first: %v)", optionsFirst)
	if optionsFirst {
		// v5 §2.3.1: "the initial STARTUP message and any OPTIONS messages which precede it are expected to be unframed.
		// Likewise ... SUPPORTED in response to OPTIONS"
		opt := smallFrame(v, false, s.ids.get(), 0, k.r)
		pd, err := s.lc.send(opt, false)
		if err != nil {
			k.inconclusive("harness/send-refused")
			s.close()
			return nil
		}
		obs, err := w.readEnvelopes(1)
		if err != nil {
			s.wireTrouble(err, "handshake", map[string]interface{}{"expected": "OPTIONS before STARTUP, unframed"})
			s.close()
			return nil
		}
		k.judged("request", opt, "unframed")
		if cls, txt := w.judgeEnvelope(obs[0], opt.abs, true); cls != "" {
			k.violation("handshake-"+cls, map[string]interface{}{"problem": txt, "wire_hex": hexTrunc(obs[0].raw, 80)})
		}
		sup := k.draw([]*genKind{gen.KindByName("SUPPORTED")}, opt.abs.Stream, 0)
		pd.want = []sentFrame{sup}
		if _, err := w.sendEnvelopes([][]byte{w.encode(sup.abs, false)}, segPlan{Mode: "single"}); err != nil {
			k.inconclusive("harness/peer-write-failed")
			s.close()
			return nil
		}
		f, st := s.lc.awaitOne(pd)
		if st != "ok" {
			if st == "closed" {
				k.violation("handshake-failed/supported-not-delivered", map[string]interface{}{"request_err": fmt.Sprint(pd.fl.Err())})
			} else {
				k.inconclusive("timeout-in-handshake")
			}
			s.close()
			return nil
		}
		k.judged("response", sup, "unframed")
		if ok, d := k.compareLib(sup, f); !ok {
			k.violation("response-differs", d)
		}
	}
	hs := make(chan error, 1)
	go func() { hs <- cc.InitiateHandshake(k.libVersion(), 1) }()
	obs, err := w.readEnvelopes(1)
	if err != nil {
		s.wireTrouble(err, "handshake", map[string]interface{}{"expected": "STARTUP, unframed", "options_first": optionsFirst})
		s.close()
		return nil
	}
	k.c.Eval(1)
	k.c.Distinct(k.cfg + "|startup-bytes|" + fmt.Sprint(optionsFirst))
	st, _, derr := ref.DecodeFrame(obs[0].raw, nil)
	su, isStartup := (*ref.Startup)(nil), false
	if derr == nil {
		su, isStartup = st.Msg.(*ref.Startup)
	}
	switch {
	case derr != nil:
		cls := "startup-bytes-not-spec-conformant/" + slug(derr.Error())
		if h, _, e := ref.DecodeHeader(obs[0].raw); e == nil && h.Flags&ref.FlagCompressed != 0 {
			cls = "startup-compressed"
		}
		k.violation("handshake-"+cls, map[string]interface{}{"problem": derr.Error(), "wire_hex": hexTrunc(obs[0].raw, 80)})
		s.close()
		return nil
	case !isStartup:
		k.violation("handshake-first-message-is-not-startup", map[string]interface{}{"got": jsonTrunc(st), "wire_hex": hexTrunc(obs[0].raw, 80)})
		s.close()
		return nil
	}
	wantComp := map[string]string{"none": "", "lz4": "lz4", "snappy": "snappy"}[k.spec.Comp]
	gotComp := ""
	for _, kv := range su.Options {
		if kv.K == "COMPRESSION" {
			gotComp = kv.V
		}
	}
	if gotComp != "" {
		k.count("client_startup_compression_option_value/"+gotComp, 1) // the specs spell them lz4 / snappy; Cassandra ignores case
	}
	if !equalFold(gotComp, wantComp) {
		k.violation("handshake-startup-compression-option-wrong", map[string]interface{}{"startup": jsonTrunc(st), "configured": k.spec.Comp})
	}
	w.comp = k.spec.Comp
	// the answer: READY / AUTHENTICATE, unframed (v5 §2.3.1); under legacy framing it may be compressed
	var first ref.Msg = &ref.Ready{}
	if k.spec.Auth {
		first = &ref.Authenticate{Authenticator: "org.apache.cassandra.auth.PasswordAuthenticator"}
	}
	ans := &ref.Frame{Version: v, Response: true, Stream: st.Stream, Msg: first}
	if err := w.write(w.encode(ans, !v.ModernFraming() && k.r.Bool())); err != nil {
		k.inconclusive("harness/peer-write-failed")
		s.close()
		return nil
	}
	if v.ModernFraming() {
		w.modern = true
	}
	if k.spec.Auth {
		obs, err := w.readEnvelopes(1)
		if err != nil {
			s.wireTrouble(err, "handshake", map[string]interface{}{"expected": "AUTH_RESPONSE after AUTHENTICATE (inside a segment for v5)"})
			s.close()
			return nil
		}
		want := sentFrame{abs: ref.Norm(&ref.Frame{Version: v, Stream: st.Stream, Msg: &ref.AuthResponse{Token: ref.B(authToken(k.creds()))}}), kind: "AUTH_RESPONSE", sig: "handshake-auth-response"}
		want.size = encodedSize(want.abs)
		k.judged("request", want, "handshake")
		if cls, txt := w.judgeEnvelope(obs[0], want.abs, false); cls != "" {
			k.violation("handshake-"+cls, map[string]interface{}{"problem": txt, "wire_hex": hexTrunc(obs[0].raw, 80)})
		}
		ok := &ref.Frame{Version: v, Response: true, Stream: st.Stream, Msg: &ref.AuthSuccess{Token: ref.NullBytes}}
		if _, err := w.sendEnvelopes([][]byte{w.encode(ok, k.r.Bool())}, segPlan{Mode: "single"}); err != nil {
			k.inconclusive("harness/peer-write-failed")
			s.close()
			return nil
		}
	}
	select {
	case err := <-hs:
		if err != nil {
			k.c.Eval(1)
			k.violation("handshake-failed/"+slug(innermost(err.Error())), map[string]interface{}{"error": err.Error(), "options_first": optionsFirst})
			s.close()
			return nil
		}
	case <-time.After(waitT):
		k.inconclusive("timeout-in-handshake")
		s.close()
		return nil
	}
	k.count("handshakes/"+k.cfg, 1)
	return s
}

func equalFold(a, b string) bool {
	if len(a) != len(b) {
		return false
	}
	for i := 0; i < len(a); i++ {
		x, y := a[i], b[i]
		if x >= 'A' && x <= 'Z' {
			x += 32
		}
		if y >= 'A' && y <= 'Z' {
			y += 32
		}
		if x != y {
			return false
		}
	}
	return true
}

// psRound: the library client sends reqs (+ a barrier); the peer judges their wire bytes, answers
// with the groups (responses carry the stream of their request, events -1) and the barrier's
// answer; then the deliveries are judged. reqFlags[i]: COMPRESSED flag handed to Send.
func (s *peerSess) psRound(reqs []sentFrame, groups []outGroup, segClass string) bool {
	k, w := s.k, s.w
	s.markSplit(groups)
	byStream := map[int16]*pending{}
	var ps []*pending
	for _, sf := range reqs {
		compressed := k.spec.Comp != "none" && k.r.Bool()
		if k.spec.Ver.ModernFraming() && k.r.Intn(4) == 0 {
			compressed = true
		}
		pd, err := s.lc.send(sf, compressed)
		if err != nil {
			k.c.Eval(1)
			k.violation("send-refused/"+slugNoAddr(firstLine(err.Error())), map[string]interface{}{"error": headOf(err.Error(), 600), "sent": jsonTrunc(sf.abs)})
			return false
		}
		ps = append(ps, pd)
		byStream[sf.abs.Stream] = pd
	}
	bar := smallFrame(k.spec.Ver, false, s.ids.get(), 0, k.r)
	bpd, err := s.lc.send(bar, false)
	if err != nil {
		k.inconclusive("harness/barrier-send-refused")
		return false
	}
	all := append(append([]sentFrame{}, reqs...), bar)
	obs, err := w.readThrough(bar.abs.Stream, len(all)+8)
	s.matchWire(obs, all, err == nil)
	if err != nil {
		s.wireTrouble(err, "exchange", map[string]interface{}{"batch": labels(all), "envelopes_read_before": len(obs)})
		return false
	}
	// answers
	var events []sentFrame
	var descs []string
	for _, g := range groups {
		var envs [][]byte
		for _, f := range g.frames {
			envs = append(envs, w.encode(f.abs, k.r.Bool()))
			if f.abs.Stream == -1 {
				events = append(events, f)
			} else if pd := byStream[f.abs.Stream]; pd != nil {
				pd.want = append(pd.want, f)
			}
		}
		d, err := w.sendEnvelopes(envs, g.plan)
		descs = append(descs, d)
		if err != nil {
			break // the library closed the connection: the barrier wait below sees it
		}
	}
	segDesc := fmt.Sprint(descs)
	if len(segDesc) > 700 {
		segDesc = segDesc[:700] + "..."
	}
	bresp := smallFrame(k.spec.Ver, true, bar.abs.Stream, 0, k.r)
	w.sendEnvelopes([][]byte{w.encode(bresp.abs, false)}, segPlan{Mode: "single", LZ4: "fallback"})
	_, st := s.lc.awaitOne(bpd)
	if st == "timeout" {
		if !s.lc.cc.IsClosed() {
			k.inconclusive("timeout-waiting-for-barrier-response")
			return false
		}
		st = "closed"
	}
	s.lc.judgeResponses(ps, segDesc, segClass)
	s.lc.judgeEvents(events, segDesc, segClass)
	if st == "closed" {
		k.violation("connection-closed-by-client-mid-session", map[string]interface{}{"what": "the client connection closed itself while valid responses were arriving", "segmentation": segDesc, "batch": labels(reqs)})
		return false
	}
	return true
}

func runPeerServer(k *kase) {
	if k.spec.Scenario == "refused" {
		return // covered by lib-lib/refused: the client refuses before any byte is written
	}
	if k.spec.Scenario == "split-lt9" {
		for p := 1; p <= 8; p++ {
			s := openPeerServer(k, false)
			if s == nil {
				return
			}
			k.stage("unjudged: peer-server: response split at %d (first part shorter than the envelope header)", p)
			req := smallFrame(k.spec.Ver, false, s.ids.get(), 1, k.r)
			resp := smallFrame(k.spec.Ver, true, req.abs.Stream, 1, k.r)
			unjudgedSplit(s, p, func() string {
				pd, err := s.lc.send(req, false)
				if err != nil {
					return "send-refused"
				}
				if _, err := s.w.readEnvelopes(1); err != nil {
					return "request-not-read"
				}
				s.w.sendEnvelopes([][]byte{s.w.encode(resp.abs, false)}, segPlan{Mode: "split", Cuts: []int{p}, LZ4: "fallback"})
				f, st := s.lc.awaitOne(pd)
				if st == "ok" {
					if ok, _ := k.compareLib(resp, f); ok {
						return "delivered-equal"
					}
					return "delivered-different"
				}
				if st == "closed" || s.lc.cc.IsClosed() {
					return "connection-closed"
				}
				return "nothing-delivered"
			})
			s.close()
		}
		return
	}
	s := openPeerServer(k, k.r.Bool())
	if s == nil {
		return
	}
	defer s.close()
	runScenario(k, s, false)
}

// unjudgedSplit: split points below 9 are outside what a real peer produces; what happens is counted.
func unjudgedSplit(s *peerSess, p int, f func() string) {
	old := waitT
	waitT = 3 * time.Second // nothing is judged here: do not sit out the full wait
	out := f()
	waitT = old
	s.k.count("split_points_unjudged", 1)
	s.k.count(fmt.Sprintf("unjudged_split_below_9/%s/%s", s.k.spec.Setup, out), 1)
}

// ---------------------------------------------------------------------------------------------
// set-up 3: raw peer as client <-> library server

func openPeerClient(k *kase, optionsFirst bool) *peerSess {
	return openPeerClientWith(k, optionsFirst, nil)
}

// openPeerClientWith: mh != nil registers the marker handler on the server and leaves Receive
// uncalled after the handshake (scenario burst). Scenario late-write: the server connection is made
// over a net.Conn whose first writes return late (VerifNewServerConn), see burst.go.
func openPeerClientWith(k *kase, optionsFirst bool, mh *markerHandler) *peerSess {
	k.stage("peer-client: connect")
	v := k.spec.Ver
	ctx, cancel := context.WithCancel(context.Background())
	s := &peerSess{k: k, cancel: cancel, ids: newIDs(v)}
	var pc net.Conn
	var sc *client.CqlServerConnection
	var late *lateWriteConn
	if k.spec.Scenario == "late-write" {
		ln, err := net.Listen("tcp", "127.0.0.1:0")
		if err != nil {
			k.inconclusive("harness/listen-failed")
			cancel()
			return nil
		}
		s.ln = ln
		if pc, err = net.DialTimeout("tcp", ln.Addr().String(), waitT); err != nil {
			k.inconclusive("harness/dial-failed")
			s.close()
			return nil
		}
		ln.(*net.TCPListener).SetDeadline(time.Now().Add(waitT))
		srvSide, err := ln.Accept()
		if err != nil {
			k.inconclusive("harness/accept-failed")
			pc.Close()
			s.close()
			return nil
		}
		late = &lateWriteConn{Conn: srvSide, delay: 30 * time.Millisecond}
		late.armed.Store(14)
		if sc, err = client.VerifNewServerConn(late, ctx, k.creds(), client.DefaultMaxInFlight, client.DefaultIdleTimeout, nil, nil, nil); err != nil {
			k.inconclusive("harness/server-conn-failed")
			pc.Close()
			srvSide.Close()
			s.close()
			return nil
		}
	} else {
		s.srv = client.NewCqlServer("127.0.0.1:0", k.creds())
		if mh != nil {
			s.srv.RequestHandlers = []client.RequestHandler{mh.handle}
		}
		if err := s.srv.Start(ctx); err != nil {
			k.inconclusive("harness/server-start-failed")
			cancel()
			return nil
		}
		var err error
		if pc, err = net.DialTimeout("tcp", s.srv.VerifAddr().String(), waitT); err != nil {
			k.inconclusive("harness/dial-failed")
			s.close()
			return nil
		}
		if err, to := withTimeout(func() error { var e error; sc, e = s.srv.AcceptAny(); return e }); to || err != nil {
			k.inconclusive("harness/accept-failed")
			pc.Close()
			s.close()
			return nil
		}
	}
	s.w = &wire{k: k, c: pc, ver: v, comp: "none", r: k.r, dir: "response"}
	w := s.w
	var err error
	s.ls = &libServer{k: k, sc: sc}
	k.stage("peer-client: handshake (options first: %v)", optionsFirst)
	hs := make(chan error, 1)
	go func() { hs <- sc.AcceptHandshake() }()
	if optionsFirst {
		opt := &ref.Frame{Version: v, Stream: s.ids.get(), Msg: &ref.Options{}}
		if err := w.write(w.encode(opt, false)); err != nil {
			k.inconclusive("harness/peer-write-failed")
			s.close()
			return nil
		}
		obs, err := w.readEnvelopes(1)
		if err != nil {
			s.wireTrouble(err, "handshake", map[string]interface{}{"expected": "SUPPORTED in response to OPTIONS before STARTUP, unframed"})
			s.close()
			return nil
		}
		want := sentFrame{abs: ref.Norm(&ref.Frame{Version: v, Response: true, Stream: opt.Stream, Msg: &ref.Supported{}}), kind: "SUPPORTED", sig: "handshake-supported"}
		want.size = encodedSize(want.abs)
		k.judged("response", want, "unframed")
		if cls, txt := w.judgeEnvelope(obs[0], want.abs, false); cls != "" {
			k.violation("handshake-"+cls, map[string]interface{}{"problem": txt, "wire_hex": hexTrunc(obs[0].raw, 80)})
		}
	}
	opts := []ref.KV{{K: "CQL_VERSION", V: "3.0.0"}}
	if k.spec.Comp != "none" {
		// the specs spell the algorithms "lz4" and "snappy" (v4 §5); Cassandra compares case-insensitively and the
		// library's own client sends "LZ4" / "SNAPPY". The spec spelling is the subject of the scenario
		// "startup-spec-names" only, so that a server which insists on upper case still gets the other scenarios.
		name := map[string]string{"lz4": "LZ4", "snappy": "SNAPPY"}[k.spec.Comp]
		if k.spec.Scenario == "startup-spec-names" {
			name = k.spec.Comp
		}
		opts = append(opts, ref.KV{K: "COMPRESSION", V: name})
	}
	stream := s.ids.get()
	su := ref.Norm(&ref.Frame{Version: v, Stream: stream, Msg: &ref.Startup{Options: opts}})
	if err := w.write(w.encode(su, false)); err != nil {
		k.inconclusive("harness/peer-write-failed")
		s.close()
		return nil
	}
	w.comp = k.spec.Comp
	var obs []envObs
	if k.spec.Scenario == "startup-spec-names" {
		// the only scenario in which the peer spells the algorithm as the specification does. If the server never
		// answers, the verdict does not come from the clock but from the library's own report that it could not
		// write the frame handed to Send.
		type res struct {
			o   []envObs
			err error
		}
		ch := make(chan res, 1)
		go func() { o, e := w.readEnvelopes(1); ch <- res{o, e} }()
		var r res
		got := false
		for waited := time.Duration(0); !got && waited < waitT; waited += 20 * time.Millisecond {
			select {
			case r = <-ch:
				got = true
			case <-time.After(20 * time.Millisecond):
				if line := libErrors.find("error writing"); line != "" {
					select {
					case r = <-ch:
						got = true
					case <-time.After(500 * time.Millisecond):
					}
					if !got {
						k.c.Eval(1)
						k.c.Distinct(k.cfg + "|startup-spec-names")
						k.violation("handshake-failed/spec-spelling-of-compression-name/"+slug(innermost(jsonField(line, "error"))), map[string]interface{}{
							"what":    fmt.Sprintf("STARTUP with COMPRESSION=%q (the spelling of the specification, v4 §5; what every driver sends) is accepted, but the response to it is never written: the library reports a write failure and stays silent", k.spec.Comp),
							"startup": jsonTrunc(su), "startup_hex": hexTrunc(w.encode(su, false), 96), "library_says": line})
						pc.Close()
						<-ch
						s.close()
						return nil
					}
				}
			}
		}
		if !got {
			k.inconclusive("timeout-in-handshake")
			pc.Close()
			s.close()
			return nil
		}
		obs, err = r.o, r.err
	} else {
		obs, err = w.readEnvelopes(1)
	}
	if err != nil {
		s.wireTrouble(err, "handshake", map[string]interface{}{"expected": "READY / AUTHENTICATE in response to STARTUP, unframed"})
		s.close()
		return nil
	}
	var first ref.Msg = &ref.Ready{}
	if k.spec.Auth {
		first = &ref.Authenticate{Authenticator: "org.apache.cassandra.auth.PasswordAuthenticator"}
	}
	want := sentFrame{abs: ref.Norm(&ref.Frame{Version: v, Response: true, Stream: stream, Msg: first}), kind: first.Kind(), sig: "handshake-" + first.Kind()}
	want.size = encodedSize(want.abs)
	k.judged("response", want, "unframed")
	if h, _, e := ref.DecodeHeader(obs[0].raw); e == nil && v.ModernFraming() && h.Flags&ref.FlagCompressed != 0 {
		// v5 §2.4.1.2 calls the flag "deprecated and ignored" while §2.3.2 still says the response to STARTUP may be
		// compressed; Cassandra sends it plain. Counted, judged by the legacy rules only.
		k.count("v5_unframed_handshake_response_with_compressed_flag_and_body/"+first.Kind(), 1)
	} else if e == nil && h.Flags&ref.FlagCompressed != 0 {
		// legacy framing: v4 §5 "messages can be compressed (including the response to the STARTUP request)": allowed;
		// an empty READY body becomes 00 00 00 00 + the one-byte block 00 (LZ4) or the single byte 00 (Snappy)
		k.count("legacy_handshake_response_compressed/"+first.Kind()+"/"+k.spec.Comp, 1)
	}
	if cls, txt := w.judgeEnvelope(obs[0], want.abs, false); cls != "" {
		k.violation("handshake-"+cls, map[string]interface{}{"problem": txt, "wire_hex": hexTrunc(obs[0].raw, 80)})
		s.close()
		return nil
	}
	if v.ModernFraming() {
		w.modern = true
	}
	if late != nil && !k.spec.Auth {
		// a pipelining client: its first request segment leaves the moment READY has been read
		e := smallFrame(v, false, s.ids.get(), 2, k.r)
		if _, err := w.sendEnvelopes([][]byte{w.encode(e.abs, false)}, segPlan{Mode: "single", LZ4: s.lz4Mode()}); err != nil {
			k.inconclusive("harness/peer-write-failed")
			s.close()
			return nil
		}
		s.early = &e
	}
	if k.spec.Auth {
		ar := &ref.Frame{Version: v, Stream: stream, Msg: &ref.AuthResponse{Token: ref.B(authToken(k.creds()))}}
		if _, err := w.sendEnvelopes([][]byte{w.encode(ar, k.r.Bool())}, segPlan{Mode: "single"}); err != nil {
			k.inconclusive("harness/peer-write-failed")
			s.close()
			return nil
		}
		obs, err := w.readEnvelopes(1)
		if err != nil {
			s.wireTrouble(err, "handshake", map[string]interface{}{"expected": "AUTH_SUCCESS (inside a segment for v5)"})
			s.close()
			return nil
		}
		want := sentFrame{abs: ref.Norm(&ref.Frame{Version: v, Response: true, Stream: stream, Msg: &ref.AuthSuccess{Token: ref.NullBytes}}), kind: "AUTH_SUCCESS", sig: "handshake-auth-success"}
		want.size = encodedSize(want.abs)
		k.judged("response", want, "handshake")
		if cls, txt := w.judgeEnvelope(obs[0], want.abs, false); cls != "" {
			k.violation(cls, map[string]interface{}{"problem": txt, "during": "handshake (AUTH_SUCCESS)", "wire_hex": hexTrunc(obs[0].raw, 80), "inside": obs[0].segDesc})
		}
	}
	select {
	case err := <-hs:
		if err != nil {
			k.c.Eval(1)
			k.violation("handshake-failed/"+slug(innermost(err.Error())), map[string]interface{}{"error": err.Error(), "options_first": optionsFirst})
			s.close()
			return nil
		}
	case <-time.After(waitT):
		k.inconclusive("timeout-in-handshake")
		s.close()
		return nil
	}
	k.count("handshakes/"+k.cfg, 1)
	if late != nil {
		k.count("late_write_server_writes_that_returned_late", late.late.Load())
	}
	if mh == nil {
		s.ls.startPump()
	}
	return s
}

// pcRound: the peer sends the groups of requests (+ a barrier request); what the server connection
// received is judged; then the library server sends resps and the peer judges their wire bytes.
func (s *peerSess) pcRound(groups []outGroup, resps []sentFrame, segClass string) bool {
	k, w := s.k, s.w
	s.markSplit(groups)
	var reqs []sentFrame
	var descs []string
	for _, g := range groups {
		var envs [][]byte
		for _, f := range g.frames {
			envs = append(envs, w.encode(f.abs, k.r.Bool()))
			reqs = append(reqs, f)
		}
		d, err := w.sendEnvelopes(envs, g.plan)
		descs = append(descs, d)
		if err != nil {
			break
		}
	}
	segDesc := fmt.Sprint(descs)
	if len(segDesc) > 700 {
		segDesc = segDesc[:700] + "..."
	}
	bar := smallFrame(k.spec.Ver, false, s.ids.get(), 0, k.r)
	w.sendEnvelopes([][]byte{w.encode(bar.abs, false)}, segPlan{Mode: "single", LZ4: "fallback"})
	if !s.ls.judgeRequests(reqs, bar, segDesc, segClass) {
		return false
	}
	if len(resps) == 0 {
		return true
	}
	for _, r := range resps {
		if err := s.ls.send(r, k.spec.Comp != "none" && k.r.Bool()); err != nil {
			k.c.Eval(1)
			k.violation("send-refused/"+slugNoAddr(firstLine(err.Error())), map[string]interface{}{"error": headOf(err.Error(), 600), "sent": jsonTrunc(r.abs)})
			return false
		}
	}
	// a barrier response behind them: what is missing when it arrives was dropped by the library
	bresp := smallFrame(k.spec.Ver, true, bar.abs.Stream, 0, k.r)
	if err := s.ls.send(bresp, false); err != nil {
		k.inconclusive("harness/server-send-refused")
		return false
	}
	all := append(append([]sentFrame{}, resps...), bresp)
	obs, err := w.readThrough(bar.abs.Stream, len(all)+8)
	s.matchWire(obs, all, err == nil)
	if err != nil {
		s.wireTrouble(err, "exchange", map[string]interface{}{"batch": labels(all), "envelopes_read_before": len(obs)})
		return false
	}
	return true
}

// matchWire pairs the envelopes the library wrote with the frames handed to Send (the last one being
// the barrier) by stream id, in order, and judges each pair. complete: the barrier was read, so
// a frame without a partner was never written (the library writes in Send order).
func (s *peerSess) matchWire(obs []envObs, sent []sentFrame, complete bool) {
	k, w := s.k, s.w
	j := 0
	lost := func(f sentFrame, pos int) {
		k.judged(w.dir, f, "wire")
		k.violation(w.dir+"-lost", map[string]interface{}{
			"what": fmt.Sprintf("%s %d of the batch (stream %d) was handed to Send but never written, although frames handed over later were", w.dir, pos+1, f.abs.Stream),
			"sent": jsonTrunc(f.abs), "frame_label": f.label, "envelope_bytes": f.size, "batch": labels(sent)})
	}
	for _, o := range obs {
		st := streamOf(o.raw)
		m := -1
		for t := j; t < len(sent); t++ {
			if sent[t].abs.Stream == st {
				m = t
				break
			}
		}
		if m < 0 {
			k.c.Eval(1)
			k.violation(w.dir+"-duplicated-or-spurious-on-the-wire", map[string]interface{}{"what": fmt.Sprintf("an envelope with stream %d that matches no frame handed to Send", st), "wire_hex": hexTrunc(o.raw, 96), "batch": labels(sent)})
			continue
		}
		for t := j; t < m; t++ {
			lost(sent[t], t)
		}
		if m < len(sent)-1 {
			k.judged(w.dir, sent[m], "wire")
		}
		if cls, txt := w.judgeEnvelope(o, sent[m].abs, false); cls != "" {
			k.violation(cls, map[string]interface{}{"problem": txt, "sent": jsonTrunc(sent[m].abs), "frame_label": sent[m].label, "wire_hex": hexTrunc(o.raw, 96), "inside": o.segDesc, "position_in_batch": m, "batch": labels(sent)})
		}
		j = m + 1
	}
	if complete {
		for t := j; t < len(sent); t++ {
			lost(sent[t], t)
		}
	}
}

func runPeerClient(k *kase) {
	if k.spec.Scenario == "refused" {
		// a raw client asks a library server for v5 + snappy: what happens is counted only
		return
	}
	if k.spec.Scenario == "split-lt9" {
		for p := 1; p <= 8; p++ {
			s := openPeerClient(k, false)
			if s == nil {
				return
			}
			k.stage("unjudged: peer-client: request split at %d (first part shorter than the envelope header)", p)
			req := smallFrame(k.spec.Ver, false, s.ids.get(), 1, k.r)
			unjudgedSplit(s, p, func() string {
				s.w.sendEnvelopes([][]byte{s.w.encode(req.abs, false)}, segPlan{Mode: "split", Cuts: []int{p}, LZ4: "fallback"})
				f, st := s.ls.next()
				if st == "ok" {
					if ok, _ := k.compareLib(req, f); ok {
						return "delivered-equal"
					}
					return "delivered-different"
				}
				if st == "closed" || s.ls.sc.IsClosed() {
					return "connection-closed"
				}
				return "nothing-delivered"
			})
			s.close()
		}
		return
	}
	if k.spec.Scenario == "burst" {
		mh := newMarkerHandler()
		if s := openPeerClientWith(k, k.r.Bool(), mh); s != nil {
			defer s.close()
			peerBurst(k, s, mh)
		}
		return
	}
	s := openPeerClient(k, k.spec.Scenario != "late-write" && k.r.Bool())
	if s == nil {
		return
	}
	defer s.close()
	if k.spec.Scenario == "late-write" {
		// the handshake and the first segments behind it are the subject; a few frames follow at once
		k.alias = "frames-short"
		if s.early != nil {
			k.stage("peer-client: late-write: the request sent right behind READY")
			bar := smallFrame(k.spec.Ver, false, s.ids.get(), 0, k.r)
			s.w.sendEnvelopes([][]byte{s.w.encode(bar.abs, false)}, segPlan{Mode: "single", LZ4: "fallback"})
			if !s.ls.judgeRequests([]sentFrame{*s.early}, bar, "first segment, sent the moment READY had been read", "late-write") {
				return
			}
		}
	}
	if k.spec.Scenario == "startup-spec-names" {
		// the handshake went through with the specification's spelling; a few frames to see the compression at work
		k.count("startup_spec_names_understood", 1)
		k.alias = "frames-short"
	}
	runScenario(k, s, true)
}

// ---------------------------------------------------------------------------------------------
// scenarios, shared by both peer set-ups. peerIsClient: the peer's envelopes are requests.

func (s *peerSess) lz4Mode() string {
	return []string{"compress", "fallback", "mixed"}[s.k.r.Intn(3)]
}

func runScenario(k *kase, s *peerSess, peerIsClient bool) {
	v := k.spec.Ver
	ks := kindsFor(v)
	libMax := 0 // bound for envelopes the LIBRARY sends
	if v.ModernFraming() {
		libMax = segref.MaxPayload
	}
	// peerFrame draws an envelope the peer sends; libFrame one the library sends
	peerKinds, libKinds := ks.resp, ks.req
	if peerIsClient {
		peerKinds, libKinds = ks.req, ks.resp
	}
	rounds := 0
	round := func(peerGroups []outGroup, segClass string) bool {
		rounds++
		// the library-side frames that go with the peer's frames: one per non-event peer frame
		if peerIsClient {
			var resps []sentFrame
			for _, g := range peerGroups {
				for _, f := range g.frames {
					if rounds == 2 && libMax > 0 && len(resps) == 0 {
						// the largest envelope the library can put into one segment
						resps = append(resps, k.bigFrame(true, f.abs.Stream, libMax, segref.Random))
					} else if k.r.Intn(3) != 0 {
						resps = append(resps, k.draw(libKinds, f.abs.Stream, libMax))
					}
					if k.r.Intn(6) == 0 {
						resps = append(resps, k.draw(ks.event, -1, libMax)) // the library server pushes an event
					}
				}
			}
			return s.pcRound(peerGroups, resps, segClass)
		}
		var reqs []sentFrame
		seen := map[int16]bool{}
		for _, g := range peerGroups {
			for _, f := range g.frames {
				if f.abs.Stream != -1 && !seen[f.abs.Stream] {
					seen[f.abs.Stream] = true
					rq := k.draw(libKinds, f.abs.Stream, libMax)
					if rounds == 2 && libMax > 0 && len(reqs) == 0 {
						rq = k.bigFrame(false, f.abs.Stream, libMax, segref.Random)
					}
					reqs = append(reqs, rq)
				}
			}
		}
		sh := make([]sentFrame, len(reqs)) // the peer answers in an order of its own
		for i, j := range perm(k, len(reqs)) {
			sh[i] = reqs[j]
		}
		return s.psRound(sh, peerGroups, segClass)
	}
	// extras: what may follow a peer response inside the same group (set-up 2 only): a further page, an event
	withExtras := func(fs []sentFrame, limit int) []sentFrame {
		if peerIsClient {
			return fs
		}
		var out []sentFrame
		for _, f := range fs {
			out = append(out, f)
			if isOpenAfter(f.abs) {
				k.count("multi_page_responses", 1)
				second := k.draw(peerKinds, f.abs.Stream, limit)
				if isOpenAfter(second.abs) {
					s.ids.open[f.abs.Stream] = true
				}
				out = append(out, second)
			}
			if k.r.Intn(4) == 0 {
				out = append(out, k.draw(ks.event, -1, limit))
			}
		}
		return out
	}
	scenario := k.spec.Scenario
	if k.alias != "" {
		scenario = k.alias
	}
	switch scenario {
	case "frames", "frames-short":
		n := 50
		if scenario == "frames-short" {
			n = 10
		}
		for sent, b := 0, 1; sent < n; b++ {
			nb := 1 + k.r.Intn(8)
			if nb > n-sent {
				nb = n - sent
			}
			k.stage("%s: frames batch %d (%d envelopes from the peer)", k.spec.Setup, b, nb)
			var fs []sentFrame
			for i := 0; i < nb; i++ {
				fs = append(fs, k.draw(peerKinds, s.ids.get(), 0))
			}
			plan := segPlan{Mode: "single", LZ4: s.lz4Mode()}
			cls := "single"
			if v.ModernFraming() && k.r.Bool() {
				plan = segPlan{Mode: "packed", MaxPer: 2 + k.r.Intn(7), LZ4: s.lz4Mode()}
				cls = "packed"
			}
			if !v.ModernFraming() {
				cls = "legacy"
			}
			if !round([]outGroup{{frames: withExtras(fs, 0), plan: plan}}, cls) {
				return
			}
			sent += nb
		}
		finals(k, s, peerIsClient, ks, libMax)
	case "packed":
		for b := 1; b <= 6; b++ {
			nb := 4 + k.r.Intn(12)
			k.stage("%s: %d envelopes (+ pages, events) in as few segments as possible, batch %d", k.spec.Setup, nb, b)
			var fs []sentFrame
			for i := 0; i < nb; i++ {
				fs = append(fs, k.draw(peerKinds, s.ids.get(), 20000))
			}
			if !round([]outGroup{{frames: withExtras(fs, 20000), plan: segPlan{Mode: "packed", MaxPer: 64, LZ4: s.lz4Mode()}}}, "packed") {
				return
			}
		}
	case "split-small":
		// every split point >= 9 of four small envelopes; several split envelopes back to back
		for shape := 0; shape < 4; shape++ {
			if peerIsClient && shape == 0 {
				continue // OPTIONS is 9 bytes: nothing to split at >= 9
			}
			probe := smallFrame(v, !peerIsClient, 1, shape, k.r)
			var cuts [][]int
			for p := 9; p < probe.size; p++ {
				cuts = append(cuts, []int{p})
			}
			for i := 0; i < 6 && probe.size > 12; i++ { // three parts
				a := 9 + k.r.Intn(probe.size-11)
				b := a + 1 + k.r.Intn(probe.size-a-1)
				cuts = append(cuts, []int{a, b})
			}
			for at := 0; at < len(cuts); {
				nb := 1 + k.r.Intn(8)
				if nb > len(cuts)-at {
					nb = len(cuts) - at
				}
				k.stage("%s: %d-byte %s split at %v .. %v (%d split envelopes back to back)", k.spec.Setup, probe.size, probe.kind, cuts[at], cuts[at+nb-1], nb)
				var groups []outGroup
				for i := 0; i < nb; i++ {
					f := smallFrame(v, !peerIsClient, s.ids.get(), shape, k.r)
					groups = append(groups, outGroup{frames: []sentFrame{f}, plan: segPlan{Mode: "split", Cuts: cuts[at+i], LZ4: s.lz4Mode()}})
					k.count("split_points_judged", int64(len(cuts[at+i])))
					if k.r.Intn(5) == 0 { // a self-contained segment between two split envelopes
						groups = append(groups, outGroup{frames: []sentFrame{k.draw(peerKinds, s.ids.get(), 3000)}, plan: segPlan{Mode: "single", LZ4: s.lz4Mode()}})
					}
				}
				if !round(groups, "split-small") {
					return
				}
				at += nb
			}
		}
	case "split-big":
		sizes := []int{segref.MaxPayload + 1, 150000, 2 * segref.MaxPayload, 2*segref.MaxPayload + 1, 300 << 10}
		if k.big {
			sizes = append(sizes, 512<<10, 512<<10+77, 1<<20+5)
		}
		for _, size := range sizes {
			plans := [][]int{nil, {9}, {size - 1}}
			for i := 0; i < 2; i++ {
				var cs []int
				for at := 9 + k.r.Intn(2000); at < size; at += 1 + k.r.Intn(segref.MaxPayload) {
					cs = append(cs, at)
				}
				plans = append(plans, cs)
			}
			plans = append(plans, []int{segref.MaxPayload, 2 * segref.MaxPayload}[:min(2, (size-1)/segref.MaxPayload)])
			for pi, cuts := range plans {
				class := bigClasses[k.r.Intn(len(bigClasses))]
				k.stage("%s: %d-byte envelope (%v) split at %v", k.spec.Setup, size, class, headInts(cuts, 8))
				f := k.bigFrame(!peerIsClient, s.ids.get(), size, class)
				k.count("split_points_judged", int64(len(cuts))+int64((size-1)/segref.MaxPayload))
				groups := []outGroup{{frames: []sentFrame{f}, plan: segPlan{Mode: "split", Cuts: cuts, LZ4: s.lz4Mode()}}}
				if pi%2 == 1 { // and a second split envelope right behind it
					g := k.bigFrame(!peerIsClient, s.ids.get(), segref.MaxPayload+1+k.r.Intn(5000), bigClasses[k.r.Intn(len(bigClasses))])
					groups = append(groups, outGroup{frames: []sentFrame{g}, plan: segPlan{Mode: "split", LZ4: s.lz4Mode()}})
				}
				if !round(groups, fmt.Sprintf("split-big/%d", pi)) {
					return
				}
			}
		}
	case "big":
		// legacy framing: large envelopes in both directions, compressed bodies where negotiated
		sizes := []int{70000, segref.MaxPayload + 1, 200000, 300 << 10}
		if k.big {
			sizes = append(sizes, 512<<10, 1<<20+3, 3<<20)
		}
		for _, size := range sizes {
			class := bigClasses[k.r.Intn(len(bigClasses))]
			k.stage("%s: %d-byte envelopes (%v) in both directions, legacy framing", k.spec.Setup, size, class)
			id := s.ids.get()
			pf := k.bigFrame(!peerIsClient, id, size, class)
			lf := k.bigFrame(peerIsClient, id, size, bigClasses[k.r.Intn(len(bigClasses))])
			ok := false
			if peerIsClient {
				ok = s.pcRound([]outGroup{{frames: []sentFrame{pf}, plan: segPlan{Mode: "single"}}}, []sentFrame{lf}, "legacy-big")
			} else {
				ok = s.psRound([]sentFrame{lf}, []outGroup{{frames: []sentFrame{pf}, plan: segPlan{Mode: "single"}}}, "legacy-big")
			}
			if !ok {
				return
			}
		}
	}
}

// finals: the frames whose reception changes the connection, sent last (see liblib.go).
func finals(k *kase, s *peerSess, peerIsClient bool, ks kindSets, libMax int) {
	if peerIsClient {
		k.stage("peer-client: final STARTUP request")
		sf := k.draw([]*genKind{ks.startup}, s.ids.get(), 0)
		if _, err := s.w.sendEnvelopes([][]byte{s.w.encode(sf.abs, false)}, segPlan{Mode: "single", LZ4: s.lz4Mode()}); err != nil {
			return
		}
		f, st := s.ls.next()
		switch st {
		case "timeout":
			k.inconclusive("timeout-waiting-for-final-request")
		case "closed":
			k.judged("request", sf, "final")
			k.violation("request-lost/connection-closed", map[string]interface{}{"what": "the server connection closed instead of delivering a STARTUP request sent after the handshake", "sent": jsonTrunc(sf.abs)})
		default:
			k.judged("request", sf, "final")
			if ok, d := k.compareLib(sf, f); !ok {
				k.violation("request-differs", d)
			}
		}
		return
	}
	k.stage("peer-server: final fatal ERROR response")
	req := k.draw(ks.req, s.ids.get(), libMax)
	pd, err := s.lc.send(req, false)
	if err != nil {
		return
	}
	if _, err := s.w.readEnvelopes(1); err != nil {
		return
	}
	resp := k.draw(ks.fatal, req.abs.Stream, 0)
	s.w.sendEnvelopes([][]byte{s.w.encode(resp.abs, k.r.Bool())}, segPlan{Mode: "single", LZ4: s.lz4Mode()})
	f, st := s.lc.awaitOne(pd)
	switch st {
	case "timeout":
		k.inconclusive("timeout-waiting-for-final-response")
	case "closed":
		k.judged("response", resp, "final")
		k.violation("response-lost/connection-closed", map[string]interface{}{"what": "a fatal ERROR response closed the connection without reaching its request", "sent": jsonTrunc(resp.abs), "request_err": fmt.Sprint(pd.fl.Err())})
	default:
		k.judged("response", resp, "final")
		if ok, d := k.compareLib(resp, f); !ok {
			k.violation("response-differs", d)
		}
	}
}

// innermost returns the last part of a wrapped error text ("a: b: c" -> "c").
func innermost(s string) string {
	for i := len(s) - 2; i > 0; i-- {
		if s[i] == ':' && s[i+1] == ' ' {
			return s[i+2:]
		}
	}
	return s
}

func headInts(a []int, n int) string {
	if len(a) <= n {
		return fmt.Sprint(a)
	}
	return fmt.Sprintf("%v...(%d cuts)", a[:n], len(a))
}
