package main

import (
	"bytes"
	"encoding/json"
	"fmt"
	"strconv"
	"strings"
	"sync"
	"time"

	"github.com/rs/zerolog"
	"github.com/rs/zerolog/log"

	"github.com/datastax/go-cassandra-native-protocol/client"
	"github.com/datastax/go-cassandra-native-protocol/frame"
	"github.com/datastax/go-cassandra-native-protocol/primitive"

	"verif/internal/bridge"
	"verif/internal/mon"
	"verif/internal/ref"
)

// errLog keeps the last error-level log lines of the library (observability for reports only).
type errLog struct {
	mu    sync.Mutex
	lines []string
}

func (l *errLog) Write(p []byte) (int, error) {
	if bytes.Contains(p, []byte(`"level":"error"`)) {
		s := strings.TrimSpace(string(p))
		if len(s) > 500 {
			s = s[:500] + "..."
		}
		l.mu.Lock()
		l.lines = append(l.lines, s)
		if len(l.lines) > 12 {
			l.lines = l.lines[len(l.lines)-12:]
		}
		l.mu.Unlock()
	}
	return len(p), nil
}

// find returns the first kept line containing sub.
func (l *errLog) find(sub string) string {
	l.mu.Lock()
	defer l.mu.Unlock()
	for _, s := range l.lines {
		if strings.Contains(s, sub) {
			return s
		}
	}
	return ""
}

// jsonField extracts a string member from a zerolog JSON line ("" if absent).
func jsonField(line, name string) string {
	var m map[string]interface{}
	if json.Unmarshal([]byte(line), &m) == nil {
		if v, ok := m[name].(string); ok {
			return v
		}
	}
	return ""
}

func (l *errLog) reset() {
	l.mu.Lock()
	l.lines = nil
	l.mu.Unlock()
}

func (l *errLog) snapshot() []string {
	l.mu.Lock()
	defer l.mu.Unlock()
	return append([]string{}, l.lines...)
}

var libErrors = &errLog{}

var workerSamples int

// kase is the context of one running case.
type kase struct {
	c     *mon.Ctx
	spec  caseSpec
	r     *mon.Rand
	prog  *progress
	big   bool
	cfg   string // "<setup>/<version>/<compression>"
	alias string // scenario whose frame menu this case borrows after its own opening (the spec keeps the real name: replays)
	step  string
}

func (k *kase) count(name string, n int64) { k.c.Count(name, n) }
func (k *kase) max(name string, v int64)   { k.c.Max(name, v) }

// stage records where the case is (progress file: what the supervisor reads after a death).
func (k *kase) stage(format string, a ...interface{}) {
	k.step = fmt.Sprintf(format, a...)
	k.prog.set(k.spec.Index, k.step)
}

func (k *kase) creds() *client.AuthCredentials {
	if k.spec.Auth {
		return &client.AuthCredentials{Username: "cassandra", Password: "s3cr3t-é"}
	}
	return nil
}

func (k *kase) libCompression() primitive.Compression {
	switch k.spec.Comp {
	case "lz4":
		return primitive.CompressionLz4
	case "snappy":
		return primitive.CompressionSnappy
	}
	return primitive.CompressionNone
}

func (k *kase) libVersion() primitive.ProtocolVersion { return primitive.ProtocolVersion(k.spec.Ver) }

// violation records a refuting observation: key = configuration + class.
func (k *kase) violation(class string, detail map[string]interface{}) {
	if detail == nil {
		detail = map[string]interface{}{}
	}
	detail["case"] = k.spec
	detail["seed"] = k.c.Seed
	detail["tier"] = k.c.Tier
	detail["stage"] = k.step
	if l := libErrors.snapshot(); len(l) > 0 {
		detail["library_error_log"] = l
	}
	k.c.Violation(k.cfg+"/"+class, detail)
}

func (k *kase) inconclusive(what string) {
	k.c.Inconclusive(what + "/" + k.spec.Setup + "/" + k.spec.Scenario)
}

// judged counts one judged frame (delivery or wire bytes) of a direction.
func (k *kase) judged(direction string, f sentFrame, segClass string) {
	k.c.Eval(1)
	k.count("frames_judged/"+k.cfg+"/"+direction, 1)
	k.c.Distinct(k.cfg + "|" + k.spec.Scenario + "|" + direction + "|" + segClass + "|" + f.sig)
	k.max("max_envelope_bytes/"+direction, int64(f.size))
	k.max("max_envelope_bytes", int64(f.size))
	if workerSamples < 1 && k.r.Intn(150) == 0 { // one per worker process: samples from different cases
		workerSamples++
		k.c.Sample(map[string]interface{}{"case": k.spec.String(), "stage": k.step, "direction": direction, "segmentation_class": segClass,
			"kind": f.kind, "envelope_bytes": f.size, "frame": headOf(string(ref.JSON(f.abs)), 400)})
	}
}

// compareLib judges a frame delivered by the library against the abstract frame that was sent.
func (k *kase) compareLib(want sentFrame, got *frame.Frame) (ok bool, detail map[string]interface{}) {
	g, flags, err := bridge.FromLib(got)
	if err != nil {
		return false, map[string]interface{}{"sent": jsonTrunc(want.abs), "delivered_unreadable": err.Error()}
	}
	if ref.Equal(want.abs, g) {
		return true, nil
	}
	return false, map[string]interface{}{"sent": jsonTrunc(want.abs), "delivered": jsonTrunc(g), "delivered_header_flags": flags, "diff": ref.Diff(want.abs, g), "frame_label": want.label}
}

// withTimeout runs f in a goroutine; timedOut means f had not returned after waitT (it is abandoned).
func withTimeout(f func() error) (err error, timedOut bool) {
	ch := make(chan error, 1)
	go func() { ch <- f() }()
	select {
	case err = <-ch:
		return err, false
	case <-time.After(waitT):
		return nil, true
	}
}

// closeQuietly closes library objects without letting a stuck Close hold the case (C16's business).
func (k *kase) closeQuietly(fs ...func() error) {
	for _, f := range fs {
		if f == nil {
			continue
		}
		if _, to := withTimeout(f); to {
			k.count("close_did_not_return_within_wait", 1)
		}
	}
}

func runWorker(c *mon.Ctx) {
	// Args: worker <progress file> <i,j,k> [<case spec json> (replay)]
	if len(c.Args) < 3 {
		c.Fatal("worker: bad arguments %v", c.Args)
	}
	log.Logger = zerolog.New(libErrors)
	zerolog.SetGlobalLevel(zerolog.ErrorLevel)
	prog := openProgress(c.Args[1])
	all := buildCases(c.Pick(1, thoroughReps))
	var override *caseSpec
	if len(c.Args) > 3 {
		override = &caseSpec{}
		if err := json.Unmarshal([]byte(c.Args[3]), override); err != nil {
			c.Fatal("worker: bad case spec: %v", err)
		}
	}
	for _, s := range strings.Split(c.Args[2], ",") {
		i, err := strconv.Atoi(s)
		if err != nil || i < 0 || (override == nil && i >= len(all)) {
			c.Fatal("worker: bad case index %q", s)
		}
		var sp caseSpec
		if override != nil {
			sp = *override
		} else {
			sp = all[i]
		}
		k := &kase{c: c, spec: sp, r: mon.NewRand(c.Seed, uint64(sp.Index)), prog: prog, big: c.Thorough(),
			cfg: fmt.Sprintf("%s/%v/%s", sp.Setup, sp.Ver, sp.Comp)}
		libErrors.reset()
		k.stage("start")
		c.Count("cases_run/"+sp.Setup+"/"+sp.Scenario, 1)
		t0 := time.Now()
		switch sp.Setup {
		case "lib-lib":
			runLibLib(k)
		case "peer-server":
			runPeerServer(k)
		case "peer-client":
			runPeerClient(k)
		}
		c.Count("case_wall_ms/"+sp.Setup+"/"+sp.Scenario, time.Since(t0).Milliseconds())
	}
	prog.set(-1, "done")
}
