module verif

go 1.21

require (
	github.com/anishathalye/porcupine v1.3.0
	github.com/datastax/go-cassandra-native-protocol v0.0.0
	github.com/pierrec/lz4/v4 v4.0.3
	github.com/rs/zerolog v1.20.0
	github.com/stretchr/testify v1.7.0
)

require (
	github.com/davecgh/go-spew v1.1.1 // indirect
	github.com/golang/snappy v0.0.3 // indirect
	github.com/pmezard/go-difflib v1.0.0 // indirect
	gopkg.in/yaml.v3 v3.0.0-20200313102051-9f266ea9e77c // indirect
)

replace github.com/datastax/go-cassandra-native-protocol => /repo
