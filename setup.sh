#!/bin/bash
# Offline setup: warm the Go build cache for both flavours of the check binary.
cd "$(dirname "$0")" || exit 1
export GOFLAGS=-mod=mod GOPROXY=off GOSUMDB=off GOTOOLCHAIN=local
mkdir -p .build evidence
for d in cmd/c*/; do
  id=$(basename "$d")
  go build -tags verif -o ".build/$id.main" "./cmd/$id" || exit 1
done
# the race-detector flavour (C09, C10, C16, C18): warms the -race standard library
for id in c09 c10 c16 c18; do
  [ -d "cmd/$id" ] && { go build -tags verif -race -o ".build/$id.main-race" "./cmd/$id" || exit 1; }
done
echo setup ok
