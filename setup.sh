#!/bin/bash
# Offline setup: warm the Go build cache for both flavours of the check binary.
cd "$(dirname "$0")" || exit 1
export GOFLAGS=-mod=mod GOPROXY=off GOSUMDB=off GOTOOLCHAIN=local
mkdir -p .build evidence
go build -tags verif -o .build/vcheck.main ./cmd/vcheck || exit 1
go build -tags verif -race -o .build/vcheck.main-race ./cmd/vcheck || exit 1
echo setup ok
